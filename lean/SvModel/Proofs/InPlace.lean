/-
In-place insertion machinery: `move_backward` with values, `shift_into_uninitialized`, the roll-back of a failed fill,
and the state predicate `MidIns` ("container `c` is in the middle of an in-place insertion: only the slots [lo, hi) of
its buffer may differ, the first n' slots are live, the header says size = n'").  Every intermediate and every
exceptional outcome of the in-place insert paths is a `MidIns`, and a `MidIns` re-establishes the invariants
(`MidIns.basic`) — that is the basic guarantee of the insert family.
-/
import SvModel.Proofs.Insert

namespace SvModel
open Gen
variable {α β : Type}

theorem Res.sat_and {r : Res (World α) β} {Q1 Q2 : β → World α → Prop} {E1 E2 : Exc → World α → Prop}
    (h1 : r.sat Q1 E1) (h2 : r.sat Q2 E2) : r.sat (fun b w => Q1 b w ∧ Q2 b w) (fun e w => E1 e w ∧ E2 e w) := by
  cases r with
  | ok b w => exact ⟨h1, h2⟩
  | thrown e w => exact ⟨h1, h2⟩

/-- std::move_backward by k > 0 inside one block: values on normal return -/
theorem moveBackward_vals (c : Cfg) (b a k : Nat) (hk : 0 < k) : ∀ (n : Nat) (w : World α),
    (∀ j, a ≤ j → j < a + n + k → IsObj w b j) →
    (moveBackward c b a k n w).sat
      (fun _ w' => ∀ i, i < n → (w'.mem b)[a + i + k]? = (w.mem b)[a + i]?)
      (fun _ _ => True)
  | 0, w, _ => fun i h => by omega
  | n+1, w, hobj => by
    show ((assignSrc c b (a + n + k) (.moveOf b (a + n)) >>= fun _ => moveBackward c b a k n) w).sat _ _
    obtain ⟨u, hu⟩ := hobj (a + n + k) (by omega) (by omega)
    obtain ⟨v, hv⟩ := hobj (a + n) (by omega) (by omega)
    refine sat_bind (assignSrc_sat c b (a + n + k) (.moveOf b (a + n)) w u hu
      (by intro b' i' hl; simp [Src.loc] at hl; obtain ⟨h1, h2⟩ := hl; subst h1; subst h2; exact ⟨v, hv⟩)
      (by simp [Src.loc]; omega)) (fun _ w1 hw => ?_) (fun _ _ _ => trivial)
    have hobj1 : ∀ j, a ≤ j → j < a + n + k → IsObj w1 b j := fun j h1 h2 => hw.touched.isObj (hobj j h1 (by omega))
    have h1 := moveBackward_vals c b a k hk n w1 hobj1
    have h2 := moveBackward_touched c b a k hk n w1 hobj1
    refine Res.sat_mono (Res.sat_and h1 h2) ?_ (fun _ _ _ => trivial)
    intro _ w2 ⟨hv2, ht2⟩ i hi
    by_cases hin : i = n
    · subst hin
      rw [ht2.same b (a + i + k) (by intro ⟨_, _, h⟩; omega), hw.dst, srcVal_moveOf w b (a + i) v hv, hv]
    · rw [hv2 i (by omega)]
      exact hw.rest b (a + i) (by intro h; injection h with _ h; omega) (by simp [Src.loc]; omega)

/-- mid-insertion state of container `c` -/
structure MidIns (w w' : World α) (c lo hi n' : Nat) : Prop where
  ctl0 : Ctl0 w w'
  hdr  : w'.hdr = upd w.hdr c { w.hdr c with size := n' }
  objs : ∀ i, i < n' → IsObj w' (w.hdr c).data i
  raws : ∀ i, n' ≤ i → i < hi → IsRaw w' (w.hdr c).data i
  rest : ∀ (b i : Nat), ¬ (b = (w.hdr c).data ∧ lo ≤ i ∧ i < hi) → (b % 2 = 1 ∨ b < 5) → (w'.mem b)[i]? = (w.mem b)[i]?

/-- a mid-insertion state with n' ≤ hi ≤ capacity satisfies all invariants again -/
theorem MidIns.basic {cfg : Cfg} {w w' : World α} {c lo hi n' : Nat} (h : MidIns w w' c lo hi n') (hv : VecOK cfg w c) (hl : Ledger w)
    (hn : n' ≤ hi) (hhi : hi ≤ (w.hdr c).cap) (hlo : (w.hdr c).size ≤ hi) : Basic cfg w w' c := by
  have hcls : (w.hdr c).data % 2 = 1 ∨ (w.hdr c).data < 5 := by
    by_cases hne : (w.hdr c).data = (w.hdr c).inl
    · right; rw [hne]; exact hv.inl_lt
    · left; exact (hv.data_odd hl hne).2.1
  obtain ⟨h1, h2, h3⟩ := inplace_ok cfg hv hl h.ctl0 h.hdr (by omega) h.objs
    (fun i a b => by
      by_cases hi : i < hi
      · exact h.raws i a hi
      · exact isRaw_of_eq (h.rest _ i (by intro ⟨_, _, x⟩; exact hi x) hcls) (hv.raws i (by omega) b))
    (fun b i hb hc => h.rest b i (by intro ⟨x, _, _⟩; exact hb x) hc)
  exact ⟨h1, h2, h.ctl0.ub, h3⟩

theorem MidIns.hdr_c {w w' : World α} {c lo hi n' : Nat} (h : MidIns w w' c lo hi n') :
    w'.hdr c = { w.hdr c with size := n' } := by rw [h.hdr]; simp

/-- shift_into_uninitialized (pos, k): k ≥ 1 elements are inserted before `pos`, the tail has at least k elements and
    there is room for k more.  On return the tail is shifted by k (values), the header says size + k; a throw (a
    relocating construction or a move assignment) leaves a mid-insertion state of size n or n + k. -/
theorem shiftIntoUninitialized_sat (cfg : Cfg) (c pos k : Nat) (w0 w : World α) (lo : Nat)
    (hk : 0 < k) (hpk : pos + k ≤ (w.hdr c).size) (hlo : lo ≤ pos)
    (hd : (w.hdr c).data = (w0.hdr c).data)
    (hm : MidIns w0 w c lo ((w.hdr c).size + k) (w.hdr c).size) :
    (shiftIntoUninitialized cfg c pos k w).sat
      (fun r w' => r = pos + k ∧ MidIns w0 w' c lo ((w.hdr c).size + k) ((w.hdr c).size + k) ∧
          (∀ i, pos ≤ i → i < (w.hdr c).size → (w'.mem (w.hdr c).data)[i + k]? = (w.mem (w.hdr c).data)[i]?) ∧
          (∀ (b i : Nat), ¬ (b = (w.hdr c).data ∧ pos ≤ i ∧ i < (w.hdr c).size + k) → (w'.mem b)[i]? = (w.mem b)[i]?) ∧ Ctl0 w w')
      (fun e w' => e = .elem ∧ ∃ n', (n' = (w.hdr c).size ∨ n' = (w.hdr c).size + k) ∧
          MidIns w0 w' c lo ((w.hdr c).size + k) n' ∧
          (∀ (b i : Nat), ¬ (b = (w.hdr c).data ∧ lo ≤ i ∧ i < (w.hdr c).size + k) → (w'.mem b)[i]? = (w.mem b)[i]?) ∧ Ctl0 w w') := by
  unfold shiftIntoUninitialized
  rw [bind_run, getV_run]
  simp only []
  generalize hn : (w.hdr c).size = n at *
  generalize hdd : (w.hdr c).data = d at *
  have hobj : ∀ i, i < n → IsObj w d i := fun i hi => by rw [hd]; exact hm.objs i hi
  have hraw : ∀ i, n ≤ i → i < n + k → IsRaw w d i := fun i a b => by rw [hd]; exact hm.raws i a b
  have hmv := uninitializedMove_sat cfg false d (n - k) k d n w
    (fun j hj => hobj _ (by omega)) (fun j hj => hraw _ (by omega) (by omega))
  have hsz0 : (w0.hdr c) = (w0.hdr c) := rfl
  refine sat_bind hmv (fun _ w1 hr => ?_) ?_
  · -- relocation of the last k elements done
    have hss : setSize c (n + k) w1 = .ok () { w1 with hdr := upd w1.hdr c { w1.hdr c with size := n + k } } := rfl
    rw [bind_run, hss]
    simp only []
    generalize hw2 : ({ w1 with hdr := upd w1.hdr c { w1.hdr c with size := n + k } } : World α) = w2
    have hmem2 : w2.mem = w1.mem := by subst hw2; rfl
    have hh2 : w2.hdr = upd w0.hdr c { w0.hdr c with size := n + k } := by
      subst hw2
      show upd w1.hdr c _ = _
      rw [hr.ctl.hdr, hm.hdr]
      funext x
      by_cases hx : x = c
      · subst hx; simp
      · simp [upd, hx]
    have hc12 : Ctl0 w w2 := by
      subst hw2
      exact ⟨hr.ctl.owner, hr.ctl.live, hr.ctl.next, hr.ctl.ub, by rw [hr.ctl.ntmp]; exact ⟨Nat.le_refl _, rfl⟩, fun b _ => hr.ctl.len b⟩
    have hobj2 : ∀ j, j < n + k → IsObj w2 d j := by
      intro j hj
      unfold IsObj; rw [hmem2]
      by_cases h1 : j < n - k
      · exact isObj_of_eq (hr.rest d j (by intro ⟨_, h, _⟩; omega) (by intro ⟨_, h, _⟩; omega)) (hobj j (by omega))
      · by_cases h2 : j < n
        · have := hr.src (j - (n - k)) (by omega)
          rw [show n - k + (j - (n - k)) = j by omega] at this; exact this
        · have := hr.dst (j - n) (by omega)
          rw [show n + (j - n) = j by omega] at this
          exact isObj_of_eq this (hobj (n - k + (j - n)) (by omega))
    have hobjs2 : ∀ j, pos ≤ j → j < pos + (n - k - pos) + k → IsObj w2 d j := fun j _ h2 => hobj2 j (by omega)
    have hmb := Res.sat_and (moveBackward_vals cfg d pos k hk (n - k - pos) w2 hobjs2)
                            (moveBackward_touched cfg d pos k hk (n - k - pos) w2 hobjs2)
    have hrest2 : ∀ (b i : Nat), ¬ (b = d ∧ n - k ≤ i ∧ i < n + k) → (w2.mem b)[i]? = (w.mem b)[i]? := by
      intro b i hne
      rw [hmem2]
      exact hr.rest b i (by intro ⟨a1, a2, a3⟩; exact hne ⟨a1, by omega, a3⟩) (by intro ⟨a1, a2, a3⟩; exact hne ⟨a1, a2, by omega⟩)
    refine sat_bind hmb (fun _ w3 h3 => ?_) ?_
    · obtain ⟨hv3, ht3⟩ := h3
      show pos + k = pos + k ∧ _
      have hc13 : Ctl0 w w3 := hc12.trans ht3.ctl.to0
      have hrest3 : ∀ (b i : Nat), ¬ (b = d ∧ pos ≤ i ∧ i < n + k) → (w3.mem b)[i]? = (w.mem b)[i]? := by
        intro b i hne
        rw [ht3.same b i (by intro ⟨a1, a2, a3⟩; exact hne ⟨a1, a2, by omega⟩)]
        exact hrest2 b i (by intro ⟨a1, a2, a3⟩; exact hne ⟨a1, by omega, a3⟩)
      refine ⟨rfl, ⟨hm.ctl0.trans hc13, by rw [ht3.ctl.hdr]; exact hh2, fun i hi => by rw [← hd]; exact ht3.isObj (hobj2 i hi),
                fun i a b => by omega, ?_⟩, ?_, hrest3, hc13⟩
      · intro b i hne hcl
        rw [hrest3 b i (by rw [← hd] at hne; intro ⟨a1, a2, a3⟩; exact hne ⟨a1, by omega, a3⟩)]
        exact hm.rest b i hne hcl
      · intro i h1 h2
        by_cases h3 : i < n - k
        · have := hv3 (i - pos) (by omega)
          rw [show pos + (i - pos) + k = i + k by omega, show pos + (i - pos) = i by omega] at this
          rw [this]
          exact hrest2 d i (by intro ⟨_, a, _⟩; omega)
        · rw [ht3.same d (i + k) (by intro ⟨_, _, a⟩; omega), hmem2]
          have := hr.dst (i - (n - k)) (by omega)
          rw [show n + (i - (n - k)) = i + k by omega, show n - k + (i - (n - k)) = i by omega] at this
          exact this
    · -- move_backward threw
      intro e w3 ⟨_, he, ht3⟩
      have hc13 : Ctl0 w w3 := hc12.trans ht3.ctl.to0
      have hrest3 : ∀ (b i : Nat), ¬ (b = d ∧ pos ≤ i ∧ i < n + k) → (w3.mem b)[i]? = (w.mem b)[i]? := by
        intro b i hne
        rw [ht3.same b i (by intro ⟨a1, a2, a3⟩; exact hne ⟨a1, a2, by omega⟩)]
        exact hrest2 b i (by intro ⟨a1, a2, a3⟩; exact hne ⟨a1, by omega, a3⟩)
      refine ⟨he, n + k, Or.inr rfl, ⟨hm.ctl0.trans hc13, by rw [ht3.ctl.hdr]; exact hh2, fun i hi => by rw [← hd]; exact ht3.isObj (hobj2 i hi),
                fun i a b => by omega, ?_⟩, ?_, hc13⟩
      · intro b i hne hcl
        rw [hrest3 b i (by rw [← hd] at hne; intro ⟨a1, a2, a3⟩; exact hne ⟨a1, by omega, a3⟩)]
        exact hm.rest b i hne hcl
      · intro b i hne
        exact hrest3 b i (by intro ⟨a1, a2, a3⟩; exact hne ⟨a1, by omega, a3⟩)
  · -- the relocation of the last k elements threw: nothing was constructed
    intro e w1 ⟨he, hf⟩
    have hrest1 : ∀ (b i : Nat), ¬ (b = d ∧ n - k ≤ i ∧ i < n + k) → (w1.mem b)[i]? = (w.mem b)[i]? := by
      intro b i hne
      exact hf.rest b i (by intro ⟨a1, a2, a3⟩; exact hne ⟨a1, by omega, a3⟩) (by intro ⟨a1, a2, a3⟩; exact hne ⟨a1, a2, by omega⟩)
    refine ⟨he, n, Or.inl rfl, ⟨hm.ctl0.trans hf.ctl.to0, ?_, ?_, ?_, ?_⟩, ?_, hf.ctl.to0⟩
    · rw [hf.ctl.hdr, hm.hdr]
    · intro i hi
      rw [← hd]
      by_cases h1 : i < n - k
      · exact isObj_of_eq (hrest1 d i (by intro ⟨_, a, _⟩; omega)) (hobj i hi)
      · have := hf.src (i - (n - k)) (by omega)
        rw [show n - k + (i - (n - k)) = i by omega] at this; exact this
    · intro i a b
      rw [← hd]
      have := hf.dst (i - n) (by omega)
      rw [show n + (i - n) = i by omega] at this; exact this
    · intro b i hne hcl
      rw [hrest1 b i (by rw [← hd] at hne; intro ⟨a1, a2, a3⟩; exact hne ⟨a1, by omega, a3⟩)]
      exact hm.rest b i hne hcl
    · intro b i hne
      exact hrest1 b i (by intro ⟨a1, a2, a3⟩; exact hne ⟨a1, by omega, a3⟩)

theorem VecOK.data_cls {cfg : Cfg} {w : World α} {c : Nat} (hv : VecOK cfg w c) (hl : Ledger w) :
    (w.hdr c).data % 2 = 1 ∨ (w.hdr c).data < 5 := by
  by_cases hne : (w.hdr c).data = (w.hdr c).inl
  · right; rw [hne]; exact hv.inl_lt
  · left; exact (hv.data_odd hl hne).2.1

/-- the container itself as a (trivial) mid-insertion state -/
theorem MidIns.start {cfg : Cfg} {w : World α} {c : Nat} (hv : VecOK cfg w c) (lo hi : Nat) (hhi : hi ≤ (w.hdr c).cap) :
    MidIns w w c lo hi (w.hdr c).size :=
  ⟨Ctl0.refl w, (upd_self w.hdr c).symm, hv.objs, fun i a b => hv.raws i a (by omega), fun _ _ _ _ => rfl⟩

/-- a step that keeps the control state and every slot of the container-class blocks (odd ids and ids < 5) -/
theorem MidIns.step_tmp {w wa wb : World α} {c lo hi n' : Nat} (h : MidIns w wa c lo hi n') (hc : Ctl0 wa wb) (hh : wb.hdr = wa.hdr)
    (hcls : (w.hdr c).data % 2 = 1 ∨ (w.hdr c).data < 5)
    (hs : ∀ (b i : Nat), (b % 2 = 1 ∨ b < 5) → (wb.mem b)[i]? = (wa.mem b)[i]?) : MidIns w wb c lo hi n' :=
  ⟨h.ctl0.trans hc, by rw [hh]; exact h.hdr, fun i hi => isObj_of_eq (hs _ i hcls) (h.objs i hi),
   fun i a b => isRaw_of_eq (hs _ i hcls) (h.raws i a b), fun b i hne hc' => by rw [hs b i hc']; exact h.rest b i hne hc'⟩

theorem allocTemp_run (w : World α) :
    (allocTemp : M α Nat) w = .ok w.ntmp { w with mem := upd w.mem w.ntmp [.raw], ntmp := w.ntmp + 2 } := rfl

/-- what a caller of an in-place insertion sees when it fails: the basic guarantee, same buffer, nothing allocated -/
def InsFail (cfg : Cfg) (w w' : World α) (c : Nat) : Prop :=
  Basic cfg w w' c ∧ (w'.hdr c).data = (w.hdr c).data ∧ (w'.hdr c).cap = (w.hdr c).cap ∧ w'.live = w.live ∧ w'.next = w.next

theorem MidIns.fail {cfg : Cfg} {w w' : World α} {c lo hi n' : Nat} (h : MidIns w w' c lo hi n') (hv : VecOK cfg w c) (hl : Ledger w)
    (hn : n' ≤ hi) (hhi : hi ≤ (w.hdr c).cap) (hlo : (w.hdr c).size ≤ hi) : InsFail cfg w w' c :=
  ⟨h.basic hv hl hn hhi hlo, by rw [h.hdr_c], by rw [h.hdr_c], h.ctl0.live, h.ctl0.next⟩

/-- what it sees when it succeeds in place -/
def InsKept (w w' : World α) (c : Nat) : Prop :=
  (w'.hdr c).data = (w.hdr c).data ∧ (w'.hdr c).cap = (w.hdr c).cap ∧ w'.live = w.live ∧ w'.next = w.next

/-- emplace_into_current, generic overload: stack temporary, shift by one, move-assign the temporary into place -/
theorem emplaceIntoCurrent_sat (cfg : Cfg) (c pos : Nat) (s : Src α) (w : World α)
    (hv : VecOK cfg w c) (hl : Ledger w) (hroom : (w.hdr c).size < (w.hdr c).cap) (hpos : pos ≤ (w.hdr c).size)
    (ha : ArgOK cfg w c s) :
    (emplaceIntoCurrent cfg c pos s w).sat
      (fun r w' => r = pos ∧ Inserted cfg w w' c pos [srcVal w s] ∧ InsKept w w' c)
      (fun _ w' => InsFail cfg w w' c) := by
  unfold emplaceIntoCurrent
  rw [bind_run, getV_run]
  simp only []
  have eg : guard_emplaceIntoCurrent1_0 { genv cfg (w.hdr c) with pos := pos } = decide (pos = (w.hdr c).size) := rfl
  rw [eg]
  by_cases hend : pos = (w.hdr c).size
  · -- at the end: emplace_into_current_end
    rw [if_pos (decide_eq_true hend)]
    refine Res.sat_mono (emplaceIntoCurrentEnd_sat cfg c s w hv hl hroom ha) ?_ ?_
    · intro r w' ⟨hr, hp⟩
      obtain ⟨i1, i2, i3, i4, _⟩ := hp.inplace hroom
      refine ⟨by rw [hr, hend], ⟨⟨hp.vec, hp.led, hp.ub, hp.frame⟩, ?_, by rw [hp.size]; rfl, hp.alloc⟩, i1, i2, i4, i3⟩
      intro xs hx
      have := hp.holds xs hx
      rw [hend, ← hx.1]
      simpa using this
    · intro e w' ⟨_, hq⟩
      have hs := Strong.of_quiet hl hq
      exact ⟨hs.basic hl hv, by rw [hs.hdr], by rw [hs.hdr], hs.live, hq.2.next⟩
  rw [if_neg (by simpa using hend)]
  generalize hn : (w.hdr c).size = n at *
  generalize hdd : (w.hdr c).data = d at *
  have hposlt : pos < n := by omega
  have hcls : d % 2 = 1 ∨ d < 5 := by rw [← hdd]; exact hv.data_cls hl
  have htmp := hl.ntmp_ok
  have htd : w.ntmp ≠ d := by omega
  have htcls : ¬ (w.ntmp % 2 = 1 ∨ w.ntmp < 5) := by omega
  -- 1. the stack temporary
  rw [bind_run, allocTemp_run]
  simp only []
  generalize hw1 : ({ w with mem := upd w.mem w.ntmp [.raw], ntmp := w.ntmp + 2 } : World α) = w1
  have hmem1 : ∀ b, b ≠ w.ntmp → w1.mem b = w.mem b := fun b hb => by subst hw1; show upd w.mem _ _ b = _; rw [upd_other _ _ _ _ hb]
  have hh1 : w1.hdr = w.hdr := by subst hw1; rfl
  have hc01 : Ctl0 w w1 := by
    subst hw1
    refine ⟨rfl, rfl, rfl, rfl, ⟨by show w.ntmp ≤ w.ntmp + 2; omega, by show (w.ntmp + 2) % 2 = _; omega⟩, ?_⟩
    intro b hb
    show (upd w.mem w.ntmp [.raw] b).length = _
    rw [upd_other _ _ _ _ (by
      intro h; subst h
      rcases hb with h | h | h
      · omega
      · omega
      · have : w.ntmp + 2 ≤ w.ntmp := h
        omega)]
  have hm1 : MidIns w w1 c pos (n + 1) n := by
    have := (MidIns.start hv pos (n + 1) (by omega)).step_tmp hc01 hh1 (by rw [hdd]; exact hcls)
      (fun b i hb => by rw [hmem1 b (by intro h; subst h; exact htcls hb)])
    rw [hn] at this; exact this
  have hraw1 : (w1.mem w.ntmp)[0]? = some .raw := by subst hw1; show (upd w.mem w.ntmp [.raw] w.ntmp)[0]? = _; simp
  have hlive1 : SrcLive w1 s := by
    intro b i hl'
    obtain ⟨hb', _⟩ := ha.inside b i hl'
    obtain ⟨v, hv'⟩ := ha.live b i hl'
    exact ⟨v, by rw [hmem1 b (by rw [hb', hdd]; exact Ne.symm htd)]; exact hv'⟩
  have hsv1 : srcVal w1 s = srcVal w s :=
    srcVal_congr w w1 s (fun b i hl' => by rw [hmem1 b (by rw [(ha.inside b i hl').1, hdd]; exact Ne.symm htd)])
  refine sat_bind (constructSrc_sat cfg w.ntmp 0 s w1 hraw1 hlive1) (fun _ w2 hw2 => ?_) (fun e w2 hq => ?_)
  rotate_left
  · -- constructing the temporary threw
    obtain ⟨_, hq⟩ := hq
    have hm2 : MidIns w w2 c pos (n + 1) n := hm1.step_tmp hq.2.to0 hq.2.hdr (by rw [hdd]; exact hcls) (fun b i _ => by rw [hq.1])
    have := hm2.fail hv hl (by omega) (by omega) (by omega)
    exact this
  have hsame2 := hw2.same_of_nonmoving ha.nonmoving hlive1
  have hm2 : MidIns w w2 c pos (n + 1) n := hm1.step_tmp hw2.ctl.to0 hw2.ctl.hdr (by rw [hdd]; exact hcls)
    (fun b i hb => hsame2 b i (by intro h; injection h with h _; subst h; exact htcls hb))
  have htmp2 : (w2.mem w.ntmp)[0]? = some (.obj (srcVal w s)) := by rw [hw2.dst, hsv1]
  have hsz2 : (w2.hdr c).size = n := by rw [hm2.hdr_c]
  have hd2 : (w2.hdr c).data = d := by rw [hm2.hdr_c]; exact hdd
  have hdata2 : ∀ i : Nat, (w2.mem d)[i]? = (w.mem d)[i]? := fun i => by
    rw [hsame2 d i (by intro h; injection h with h _; exact htd h.symm), hmem1 d (Ne.symm htd)]
  -- 2. the body under the scope of the temporary
  rw [bind_run]
  have hbody : ((shiftIntoUninitialized cfg c pos 1 >>= fun _ => assignSrc cfg d pos (.moveOf w.ntmp 0)) w2).sat
      (fun _ w4 => MidIns w w4 c pos (n + 1) (n + 1) ∧ IsObj w4 w.ntmp 0 ∧
          (w4.mem d)[pos]? = some (.obj (srcVal w s)) ∧
          (∀ i, pos ≤ i → i < n → (w4.mem d)[i + 1]? = (w.mem d)[i]?))
      (fun _ w4 => (∃ n', (n' = n ∨ n' = n + 1) ∧ MidIns w w4 c pos (n + 1) n') ∧ IsObj w4 w.ntmp 0) := by
    have hsh := shiftIntoUninitialized_sat cfg c pos 1 w w2 pos (by omega) (by rw [hsz2]; omega) (Nat.le_refl _)
      (by rw [hd2, hdd]) (by rw [hsz2]; exact hm2)
    rw [hsz2, hd2] at hsh
    refine sat_bind hsh (fun _ w3 h3 => ?_) ?_
    · obtain ⟨_, hm3, hv3, hrest3, hc23⟩ := h3
      have htmp3 : (w3.mem w.ntmp)[0]? = some (.obj (srcVal w s)) := by
        rw [hrest3 _ _ (by intro ⟨h, _, _⟩; exact htd h)]; exact htmp2
      obtain ⟨u, hu⟩ := hm3.objs pos (by omega)
      rw [hdd] at hu
      refine Res.sat_mono (assignSrc_sat cfg d pos (.moveOf w.ntmp 0) w3 u hu
        (by intro b i hl'; simp [Src.loc] at hl'; obtain ⟨h1, h2⟩ := hl'; subst h1; subst h2; exact ⟨_, htmp3⟩)
        (by simp [Src.loc]; intro h; exact absurd h htd)) ?_ ?_
      · intro _ w4 hw4
        have hrest4 : ∀ b i, (b, i) ≠ (d, pos) → (b, i) ≠ (w.ntmp, 0) → (w4.mem b)[i]? = (w3.mem b)[i]? :=
          fun b i h1 h2 => hw4.rest b i h1 (by simp [Src.loc]; intro a1 a2; exact h2 (by rw [a1, a2]))
        refine ⟨⟨hm3.ctl0.trans hw4.ctl.to0, by rw [hw4.ctl.hdr]; exact hm3.hdr, ?_, fun i a b => by omega, ?_⟩, ?_, ?_, ?_⟩
        · intro i hi
          rw [hdd]
          by_cases hip : i = pos
          · subst hip; exact ⟨_, hw4.dst⟩
          · have := hm3.objs i hi
            rw [hdd] at this
            exact isObj_of_eq (hrest4 d i (by intro h; injection h with _ h; exact hip h) (by intro h; injection h with h _; exact htd h.symm)) this
        · intro b i hne hc'
          rw [hdd] at hne
          rw [hrest4 b i (by intro h; injection h with h1 h2; exact hne ⟨h1, by omega, by omega⟩) (by intro h; injection h with h _; subst h; exact htcls hc')]
          exact hm3.rest b i (by rw [hdd]; exact hne) hc'
        · exact ⟨_, hw4.src w.ntmp 0 (by simp [Src.loc]) (by intro h; injection h with h _; exact htd h)⟩
        · rw [hw4.dst, srcVal_moveOf w3 _ _ _ htmp3]
        · intro i h1 h2
          rw [hrest4 d (i + 1) (by intro h; injection h with _ h; omega) (by intro h; injection h with h _; exact htd h.symm), hv3 i h1 h2, hdata2]
      · intro e w4 ⟨_, hq⟩
        refine ⟨⟨n + 1, Or.inr rfl, hm3.step_tmp hq.2.to0 hq.2.hdr (by rw [hdd]; exact hcls) (fun b i _ => by rw [hq.1])⟩, ?_⟩
        exact ⟨_, by rw [hq.1]; exact htmp3⟩
    · intro e w3 ⟨_, n', hn', hm3, hrest3, _⟩
      exact ⟨⟨n', hn', hm3⟩, ⟨_, by rw [hrest3 _ _ (by intro ⟨h, _, _⟩; exact htd h)]; exact htmp2⟩⟩
  -- 3. the temporary's destructor runs on both exits
  refine sat_bind (sat_finally (Q := fun _ w5 => MidIns w w5 c pos (n + 1) (n + 1) ∧
        (w5.mem d)[pos]? = some (.obj (srcVal w s)) ∧ (∀ i, pos ≤ i → i < n → (w5.mem d)[i + 1]? = (w.mem d)[i]?))
      (E := fun _ w5 => InsFail cfg w w5 c) hbody ?_ ?_) ?_ (fun _ _ h => h)
  · intro _ w4 ⟨hm4, ht4, hp4, hs4⟩
    refine Res.sat_mono (destroyAt_sat cfg w.ntmp 0 w4 ht4) ?_ (fun _ _ h => h.elim)
    intro _ w5 ⟨hc5, _, hrest5⟩
    have hoth : ∀ i : Nat, (w5.mem d)[i]? = (w4.mem d)[i]? := fun i => hrest5 d i (by intro h; injection h with h _; exact htd h.symm)
    exact ⟨hm4.step_tmp hc5.to0 hc5.hdr (by rw [hdd]; exact hcls) (fun b i hb => hrest5 b i (by intro h; injection h with h _; subst h; exact htcls hb)),
           by rw [hoth]; exact hp4, fun i a b => by rw [hoth]; exact hs4 i a b⟩
  · intro e w4 ⟨⟨n', hn', hm4⟩, ht4⟩
    refine Res.sat_mono (destroyAt_sat cfg w.ntmp 0 w4 ht4) ?_ (fun _ _ h => h.elim)
    intro _ w5 ⟨hc5, _, hrest5⟩
    have hm5 := hm4.step_tmp hc5.to0 hc5.hdr (by rw [hdd]; exact hcls) (fun b i hb => hrest5 b i (by intro h; injection h with h _; subst h; exact htcls hb))
    have := hm5.fail hv hl (by omega) (by omega) (by omega)
    exact this
  -- 4. done
  intro _ w5 ⟨hm5, hp5, hs5⟩
  show pos = pos ∧ _
  have hb5 := hm5.basic hv hl (Nat.le_refl _) (by omega) (by omega)
  have hhc5 := hm5.hdr_c
  refine ⟨rfl, ⟨hb5, ?_, by rw [hhc5]; simp [hn], by rw [hhc5]⟩, by rw [hhc5], by rw [hhc5], hm5.ctl0.live, hm5.ctl0.next⟩
  intro xs hx
  refine holds_insert_of_slots (d := d) (n := n) hx hn.symm hpos (by rw [hhc5]; rfl) (by rw [hhc5]; exact hdd) ?_ ?_ ?_
  · intro i hi
    rw [hdd]
    exact hm5.rest d i (by intro ⟨_, h, _⟩; omega) hcls
  · intro k hk
    have : k = 0 := by simpa using hk
    subst this
    simpa using hp5
  · intro i h1 h2
    rw [hdd]
    simpa using hs5 i h1 h2

theorem Cfg.tMove_of_nothrowMove (cfg : Cfg) (h : cfg.policy.nothrowMove = true) : cfg.tMove = false := by
  unfold Cfg.policy at h
  unfold Cfg.tMove
  simp only [Bool.or_eq_true, Bool.not_eq_true'] at h
  cases ht : cfg.trivial
  · simp [ht] at h; simp [h]
  · simp

/-- emplace_into_current (ptr, value_ty&&), selected for nothrow-move-constructible types: shift by one, destroy the
    moved-from element at `pos`, construct the new element in its place (which cannot throw) -/
theorem emplaceIntoCurrentRv_sat (cfg : Cfg) (c pos : Nat) (a : α) (w : World α)
    (hv : VecOK cfg w c) (hl : Ledger w) (hroom : (w.hdr c).size < (w.hdr c).cap) (hpos : pos ≤ (w.hdr c).size)
    (hnt : cfg.policy.nothrowMove = true) :
    (emplaceIntoCurrentRv cfg c pos (.extMove a) w).sat
      (fun r w' => r = pos ∧ Inserted cfg w w' c pos [.val a] ∧ InsKept w w' c)
      (fun _ w' => InsFail cfg w w' c) := by
  have ha : ArgOK cfg w c (.extMove a) := ⟨rfl, fun _ _ h => by simp [Src.loc] at h, fun _ _ h => by simp [Src.loc] at h⟩
  unfold emplaceIntoCurrentRv
  rw [bind_run, getV_run]
  simp only []
  have eg : guard_emplaceIntoCurrent0_0 { genv cfg (w.hdr c) with pos := pos } = decide (pos = (w.hdr c).size) := rfl
  rw [eg]
  by_cases hend : pos = (w.hdr c).size
  · rw [if_pos (decide_eq_true hend)]
    refine Res.sat_mono (emplaceIntoCurrentEnd_sat cfg c _ w hv hl hroom ha) ?_ ?_
    · intro r w' ⟨hr, hp⟩
      obtain ⟨i1, i2, i3, i4, _⟩ := hp.inplace hroom
      refine ⟨by rw [hr, hend], ⟨⟨hp.vec, hp.led, hp.ub, hp.frame⟩, ?_, by rw [hp.size]; rfl, hp.alloc⟩, i1, i2, i4, i3⟩
      intro xs hx
      have := hp.holds xs hx
      rw [hend, ← hx.1]
      simpa [srcVal] using this
    · intro e w' ⟨_, hq⟩
      have hs := Strong.of_quiet hl hq
      exact ⟨hs.basic hl hv, by rw [hs.hdr], by rw [hs.hdr], hs.live, hq.2.next⟩
  rw [if_neg (by simpa using hend)]
  generalize hn : (w.hdr c).size = n at *
  generalize hdd : (w.hdr c).data = d at *
  have hcls : d % 2 = 1 ∨ d < 5 := by rw [← hdd]; exact hv.data_cls hl
  have hm0 : MidIns w w c pos (n + 1) n := by
    have := MidIns.start hv pos (n + 1) (by omega)
    rw [hn] at this; exact this
  have hsh := shiftIntoUninitialized_sat cfg c pos 1 w w pos (by omega) (by rw [hn]; omega) (Nat.le_refl _) rfl (by rw [hn]; exact hm0)
  rw [hn, hdd] at hsh
  refine sat_bind hsh (fun _ w3 h3 => ?_) ?_
  · obtain ⟨_, hm3, hv3, hrest3, hc23⟩ := h3
    have hobj3 := hm3.objs pos (by omega)
    rw [hdd] at hobj3
    refine sat_bind (destroyAt_sat cfg d pos w3 hobj3) (fun _ w4 h4 => ?_) (fun _ _ h => h.elim)
    obtain ⟨hc4, hraw4, hrest4⟩ := h4
    refine sat_bind (constructSrc_sat cfg d pos (.extMove a) w4 hraw4 (fun _ _ h => by simp [Src.loc] at h)) (fun _ w5 hw5 => ?_) ?_
    · show pos = pos ∧ _
      have hsame5 := hw5.same_of_nonmoving rfl (fun _ _ h => by simp [Src.loc] at h)
      have hslot : ∀ b i, (b, i) ≠ (d, pos) → (w5.mem b)[i]? = (w3.mem b)[i]? :=
        fun b i hne => (hsame5 b i hne).trans (hrest4 b i hne)
      have hm5 : MidIns w w5 c pos (n + 1) (n + 1) := by
        refine ⟨hm3.ctl0.trans (hc4.to0.trans hw5.ctl.to0), by rw [hw5.ctl.hdr, hc4.hdr]; exact hm3.hdr, ?_, fun i a b => by omega, ?_⟩
        · intro i hi
          rw [hdd]
          by_cases hip : i = pos
          · subst hip; exact ⟨_, hw5.dst⟩
          · have := hm3.objs i hi
            rw [hdd] at this
            exact isObj_of_eq (hslot d i (by intro h; injection h with _ h; exact hip h)) this
        · intro b i hne hc'
          rw [hdd] at hne
          rw [hslot b i (by intro h; injection h with h1 h2; exact hne ⟨h1, by omega, by omega⟩)]
          exact hm3.rest b i (by rw [hdd]; exact hne) hc'
      have hb5 := hm5.basic hv hl (Nat.le_refl _) (by omega) (by omega)
      have hhc5 := hm5.hdr_c
      refine ⟨rfl, ⟨hb5, ?_, by rw [hhc5]; simp [hn], by rw [hhc5]⟩, by rw [hhc5], by rw [hhc5], hm5.ctl0.live, hm5.ctl0.next⟩
      intro xs hx
      refine holds_insert_of_slots (d := d) (n := n) hx hn.symm hpos (by rw [hhc5]; rfl) (by rw [hhc5]; exact hdd) ?_ ?_ ?_
      · intro i hi
        rw [hdd]
        exact hm5.rest d i (by intro ⟨_, h, _⟩; omega) hcls
      · intro k hk
        have : k = 0 := by simpa using hk
        subst this
        simpa [srcVal] using hw5.dst
      · intro i h1 h2
        rw [hdd]
        show (w5.mem d)[i + 1]? = _
        rw [hslot d (i + 1) (by intro h; injection h with _ h; omega)]
        exact hv3 i h1 h2
    · -- constructing from an rvalue of a nothrow-move-constructible type cannot throw
      intro e w5 ⟨⟨_, ht⟩, _⟩
      have : cfg.tMove = false := Cfg.tMove_of_nothrowMove cfg hnt
      simp [Src.ticks, this] at ht
  · intro e w3 ⟨_, n', hn', hm3, _, _⟩
    have := hm3.fail hv hl (by omega) (by omega) (by omega)
    exact this

/-- a step inside the data block that keeps the control state: shape facts are re-proved by the caller -/
theorem MidIns.step_data {w wa wb : World α} {c lo hi n' : Nat} (h : MidIns w wa c lo hi n') (hc : Ctl0 wa wb) (hh : wb.hdr = wa.hdr)
    (hobj : ∀ i, i < n' → IsObj wb (w.hdr c).data i) (hraw : ∀ i, n' ≤ i → i < hi → IsRaw wb (w.hdr c).data i)
    (hs : ∀ (b i : Nat), ¬ (b = (w.hdr c).data ∧ lo ≤ i ∧ i < hi) → (b % 2 = 1 ∨ b < 5) → (wb.mem b)[i]? = (wa.mem b)[i]?) :
    MidIns w wb c lo hi n' :=
  ⟨h.ctl0.trans hc, by rw [hh]; exact h.hdr, hobj, hraw, fun b i hne hc' => by rw [hs b i hne hc']; exact h.rest b i hne hc'⟩

/-- roll-back of a failed fill: move the shifted tail [ie, S) back to `pos`, destroy the `drop` leftovers at the end,
    restore the size, rethrow; if a move assignment of the roll-back itself throws the container keeps size S -/
theorem rollbackShift_sat (cfg : Cfg) (c pos ie drop : Nat) (e : Exc) (w0 w : World α) (lo hi S : Nat)
    (hpos : pos < ie) (hie : ie ≤ S) (hdrop : drop ≤ S) (hpd : pos ≤ S - drop) (hlo : lo ≤ pos) (hhi : S ≤ hi) (hsz : (w.hdr c).size = S)
    (hd : (w.hdr c).data = (w0.hdr c).data) (hm : MidIns w0 w c lo hi S) :
    (rollbackShift cfg c pos ie drop e w : Res (World α) Unit).sat (fun _ _ => False)
      (fun _ w' => ∃ n', (n' = S - drop ∨ n' = S) ∧ MidIns w0 w' c lo hi n' ∧
          (∀ (b i : Nat), ¬ (b = (w.hdr c).data ∧ lo ≤ i ∧ i < S) → (w'.mem b)[i]? = (w.mem b)[i]?) ∧ Ctl0 w w') := by
  unfold rollbackShift
  rw [bind_run, getV_run]
  simp only []
  rw [hsz]
  generalize hdd : (w.hdr c).data = d at *
  have hobj : ∀ i, i < S → IsObj w d i := fun i hi' => by rw [hd]; exact hm.objs i hi'
  have hml := moveLeft_sat cfg d (S - ie) ie pos w hpos (fun j _ h2 => hobj j (by omega))
  refine sat_bind hml (fun _ w1 ⟨ht1, _⟩ => ?_) ?_
  · have hobj1 : ∀ i, S - drop ≤ i → i < S - drop + drop → IsObj w1 d i := fun i _ h2 => ht1.isObj (hobj i (by omega))
    refine sat_bind (destroyRange_sat cfg d drop (S - drop) w1 hobj1) (fun _ w2 ⟨hc2, hraw2, hrest2⟩ => ?_) (fun _ _ h => h.elim)
    have hss : setSize c (S - drop) w2 = .ok () { w2 with hdr := upd w2.hdr c { w2.hdr c with size := S - drop } } := rfl
    rw [bind_run, hss]
    simp only []
    show ∃ n', _
    generalize hw3 : ({ w2 with hdr := upd w2.hdr c { w2.hdr c with size := S - drop } } : World α) = w3
    have hmem3 : w3.mem = w2.mem := by subst hw3; rfl
    have hslot : ∀ (b i : Nat), ¬ (b = d ∧ pos ≤ i ∧ i < S) → (w3.mem b)[i]? = (w.mem b)[i]? := by
      intro b i hne
      rw [hmem3, hrest2 b i (by intro ⟨a1, a2, a3⟩; exact hne ⟨a1, by omega, by omega⟩)]
      exact ht1.same b i (by intro ⟨a1, a2, a3⟩; exact hne ⟨a1, a2, by omega⟩)
    have hc03 : Ctl0 w w3 := by
      have h1 := ht1.ctl.to0.trans hc2.to0
      subst hw3
      exact ⟨h1.owner, h1.live, h1.next, h1.ub, h1.ntmp, h1.len⟩
    refine ⟨S - drop, Or.inl rfl, ⟨hm.ctl0.trans hc03, ?_, ?_, ?_, ?_⟩, fun b i hne => hslot b i (by intro ⟨a1, a2, a3⟩; exact hne ⟨a1, by omega, a3⟩), hc03⟩
    · subst hw3
      show upd w2.hdr c _ = _
      rw [hc2.hdr, ht1.ctl.hdr, hm.hdr]
      funext x
      by_cases hx : x = c
      · subst hx; simp
      · simp [upd, hx]
    · intro i hi'
      rw [← hd]
      unfold IsObj; rw [hmem3]
      exact isObj_of_eq (hrest2 d i (by intro ⟨_, a, _⟩; omega)) (ht1.isObj (hobj i (by omega)))
    · intro i a b
      rw [← hd]
      by_cases hiS : i < S
      · unfold IsRaw; rw [hmem3]
        exact hraw2 i (by omega) (by omega)
      · have := hm.raws i (by omega) b
        rw [← hd] at this
        exact isRaw_of_eq (hslot d i (by intro ⟨_, _, x⟩; exact hiS x)) this
    · intro b i hne hc'
      by_cases hin : b = d ∧ pos ≤ i ∧ i < S
      · exact absurd ⟨by rw [← hd]; exact hin.1, by omega, by omega⟩ hne
      · rw [hslot b i hin]
        exact hm.rest b i hne hc'
  · intro e' w1 ⟨_, ht1⟩
    refine ⟨S, Or.inr rfl, hm.step_data ht1.ctl.to0 ht1.ctl.hdr (fun i hi' => by rw [← hd]; exact ht1.isObj (hobj i hi'))
      (fun i a b => by
        rw [← hd]
        have := hm.raws i a b
        rw [← hd] at this
        exact isRaw_of_eq (ht1.same d i (by intro ⟨_, _, x⟩; omega)) this)
      (fun b i hne _ => ht1.same b i (by rw [← hd] at hne; intro ⟨a1, a2, a3⟩; exact hne ⟨a1, by omega, by omega⟩)),
      fun b i hne => ht1.same b i (by intro ⟨a1, a2, a3⟩; exact hne ⟨a1, by omega, by omega⟩), ht1.ctl.to0⟩

/-- in-place insertion of k elements before `pos` when the tail has at least k elements: shift, then assign the new
    values over [pos, pos + k); roll back if an assignment throws -/
theorem insertInPlaceSmall_sat (cfg : Cfg) (c pos : Nat) (srcs : List (Src α)) (w0 w : World α) (lo : Nat)
    (hk : 0 < srcs.length) (hpk : pos + srcs.length ≤ (w.hdr c).size) (hlo : lo ≤ pos)
    (hd : (w.hdr c).data = (w0.hdr c).data)
    (hm : MidIns w0 w c lo ((w.hdr c).size + srcs.length) (w.hdr c).size)
    (hnm : NonMoving cfg srcs) (hlive : ∀ s ∈ srcs, SrcLive w s)
    (hcls : (w.hdr c).data % 2 = 1 ∨ (w.hdr c).data < 5)
    (htmp : ∀ s ∈ srcs, ∀ b i, s.loc = some (b, i) → ¬ (b % 2 = 1 ∨ b < 5)) :
    (insertInPlaceSmall cfg c pos srcs.length (assignGen cfg (w.hdr c).data pos srcs) w).sat
      (fun _ w' => MidIns w0 w' c lo ((w.hdr c).size + srcs.length) ((w.hdr c).size + srcs.length) ∧
          (∀ j (h : j < srcs.length), (w'.mem (w.hdr c).data)[pos + j]? = some (.obj (srcVal w srcs[j]))) ∧
          (∀ i, pos ≤ i → i < (w.hdr c).size → (w'.mem (w.hdr c).data)[i + srcs.length]? = (w.mem (w.hdr c).data)[i]?) ∧
          (∀ (b i : Nat), ¬ (b = (w.hdr c).data ∧ pos ≤ i ∧ i < (w.hdr c).size + srcs.length) → (w'.mem b)[i]? = (w.mem b)[i]?) ∧ Ctl0 w w')
      (fun _ w' => ∃ n', (n' = (w.hdr c).size ∨ n' = (w.hdr c).size + srcs.length) ∧
          MidIns w0 w' c lo ((w.hdr c).size + srcs.length) n' ∧
          (∀ (b i : Nat), b ≠ (w.hdr c).data → IsObj w b i → IsObj w' b i) ∧ Ctl0 w w') := by
  have hout : ∀ s ∈ srcs, ∀ b i, s.loc = some (b, i) → b ≠ (w.hdr c).data :=
    fun s hs b i hl' hb => htmp s hs b i hl' (by rw [hb]; exact hcls)
  unfold insertInPlaceSmall
  have hsh := shiftIntoUninitialized_sat cfg c pos srcs.length w0 w lo hk hpk hlo hd hm
  generalize hn : (w.hdr c).size = n at *
  generalize hdd : (w.hdr c).data = d at *
  refine sat_bind hsh (fun r w3 h3 => ?_) (fun e w3 ⟨_, n', h1, h2, h3, h4⟩ =>
    ⟨n', h1, h2, fun b i hb ho => isObj_of_eq (h3 b i (by intro ⟨a, _, _⟩; exact hb a)) ho, h4⟩)
  obtain ⟨hr, hm3, hv3, hrest3, hc3⟩ := h3
  subst hr
  have hobj3 : ∀ i, i < n + srcs.length → IsObj w3 d i := fun i hi => by rw [hd]; exact hm3.objs i hi
  have hlive3 : ∀ s ∈ srcs, SrcLive w3 s := by
    intro s hs b i hl'
    obtain ⟨v, hv'⟩ := hlive s hs b i hl'
    exact ⟨v, by rw [hrest3 b i (by intro ⟨a, _, _⟩; exact hout s hs b i hl' a)]; exact hv'⟩
  have hsv3 : ∀ s ∈ srcs, srcVal w3 s = srcVal w s := fun s hs =>
    srcVal_congr w w3 s (fun b i hl' => hrest3 b i (by intro ⟨a, _, _⟩; exact hout s hs b i hl' a))
  have hfill := Res.sat_and
    (assignGen_nonmoving_sat cfg d srcs pos w3 hnm (fun j hj => hobj3 _ (by omega)) hlive3
      (fun s hs b i hl' => by intro ⟨a, _, _⟩; exact hout s hs b i hl' a))
    (assignGen_touched cfg d srcs pos w3 (fun j hj => hobj3 _ (by omega)) hlive3
      (fun j hj => by intro hl'; exact hout _ (List.getElem_mem hj) _ _ hl' rfl))
  have hsz3 : (w3.hdr c).size = n + srcs.length := by rw [hm3.hdr_c]
  have hd3 : (w3.hdr c).data = d := by rw [hm3.hdr_c]; exact hd.symm
  refine sat_tryCatch (Res.sat_mono hfill ?_ (fun e w4 h => h)) ?_
  · intro _ w4 ⟨⟨hc4, hv4, hrest4⟩, _⟩
    refine ⟨hm3.step_data hc4.to0 hc4.hdr ?_ (fun i a b => by omega) (fun b i hne _ => hrest4 b i (by rw [← hd] at hne; intro ⟨a1, a2, a3⟩; exact hne ⟨a1, by omega, by omega⟩)),
            ?_, ?_, ?_, hc3.trans hc4.to0⟩
    · intro i hi
      rw [← hd]
      by_cases h : pos ≤ i ∧ i < pos + srcs.length
      · have := hv4 (i - pos) (by omega)
        rw [show pos + (i - pos) = i by omega] at this
        exact ⟨_, this⟩
      · exact isObj_of_eq (hrest4 d i (by intro ⟨_, a, b⟩; exact h ⟨a, b⟩)) (hobj3 i hi)
    · intro j hj
      rw [hv4 j hj, hsv3 _ (List.getElem_mem hj)]
    · intro i a b
      rw [hrest4 d (i + srcs.length) (by intro ⟨_, _, x⟩; omega)]
      exact hv3 i a b
    · intro b i hne
      rw [hrest4 b i (by intro ⟨a1, a2, a3⟩; exact hne ⟨a1, a2, by omega⟩)]
      exact hrest3 b i hne
  · -- the fill threw: roll back
    intro e w4 ⟨_, _, ht4⟩
    have hm4 : MidIns w0 w4 c lo (n + srcs.length) (n + srcs.length) := hm3.step_data ht4.ctl.to0 ht4.ctl.hdr
      (fun i hi => by rw [← hd]; exact ht4.isObj (hobj3 i hi)) (fun i a b => by omega)
      (fun b i hne _ => ht4.same b i (by
        rw [← hd] at hne
        intro hp
        rcases hp with ⟨a1, a2, a3⟩ | ⟨s, hs, hl'⟩
        · exact hne ⟨a1, by omega, by omega⟩
        · exact htmp s hs b i hl' (by assumption)))
    have hrb := rollbackShift_sat cfg c pos (pos + srcs.length) srcs.length e w0 w4 lo (n + srcs.length) (n + srcs.length)
      (by omega) (by omega) (by omega) (by omega) hlo (Nat.le_refl _) (by rw [ht4.ctl.hdr]; exact hsz3)
      (by rw [ht4.ctl.hdr, hd3]; exact hd) hm4
    rw [show (w4.hdr c).data = d by rw [ht4.ctl.hdr]; exact hd3] at hrb
    refine Res.sat_mono hrb (fun _ _ h => h.elim) ?_
    intro _ w5 ⟨n', h1, h2, h3, h4⟩
    refine ⟨n', by omega, h2, ?_, hc3.trans (ht4.ctl.to0.trans h4)⟩
    intro b i hb ho
    have ho3 : IsObj w3 b i := isObj_of_eq (hrest3 b i (by intro ⟨a, _, _⟩; exact hb a)) ho
    exact isObj_of_eq (h3 b i (by intro ⟨a, _, _⟩; exact hb a)) (ht4.isObj ho3)

end SvModel
