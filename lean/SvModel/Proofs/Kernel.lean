/-
Specifications of the storage-management building blocks: allocate / deallocate, header updates, wipe / reset_data, and
the two lemmas that re-establish `VecOK` / `Ledger` / `Frame1` after an in-place change and after a reallocation.
-/
import SvModel.Proofs.Inv

namespace SvModel
open Gen
variable {α : Type}

theorem getV_run (c : Nat) (w : World α) : getV c w = .ok (w.hdr c) w := rfl
theorem modV_run (c : Nat) (f : Vec → Vec) (w : World α) :
    modV c f w = .ok () { w with hdr := upd w.hdr c (f (w.hdr c)) } := rfl

theorem guard_wipe (cfg : Cfg) (v : Vec) : guard_wipe_0 (genv cfg v) = decide (v.N < v.cap) := by
  unfold guard_wipe_0 hasAllocation genv
  simp only [Bool.false_eq_true, if_false]

/-- allocation: a fresh block of `n` raw slots with id `w.next`, or nothing happened -/
theorem allocate_sat (cfg : Cfg) (a n : Nat) (w : World α) :
    (allocate cfg a n w).sat
      (fun nb w' => nb = w.next ∧ w'.mem = upd w.mem w.next (List.replicate n .raw) ∧ w'.owner = upd w.owner w.next a ∧
                    w'.live = w.next :: w.live ∧ w'.next = w.next + 2 ∧ w'.hdr = w.hdr ∧ w'.ntmp = w.ntmp ∧ w'.ub = w.ub)
      (fun e w' => e = .alloc ∧ Quiet w w') := by
  unfold allocate
  refine sat_bind (tick_sat _ _ w) (fun _ w1 hq => ?_) (fun e w1 h => ⟨h.1.1, h.2⟩)
  obtain ⟨hm, hc⟩ := hq
  show w1.next = w.next ∧ _
  refine ⟨hc.next, ?_, ?_, ?_, ?_, hc.hdr, hc.ntmp, hc.ub⟩
  · show upd w1.mem w1.next _ = _; rw [hm, hc.next]
  · show upd w1.owner w1.next a = _; rw [hc.owner, hc.next]
  · show w1.next :: w1.live = _; rw [hc.live, hc.next]
  · show w1.next + 2 = _; rw [hc.next]

theorem all_isRaw_of {l : List (Slot α)} (h : ∀ i, i < l.length → l[i]? = some .raw) : l.all Slot.isRaw = true := by
  rw [List.all_eq_true]
  intro x hx
  obtain ⟨i, hi, rfl⟩ := List.getElem_of_mem hx
  have := h i hi
  rw [List.getElem?_eq_getElem hi] at this
  injection this with this; rw [this]; rfl

theorem deallocate_run (a blk n : Nat) (w : World α) (h1 : blk ∈ w.live) (h2 : (w.mem blk).length = n)
    (h3 : ∀ i, i < n → IsRaw w blk i) (h4 : w.owner blk = a) :
    deallocate a blk n w = .ok () { w with mem := upd w.mem blk [], live := w.live.erase blk,
                                           trace := w.trace ++ [.dealloc blk n a] } := by
  unfold deallocate
  have : (w.mem blk).all Slot.isRaw = true := all_isRaw_of (fun i hi => h3 i (by omega))
  simp [h1, h2, this, h4]

theorem deallocate_nothrow (a blk n : Nat) : NoThrow (deallocate a blk n : M α Unit) := by
  intro w; unfold deallocate; split <;> exact ⟨_, _, rfl⟩

/-! ### VecOK consequences -/
theorem VecOK.heap_iff {cfg : Cfg} {w : World α} {c : Nat} (h : VecOK cfg w c) :
    (w.hdr c).N < (w.hdr c).cap ↔ (w.hdr c).data ≠ (w.hdr c).inl := by
  have := h.inl_iff; have := h.cap_ge
  constructor
  · intro hlt he; have := (h.inl_iff).mpr he; omega
  · intro hne
    by_cases hc : (w.hdr c).cap = (w.hdr c).N
    · exact absurd ((h.inl_iff).mp hc) hne
    · omega

theorem VecOK.data_odd {cfg : Cfg} {w : World α} {c : Nat} (h : VecOK cfg w c) (hl : Ledger w)
    (hne : (w.hdr c).data ≠ (w.hdr c).inl) :
    5 ≤ (w.hdr c).data ∧ (w.hdr c).data % 2 = 1 ∧ (w.hdr c).data < w.next :=
  hl.live_ok _ (h.heap hne).1

/-- what `wipe` leaves behind -/
structure Wiped (cfg : Cfg) (w w' : World α) (c : Nat) : Prop where
  hdr   : w'.hdr = w.hdr
  owner : w'.owner = w.owner
  next  : w'.next = w.next
  ntmp  : w'.ntmp = w.ntmp
  ub    : w'.ub = w.ub
  live  : w'.live = if (w.hdr c).N < (w.hdr c).cap then w.live.erase (w.hdr c).data else w.live
  data  : if (w.hdr c).N < (w.hdr c).cap then w'.mem (w.hdr c).data = []
          else (w'.mem (w.hdr c).data).length = (w.hdr c).cap ∧ ∀ i, i < (w.hdr c).cap → IsRaw w' (w.hdr c).data i
  other : ∀ b, b ≠ (w.hdr c).data → w'.mem b = w.mem b

theorem mem_eq_of_slots {w w' : World α} {b : Nat} (hlen : (w'.mem b).length = (w.mem b).length)
    (h : ∀ i : Nat, (w'.mem b)[i]? = (w.mem b)[i]?) : w'.mem b = w.mem b :=
  List.ext_getElem? h

theorem wipe_sat (cfg : Cfg) (c : Nat) (w : World α) (hv : VecOK cfg w c) :
    (wipe cfg c w).sat (fun _ w' => Wiped cfg w w' c) (fun _ _ => False) := by
  unfold wipe
  rw [bind_run, getV_run]
  simp only []
  have hobj : ∀ i, 0 ≤ i → i < 0 + (w.hdr c).size → IsObj w (w.hdr c).data i := fun i _ hi => hv.objs i (by omega)
  refine sat_bind (destroyRange_sat cfg (w.hdr c).data (w.hdr c).size 0 w hobj) (fun _ w1 h1 => ?_) (fun _ _ h => h)
  obtain ⟨hc1, hr1, hrest1⟩ := h1
  have hraw1 : ∀ i, i < (w.hdr c).cap → IsRaw w1 (w.hdr c).data i := by
    intro i hi
    by_cases h : i < (w.hdr c).size
    · exact hr1 i (Nat.zero_le _) (by omega)
    · exact isRaw_of_eq (hrest1 _ i (by intro ⟨_, _, h3⟩; omega)) (hv.raws i (by omega) hi)
  have hother1 : ∀ b, b ≠ (w.hdr c).data → w1.mem b = w.mem b := by
    intro b hb
    exact mem_eq_of_slots (hc1.len b) (fun i => hrest1 b i (by intro ⟨h, _, _⟩; exact hb h))
  rw [guard_wipe]
  by_cases hcap : (w.hdr c).N < (w.hdr c).cap
  · simp only [hcap, decide_true, if_true]
    have hne := (hv.heap_iff).mp hcap
    obtain ⟨hlive, hown⟩ := hv.heap hne
    rw [deallocate_run _ _ _ w1 (by rw [hc1.live]; exact hlive) (by rw [hc1.len, hv.len]) hraw1 (by rw [hc1.owner]; exact hown)]
    refine ⟨hc1.hdr, hc1.owner, hc1.next, hc1.ntmp, hc1.ub, ?_, ?_, ?_⟩
    · simp only [hcap, if_true]; show w1.live.erase _ = _; rw [hc1.live]
    · simp only [hcap, if_true]; show upd w1.mem _ [] _ = []; simp
    · intro b hb; show upd w1.mem _ [] b = _; rw [upd_other _ _ _ _ hb]; exact hother1 b hb
  · simp only [hcap, decide_false, Bool.false_eq_true, if_false]
    show Wiped cfg w w1 c
    refine ⟨hc1.hdr, hc1.owner, hc1.next, hc1.ntmp, hc1.ub, ?_, ?_, hother1⟩
    · simp only [hcap, if_false]; exact hc1.live
    · simp only [hcap, if_false]; exact ⟨by rw [hc1.len, hv.len], hraw1⟩

/-- `VecOK` only looks at the header of `c`, at its data block and (when on the heap) at its idle inline block -/
theorem VecOK.transfer {cfg : Cfg} {w w' : World α} {c : Nat} (h : VecOK cfg w c)
    (hh : w'.hdr c = w.hdr c)
    (hlen : (w'.mem (w.hdr c).data).length = (w.mem (w.hdr c).data).length)
    (hobj : ∀ i, i < (w.hdr c).size → IsObj w' (w.hdr c).data i)
    (hraw : ∀ i, (w.hdr c).size ≤ i → i < (w.hdr c).cap → IsRaw w' (w.hdr c).data i)
    (hlive : (w.hdr c).data ≠ (w.hdr c).inl → (w.hdr c).data ∈ w'.live ∧ w'.owner (w.hdr c).data = (w.hdr c).alloc)
    (hidle : (w.hdr c).data ≠ (w.hdr c).inl →
       (w'.mem (w.hdr c).inl).length = (w.hdr c).N ∧ ∀ i, i < (w.hdr c).N → IsRaw w' (w.hdr c).inl i) :
    VecOK cfg w' c := by
  refine ⟨?_, ?_, ?_, ?_, ?_, ?_, ?_, ?_, ?_, ?_⟩ <;> rw [hh]
  · exact h.size_le
  · exact h.cap_ge
  · exact h.cap_max
  · exact h.inl_iff
  · exact h.inl_lt
  · rw [hlen]; exact h.len
  · exact hobj
  · exact hraw
  · exact hlive
  · exact hidle

/-- the world after an operation that threw is observably the one before it: same headers, same ledger, same contents
    of every block that existed (a block allocated and released inside the operation is gone again) -/
structure Strong (w w' : World α) : Prop where
  hdr   : w'.hdr = w.hdr
  live  : w'.live = w.live
  ub    : w'.ub = w.ub
  owner : ∀ b, b < w.next → w'.owner b = w.owner b
  mem   : ∀ b, b < w.next → b % 2 = 1 ∨ b < 5 → w'.mem b = w.mem b
  next  : w.next ≤ w'.next
  led   : Ledger w'

theorem Strong.of_quiet {w w' : World α} (hl : Ledger w) (h : Quiet w w') : Strong w w' :=
  ⟨h.2.hdr, h.2.live, h.2.ub, fun b _ => by rw [h.2.owner], fun b _ _ => by rw [h.1], by rw [h.2.next]; exact Nat.le_refl _,
   hl.of_ctl h.2⟩

theorem Strong.vecOK {cfg : Cfg} {w w' : World α} {c : Nat} (hs : Strong w w') (hl : Ledger w) (h : VecOK cfg w c) : VecOK cfg w' c := by
  have hdata : (w.hdr c).data ≠ (w.hdr c).inl → w'.mem (w.hdr c).data = w.mem (w.hdr c).data := by
    intro hne
    obtain ⟨h1, h2, h3⟩ := h.data_odd hl hne
    exact hs.mem _ h3 (Or.inl h2)
  have hinl : w'.mem (w.hdr c).inl = w.mem (w.hdr c).inl :=
    hs.mem _ (by have := h.inl_lt; have := hl.next_ok; omega) (Or.inr h.inl_lt)
  have hd : w'.mem (w.hdr c).data = w.mem (w.hdr c).data := by
    by_cases hne : (w.hdr c).data = (w.hdr c).inl
    · rw [hne]; exact hinl
    · exact hdata hne
  refine h.transfer (by rw [hs.hdr]) (by rw [hd]) ?_ ?_ ?_ ?_
  · intro i hi; unfold IsObj; rw [hd]; exact h.objs i hi
  · intro i h1 h2; unfold IsRaw; rw [hd]; exact h.raws i h1 h2
  · intro hne
    obtain ⟨h1, h2⟩ := h.heap hne
    refine ⟨by rw [hs.live]; exact h1, ?_⟩
    rw [hs.owner _ (h.data_odd hl hne).2.2]; exact h2
  · intro hne
    obtain ⟨h1, h2⟩ := h.idle hne
    exact ⟨by rw [hinl]; exact h1, fun i hi => by unfold IsRaw; rw [hinl]; exact h2 i hi⟩

theorem Strong.holds {cfg : Cfg} {w w' : World α} {c : Nat} {xs : List (Val α)} (hs : Strong w w') (hl : Ledger w)
    (h : VecOK cfg w c) (hx : Holds w c xs) : Holds w' c xs := by
  have hd : w'.mem (w.hdr c).data = w.mem (w.hdr c).data := by
    by_cases hne : (w.hdr c).data = (w.hdr c).inl
    · rw [hne]; exact hs.mem _ (by have := h.inl_lt; have := hl.next_ok; omega) (Or.inr h.inl_lt)
    · obtain ⟨h1, h2, h3⟩ := h.data_odd hl hne
      exact hs.mem _ h3 (Or.inl h2)
  refine ⟨by rw [hs.hdr]; exact hx.1, ?_⟩
  intro i hi
  rw [hs.hdr, hd]; exact hx.2 i hi

/-- re-establishing the invariants after an in-place change of container `c`: same buffer, new size `n'`,
    live prefix / raw suffix re-proved by the caller, nothing outside the buffer (and temporaries) touched -/
theorem inplace_ok (cfg : Cfg) {w w' : World α} {c n' : Nat} (hv : VecOK cfg w c) (hl : Ledger w)
    (hc : Ctl0 w w')
    (hh : w'.hdr = upd w.hdr c { w.hdr c with size := n' })
    (hn : n' ≤ (w.hdr c).cap)
    (hobj : ∀ i, i < n' → IsObj w' (w.hdr c).data i)
    (hraw : ∀ i, n' ≤ i → i < (w.hdr c).cap → IsRaw w' (w.hdr c).data i)
    (hrest : ∀ (b i : Nat), b ≠ (w.hdr c).data → (b % 2 = 1 ∨ b < 5) → (w'.mem b)[i]? = (w.mem b)[i]?) :
    VecOK cfg w' c ∧ Ledger w' ∧ Frame1 w w' c := by
  have hhc : w'.hdr c = { w.hdr c with size := n' } := by rw [hh]; simp
  have hdata_cls : (w.hdr c).data % 2 = 1 ∨ (w.hdr c).data < 5 := by
    by_cases hne : (w.hdr c).data = (w.hdr c).inl
    · right; rw [hne]; exact hv.inl_lt
    · left; exact (hv.data_odd hl hne).2.1
  refine ⟨?_, hl.of_ctl0 hc, ?_⟩
  · refine ⟨?_, ?_, ?_, ?_, ?_, ?_, ?_, ?_, ?_, ?_⟩ <;> rw [hhc] <;> simp only []
    · exact hn
    · exact hv.cap_ge
    · exact hv.cap_max
    · exact hv.inl_iff
    · exact hv.inl_lt
    · rw [hc.len _ (by rcases hdata_cls with h | h; exact Or.inl h; exact Or.inr (Or.inl (by omega)))]; exact hv.len
    · exact hobj
    · exact hraw
    · intro hne; rw [hc.live, hc.owner]; exact hv.heap hne
    · intro hne
      obtain ⟨h1, h2⟩ := hv.idle hne
      have hlt := hv.inl_lt
      refine ⟨by rw [hc.len _ (Or.inr (Or.inl (by omega)))]; exact h1, fun i hi => ?_⟩
      exact isRaw_of_eq (hrest _ i (Ne.symm hne) (Or.inr hlt)) (h2 i hi)
  · refine ⟨?_, by rw [hhc], by rw [hhc], ?_, fun b _ => by rw [hc.owner], by rw [hc.next]; exact Nat.le_refl _, Or.inl (by rw [hhc]),
            LiveAcc.of_same hl hv hc.live (by rw [hhc])⟩
    · intro d hd; rw [hh, upd_other _ _ _ _ hd]
    · intro b h1 _ _ h4
      exact mem_eq_of_slots (hc.len b (by rcases h4 with h | h; exact Or.inl h; exact Or.inr (Or.inl (by omega))))
        (fun i => hrest b i h1 h4)

/-- re-establishing the invariants after container `c` moved into the freshly allocated block `w.next`:
    the new block holds a live prefix of `n'` elements and a raw suffix, the old buffer was wiped (released when it
    was a heap block, all raw when it was the inline buffer), every other block is untouched -/
theorem realloc_ok_alloc (cfg : Cfg) {w w' : World α} {c ncap n' : Nat} (a' : Nat) (hv : VecOK cfg w c) (hl : Ledger w)
    (hN : (w.hdr c).N < ncap) (hmax : ncap ≤ cfg.maxSize) (hn : n' ≤ ncap)
    (hh : w'.hdr = upd w.hdr c { w.hdr c with data := w.next, cap := ncap, size := n', alloc := a' })
    (hnext : w'.next = w.next + 2) (hntmp : w'.ntmp = w.ntmp)
    (hlive : w'.live = if (w.hdr c).N < (w.hdr c).cap then (w.next :: w.live).erase (w.hdr c).data else w.next :: w.live)
    (howner : w'.owner = upd w.owner w.next a')
    (hlen : (w'.mem w.next).length = ncap)
    (hobj : ∀ i, i < n' → IsObj w' w.next i)
    (hraw : ∀ i, n' ≤ i → i < ncap → IsRaw w' w.next i)
    (hold : if (w.hdr c).N < (w.hdr c).cap then w'.mem (w.hdr c).data = []
            else (w'.mem (w.hdr c).data).length = (w.hdr c).cap ∧ ∀ i, i < (w.hdr c).cap → IsRaw w' (w.hdr c).data i)
    (hother : ∀ b, b ≠ (w.hdr c).data → b ≠ w.next → w'.mem b = w.mem b) :
    VecOK cfg w' c ∧ Ledger w' ∧ Frame1 w w' c := by
  have hhc : w'.hdr c = { w.hdr c with data := w.next, cap := ncap, size := n', alloc := a' } := by rw [hh]; simp
  have hnext_ok := hl.next_ok
  have hinl_lt := hv.inl_lt
  have hnb_inl : w.next ≠ (w.hdr c).inl := by omega
  have hdata_lt : (w.hdr c).data < w.next := by
    by_cases hne : (w.hdr c).data = (w.hdr c).inl
    · rw [hne]; omega
    · exact (hv.data_odd hl hne).2.2
  have hnb_data : w.next ≠ (w.hdr c).data := by omega
  have hnb_notlive : w.next ∉ w.live := fun h => by have := (hl.live_ok _ h).2.2; omega
  refine ⟨?_, ?_, ?_⟩
  · refine ⟨?_, ?_, ?_, ?_, ?_, ?_, ?_, ?_, ?_, ?_⟩ <;> rw [hhc] <;> simp only []
    · exact hn
    · omega
    · exact Nat.le_trans hmax (Nat.le_max_left _ _)
    · constructor
      · intro h; omega
      · intro h; exact absurd h hnb_inl
    · exact hinl_lt
    · exact hlen
    · exact hobj
    · exact hraw
    · intro _
      refine ⟨?_, by rw [howner]; simp⟩
      rw [hlive]
      by_cases hcap : (w.hdr c).N < (w.hdr c).cap
      · simp only [hcap, if_true]
        rw [List.erase_cons_tail (by simpa using hnb_data)]
        simp
      · simp [hcap]
    · intro _
      by_cases hcap : (w.hdr c).N < (w.hdr c).cap
      · -- the old buffer was a heap block: the inline buffer was idle before and is untouched
        have hne := (hv.heap_iff).mp hcap
        obtain ⟨h1, h2⟩ := hv.idle hne
        have hm : w'.mem (w.hdr c).inl = w.mem (w.hdr c).inl := hother _ (Ne.symm hne) (Ne.symm hnb_inl)
        exact ⟨by rw [hm]; exact h1, fun i hi => by unfold IsRaw; rw [hm]; exact h2 i hi⟩
      · -- the old buffer was the inline buffer: it was wiped
        have he : (w.hdr c).data = (w.hdr c).inl := by
          by_cases he : (w.hdr c).data = (w.hdr c).inl
          · exact he
          · exact absurd ((hv.heap_iff).mpr he) hcap
        have hcapN : (w.hdr c).cap = (w.hdr c).N := (hv.inl_iff).mpr he
        simp only [hcap, if_false] at hold
        rw [← he]
        exact ⟨by rw [hold.1, hcapN], fun i hi => hold.2 i (by omega)⟩
  · -- Ledger
    refine ⟨by rw [hnext]; omega, by rw [hntmp]; exact hl.ntmp_ok, ?_, ?_, ?_, ?_⟩
    · intro b hb
      rw [hlive] at hb
      rw [hnext]
      have hb' : b = w.next ∨ b ∈ w.live := by
        by_cases hcap : (w.hdr c).N < (w.hdr c).cap
        · simp only [hcap, if_true] at hb
          have := List.mem_of_mem_erase hb
          simpa using this
        · simp only [hcap, if_false] at hb; simpa using hb
      rcases hb' with rfl | hb'
      · omega
      · have := hl.live_ok b hb'; omega
    · rw [hlive]
      have hnd : (w.next :: w.live).Nodup := List.nodup_cons.mpr ⟨hnb_notlive, hl.nodup⟩
      by_cases hcap : (w.hdr c).N < (w.hdr c).cap
      · simp only [hcap, if_true]; exact hnd.erase _
      · simp only [hcap, if_false]; exact hnd
    · intro b h1 h2 h3
      by_cases hbn : b = w.next
      · subst hbn
        exfalso; apply h3; rw [hlive]
        by_cases hcap : (w.hdr c).N < (w.hdr c).cap
        · simp only [hcap, if_true]
          rw [List.erase_cons_tail (by simpa using hnb_data)]; simp
        · simp [hcap]
      · by_cases hbd : b = (w.hdr c).data
        · subst hbd
          by_cases hcap : (w.hdr c).N < (w.hdr c).cap
          · simp only [hcap, if_true] at hold; exact hold
          · exfalso
            have he : (w.hdr c).data = (w.hdr c).inl := by
              by_cases he : (w.hdr c).data = (w.hdr c).inl
              · exact he
              · exact absurd ((hv.heap_iff).mpr he) hcap
            omega
        · rw [hother b hbd hbn]
          apply hl.freed b h1 h2
          intro hin
          apply h3
          rw [hlive]
          by_cases hcap : (w.hdr c).N < (w.hdr c).cap
          · simp only [hcap, if_true]
            exact (List.mem_erase_of_ne hbd).mpr (by simp [hin])
          · simp [hcap, hin]
    · intro b h1 h2
      rw [hntmp] at h1
      have hb1 : b ≠ (w.hdr c).data := by
        intro h
        by_cases hne : (w.hdr c).data = (w.hdr c).inl
        · have := hl.ntmp_ok; omega
        · have := (hv.data_odd hl hne).2.1; omega
      rw [hother b hb1 (by omega)]
      exact hl.tmpfresh b h1 h2
  · -- Frame
    refine ⟨?_, by rw [hhc], by rw [hhc], ?_, ?_, by rw [hnext]; omega, Or.inr (Or.inr (by rw [hhc]; exact Nat.le_refl _)), ?_⟩
    · intro d hd; rw [hh, upd_other _ _ _ _ hd]
    · intro b h1 _ h3 _
      exact hother b h1 (by omega)
    · intro b hb; rw [howner, upd_other _ _ _ _ (by omega)]
    · -- live-block accounting: the new block joined, the old heap buffer (if any) left, nothing else changed
      have hmem : ∀ b, b ∈ w'.live ↔ (b = w.next ∨ b ∈ w.live) ∧ ¬ ((w.hdr c).N < (w.hdr c).cap ∧ b = (w.hdr c).data) := by
        intro b
        rw [hlive]
        have hnd : (w.next :: w.live).Nodup := List.nodup_cons.mpr ⟨hnb_notlive, hl.nodup⟩
        by_cases hcap : (w.hdr c).N < (w.hdr c).cap
        · simp only [hcap, if_true, true_and]
          rw [hnd.mem_erase_iff]; simp only [List.mem_cons]; exact ⟨fun h => ⟨h.2, h.1⟩, fun h => ⟨h.2, h.1⟩⟩
        · simp only [hcap, if_false, false_and, not_false_eq_true, and_true, List.mem_cons]
      refine ⟨fun b hb => ?_, fun b hb => ?_⟩
      · rw [hmem b, hhc]; simp only []
        constructor
        · rintro ⟨h1 | h1, h2⟩
          · omega
          · refine ⟨h1, fun h3 => ?_⟩
            exfalso
            have hcap : ¬ (w.hdr c).N < (w.hdr c).cap := fun hc => h2 ⟨hc, h3⟩
            have he : (w.hdr c).data = (w.hdr c).inl := by
              by_cases he : (w.hdr c).data = (w.hdr c).inl
              · exact he
              · exact absurd ((hv.heap_iff).mpr he) hcap
            have := (hl.live_ok b h1).1
            omega
        · rintro ⟨h1, h2⟩
          refine ⟨Or.inr h1, fun ⟨_, h4⟩ => ?_⟩
          have := h2 h4; omega
      · rw [hmem b, hhc]; simp only []
        constructor
        · rintro ⟨h1 | h1, _⟩
          · exact h1
          · have := (hl.live_ok b h1).2.2; omega
        · intro h1
          exact ⟨Or.inl h1, fun ⟨_, h4⟩ => by omega⟩

/-! ### the common shape of every reallocating path: allocate, build in the new block, then reset_data or roll back -/

/-- … with the container's own allocator -/
theorem realloc_ok (cfg : Cfg) {w w' : World α} {c ncap n' : Nat} (hv : VecOK cfg w c) (hl : Ledger w)
    (hN : (w.hdr c).N < ncap) (hmax : ncap ≤ cfg.maxSize) (hn : n' ≤ ncap)
    (hh : w'.hdr = upd w.hdr c { w.hdr c with data := w.next, cap := ncap, size := n' })
    (hnext : w'.next = w.next + 2) (hntmp : w'.ntmp = w.ntmp)
    (hlive : w'.live = if (w.hdr c).N < (w.hdr c).cap then (w.next :: w.live).erase (w.hdr c).data else w.next :: w.live)
    (howner : w'.owner = upd w.owner w.next (w.hdr c).alloc)
    (hlen : (w'.mem w.next).length = ncap)
    (hobj : ∀ i, i < n' → IsObj w' w.next i)
    (hraw : ∀ i, n' ≤ i → i < ncap → IsRaw w' w.next i)
    (hold : if (w.hdr c).N < (w.hdr c).cap then w'.mem (w.hdr c).data = []
            else (w'.mem (w.hdr c).data).length = (w.hdr c).cap ∧ ∀ i, i < (w.hdr c).cap → IsRaw w' (w.hdr c).data i)
    (hother : ∀ b, b ≠ (w.hdr c).data → b ≠ w.next → w'.mem b = w.mem b) :
    VecOK cfg w' c ∧ Ledger w' ∧ Frame1 w w' c :=
  realloc_ok_alloc cfg (w.hdr c).alloc hv hl hN hmax hn hh hnext hntmp hlive howner hlen hobj hraw hold hother

/-- state after `allocate` and some construction work in the new block `w.next`, before `reset_data`:
    the header of `c` is still the old one, its old buffer still holds `size` live objects -/
structure BuiltA (cfg : Cfg) (w w4 : World α) (c ncap a : Nat) : Prop where
  hdr    : w4.hdr = w.hdr
  live   : w4.live = w.next :: w.live
  owner  : w4.owner = upd w.owner w.next a
  next   : w4.next = w.next + 2
  ntmp   : w4.ntmp = w.ntmp
  ub     : w4.ub = w.ub
  lenNew : (w4.mem w.next).length = ncap
  lenOld : ∀ b, b ≠ w.next → (w4.mem b).length = (w.mem b).length
  objs   : ∀ i, i < (w.hdr c).size → IsObj w4 (w.hdr c).data i
  other  : ∀ (b i : Nat), b ≠ w.next → ¬ (b = (w.hdr c).data ∧ i < (w.hdr c).size) → (w4.mem b)[i]? = (w.mem b)[i]?

/-- … the new block obtained from the container's own allocator -/
abbrev Built (cfg : Cfg) (w w4 : World α) (c ncap : Nat) : Prop := BuiltA cfg w w4 c ncap (w.hdr c).alloc

theorem VecOK.next_ne {cfg : Cfg} {w : World α} {c : Nat} (hv : VecOK cfg w c) (hl : Ledger w) :
    w.next ≠ (w.hdr c).data ∧ w.next ≠ (w.hdr c).inl := by
  have := hl.next_ok; have := hv.inl_lt
  constructor
  · by_cases hne : (w.hdr c).data = (w.hdr c).inl
    · rw [hne]; omega
    · have := (hv.data_odd hl hne).2.2; omega
  · omega

theorem BuiltA.of_alloc {cfg : Cfg} {w w2 : World α} {c ncap : Nat} (a : Nat) (hv : VecOK cfg w c) (hl : Ledger w)
    (hm : w2.mem = upd w.mem w.next (List.replicate ncap .raw)) (ho : w2.owner = upd w.owner w.next a)
    (hlv : w2.live = w.next :: w.live) (hn : w2.next = w.next + 2) (hh : w2.hdr = w.hdr) (ht : w2.ntmp = w.ntmp)
    (hu : w2.ub = w.ub) :
    BuiltA cfg w w2 c ncap a ∧ (∀ i, i < ncap → IsRaw w2 w.next i) ∧ (∀ b, b ≠ w.next → w2.mem b = w.mem b) := by
  have hoth : ∀ b, b ≠ w.next → w2.mem b = w.mem b := fun b hb => by rw [hm, upd_other _ _ _ _ hb]
  refine ⟨⟨hh, hlv, ho, hn, ht, hu, by rw [hm]; simp, fun b hb => by rw [hoth b hb], ?_, ?_⟩, ?_, hoth⟩
  · intro i hi
    have := hv.objs i hi
    unfold IsObj; rw [hoth _ (Ne.symm (hv.next_ne hl).1)]; exact this
  · intro b i hb _; rw [hoth b hb]
  · intro i hi; unfold IsRaw; rw [hm]; simp [hi]

theorem Built.of_alloc {cfg : Cfg} {w w2 : World α} {c ncap : Nat} (hv : VecOK cfg w c) (hl : Ledger w)
    (hm : w2.mem = upd w.mem w.next (List.replicate ncap .raw)) (ho : w2.owner = upd w.owner w.next (w.hdr c).alloc)
    (hlv : w2.live = w.next :: w.live) (hn : w2.next = w.next + 2) (hh : w2.hdr = w.hdr) (ht : w2.ntmp = w.ntmp)
    (hu : w2.ub = w.ub) :
    Built cfg w w2 c ncap ∧ (∀ i, i < ncap → IsRaw w2 w.next i) ∧ (∀ b, b ≠ w.next → w2.mem b = w.mem b) :=
  BuiltA.of_alloc (w.hdr c).alloc hv hl hm ho hlv hn hh ht hu

theorem BuiltA.step {cfg : Cfg} {w w4 w5 : World α} {c ncap a : Nat} (hb : BuiltA cfg w w4 c ncap a) (hc : Ctl w4 w5)
    (hobj : ∀ i, i < (w.hdr c).size → IsObj w5 (w.hdr c).data i)
    (hrest : ∀ (b i : Nat), b ≠ w.next → ¬ (b = (w.hdr c).data ∧ i < (w.hdr c).size) → (w5.mem b)[i]? = (w4.mem b)[i]?) :
    BuiltA cfg w w5 c ncap a :=
  ⟨hc.hdr.trans hb.hdr, hc.live.trans hb.live, hc.owner.trans hb.owner, hc.next.trans hb.next, hc.ntmp.trans hb.ntmp,
   hc.ub.trans hb.ub, (hc.len _).trans hb.lenNew, fun b h => (hc.len b).trans (hb.lenOld b h), hobj,
   fun b i h1 h2 => (hrest b i h1 h2).trans (hb.other b i h1 h2)⟩

theorem Built.step {cfg : Cfg} {w w4 w5 : World α} {c ncap : Nat} (hb : Built cfg w w4 c ncap) (hc : Ctl w4 w5)
    (hobj : ∀ i, i < (w.hdr c).size → IsObj w5 (w.hdr c).data i)
    (hrest : ∀ (b i : Nat), b ≠ w.next → ¬ (b = (w.hdr c).data ∧ i < (w.hdr c).size) → (w5.mem b)[i]? = (w4.mem b)[i]?) :
    Built cfg w w5 c ncap :=
  BuiltA.step hb hc hobj hrest

/-- roll-back: the new block is all raw again and the old buffer is exactly as it was — deallocating the new block
    restores the world observably (strong guarantee) -/
theorem abort_realloc_alloc {cfg : Cfg} {w w4 : World α} {c ncap a : Nat} (hv : VecOK cfg w c) (hl : Ledger w)
    (hb : BuiltA cfg w w4 c ncap a)
    (hexact : ∀ i, i < (w.hdr c).size → (w4.mem (w.hdr c).data)[i]? = (w.mem (w.hdr c).data)[i]?)
    (hrawNew : ∀ i, i < ncap → IsRaw w4 w.next i) :
    ∃ w', deallocate a w.next ncap w4 = .ok () w' ∧ Strong w w' := by
  have hin : w.next ∈ w4.live := by rw [hb.live]; simp
  have hown : w4.owner w.next = a := by rw [hb.owner]; simp
  refine ⟨_, deallocate_run _ _ _ w4 hin hb.lenNew hrawNew hown, ?_⟩
  have hnotlive : w.next ∉ w.live := fun h => by have := (hl.live_ok _ h).2.2; omega
  have hmem : ∀ b, b ≠ w.next → w4.mem b = w.mem b := by
    intro b hbn
    apply mem_eq_of_slots (hb.lenOld b hbn)
    intro i
    by_cases h : b = (w.hdr c).data ∧ i < (w.hdr c).size
    · obtain ⟨h1, h2⟩ := h; subst h1; exact hexact i h2
    · exact hb.other b i hbn h
  refine ⟨hb.hdr, ?_, hb.ub, ?_, ?_, ?_, ?_⟩
  · show w4.live.erase w.next = w.live
    rw [hb.live, List.erase_cons_head]
  · intro b hlt; show w4.owner b = _; rw [hb.owner, upd_other _ _ _ _ (by omega)]
  · intro b hlt _
    show upd w4.mem w.next [] b = _
    rw [upd_other _ _ _ _ (by omega)]; exact hmem b (by omega)
  · show w.next ≤ w4.next; rw [hb.next]; omega
  · have hno := hl.next_ok
    refine ⟨by show w4.next % 2 = 1 ∧ _; rw [hb.next]; omega, by show w4.ntmp % 2 = 0 ∧ _; rw [hb.ntmp]; exact hl.ntmp_ok, ?_, ?_, ?_, ?_⟩
    · intro b hbl
      have hbl' : b ∈ w.live := by
        have : b ∈ w4.live.erase w.next := hbl
        rw [hb.live, List.erase_cons_head] at this; exact this
      have := hl.live_ok b hbl'
      show 5 ≤ b ∧ b % 2 = 1 ∧ b < w4.next
      rw [hb.next]; omega
    · show (w4.live.erase w.next).Nodup
      rw [hb.live, List.erase_cons_head]; exact hl.nodup
    · intro b h1 h2 h3
      show upd w4.mem w.next [] b = []
      by_cases hbn : b = w.next
      · subst hbn; simp
      · rw [upd_other _ _ _ _ hbn, hmem b hbn]
        apply hl.freed b h1 h2
        intro hin'
        apply h3
        show b ∈ w4.live.erase w.next
        rw [hb.live, List.erase_cons_head]; exact hin'
    · intro b h1 h2
      show upd w4.mem w.next [] b = []
      have hbn : b ≠ w.next := by omega
      rw [upd_other _ _ _ _ hbn, hmem b hbn]
      exact hl.tmpfresh b (by have : w4.ntmp = w.ntmp := hb.ntmp; rw [← this]; exact h1) h2

theorem abort_realloc {cfg : Cfg} {w w4 : World α} {c ncap : Nat} (hv : VecOK cfg w c) (hl : Ledger w)
    (hb : Built cfg w w4 c ncap)
    (hexact : ∀ i, i < (w.hdr c).size → (w4.mem (w.hdr c).data)[i]? = (w.mem (w.hdr c).data)[i]?)
    (hrawNew : ∀ i, i < ncap → IsRaw w4 w.next i) :
    ∃ w', deallocate (w.hdr c).alloc w.next ncap w4 = .ok () w' ∧ Strong w w' :=
  abort_realloc_alloc hv hl hb hexact hrawNew

/-- `reset_data` after the new block has been completed: the old buffer is wiped, the header switches to the new
    block, and all invariants hold again -/
theorem finish_realloc_alloc {cfg : Cfg} {w w4 : World α} {c ncap n' a : Nat} (hv : VecOK cfg w c) (hl : Ledger w)
    (hb : BuiltA cfg w w4 c ncap a)
    (hN : (w.hdr c).N < ncap) (hmax : ncap ≤ cfg.maxSize) (hn : n' ≤ ncap)
    (hobj : ∀ i, i < n' → IsObj w4 w.next i) (hraw : ∀ i, n' ≤ i → i < ncap → IsRaw w4 w.next i) :
    ((resetData cfg c w.next ncap n' >>= fun _ => setAlloc c a) w4).sat
      (fun _ w' => VecOK cfg w' c ∧ Ledger w' ∧ Frame1 w w' c ∧ w'.ub = w.ub ∧
                   w'.hdr c = { w.hdr c with data := w.next, cap := ncap, size := n', alloc := a } ∧
                   w'.mem w.next = w4.mem w.next ∧ w'.next = w.next + 2)
      (fun _ _ => False) := by
  obtain ⟨hnd, hni⟩ := hv.next_ne hl
  -- the old container is still well-formed in w4
  have hv4 : VecOK cfg w4 c := by
    have hraws4 : ∀ (b i : Nat), b ≠ w.next → ¬ (b = (w.hdr c).data ∧ i < (w.hdr c).size) → (w4.mem b)[i]? = (w.mem b)[i]? := hb.other
    refine hv.transfer (by rw [hb.hdr]) (hb.lenOld _ (Ne.symm hnd)) hb.objs ?_ ?_ ?_
    · intro i h1 h2
      exact isRaw_of_eq (hraws4 _ i (Ne.symm hnd) (by intro ⟨_, h⟩; omega)) (hv.raws i h1 h2)
    · intro hne
      obtain ⟨h1, h2⟩ := hv.heap hne
      refine ⟨by rw [hb.live]; simp [h1], ?_⟩
      rw [hb.owner, upd_other _ _ _ _ (Ne.symm hnd)]; exact h2
    · intro hne
      obtain ⟨h1, h2⟩ := hv.idle hne
      refine ⟨by rw [hb.lenOld _ (Ne.symm hni)]; exact h1, fun i hi => ?_⟩
      exact isRaw_of_eq (hraws4 _ i (Ne.symm hni) (by intro ⟨h, _⟩; exact hne h.symm)) (h2 i hi)
  unfold resetData
  rw [bind_assoc_run]
  refine sat_bind (wipe_sat cfg c w4 hv4) (fun _ w5 hw => ?_) (fun _ _ h => h)
  have htail : (setData c w.next ncap n' >>= fun _ => setAlloc c a) w5 =
      .ok () { w5 with hdr := upd w5.hdr c { w5.hdr c with data := w.next, cap := ncap, size := n', alloc := a } } := by
    show Res.ok () _ = Res.ok () _
    congr 1
    have : ∀ x, (upd (upd w5.hdr c { w5.hdr c with data := w.next, cap := ncap, size := n' }) c { (upd w5.hdr c { w5.hdr c with data := w.next, cap := ncap, size := n' } c) with alloc := a }) x = (upd w5.hdr c { w5.hdr c with data := w.next, cap := ncap, size := n', alloc := a }) x := by
      intro x
      by_cases hx : x = c
      · subst hx; simp
      · simp [upd_other _ _ _ _ hx]
    have e := funext this
    show ({ w5 with hdr := _ } : World α) = { w5 with hdr := _ }
    rw [e]
  rw [htail]
  generalize hw6 : ({ w5 with hdr := upd w5.hdr c { w5.hdr c with data := w.next, cap := ncap, size := n', alloc := a } } : World α) = w6
  have hm6 : w6.mem = w5.mem := by subst hw6; rfl
  have hh4 : w4.hdr c = w.hdr c := by rw [hb.hdr]
  have hdata5 := hw.data
  rw [hh4] at hdata5
  have hnew5 : w5.mem w.next = w4.mem w.next := hw.other _ (by rw [hh4]; exact hnd)
  have hres := realloc_ok_alloc cfg (w := w) (w' := w6) (c := c) (ncap := ncap) (n' := n') a hv hl hN hmax hn
    (by subst hw6; show upd w5.hdr c _ = _; rw [hw.hdr, hb.hdr])
    (by subst hw6; show w5.next = _; rw [hw.next, hb.next])
    (by subst hw6; show w5.ntmp = _; rw [hw.ntmp, hb.ntmp])
    (by subst hw6; show w5.live = _; rw [hw.live, hh4, hb.live])
    (by subst hw6; show w5.owner = _; rw [hw.owner, hb.owner])
    (by rw [hm6, hnew5]; exact hb.lenNew)
    (fun i hi => by unfold IsObj; rw [hm6, hnew5]; exact hobj i hi)
    (fun i h1 h2 => by unfold IsRaw; rw [hm6, hnew5]; exact hraw i h1 h2)
    (by
      by_cases hcap : (w.hdr c).N < (w.hdr c).cap
      · simp only [hcap, if_true] at hdata5 ⊢; rw [hm6]; exact hdata5
      · simp only [hcap, if_false] at hdata5 ⊢
        exact ⟨by rw [hm6]; exact hdata5.1, fun i hi => by unfold IsRaw; rw [hm6]; exact hdata5.2 i hi⟩)
    (by
      intro b h1 h2
      rw [hm6, hw.other b (by rw [hh4]; exact h1)]
      apply mem_eq_of_slots (hb.lenOld b h2)
      intro i; exact hb.other b i h2 (by intro ⟨h, _⟩; exact h1 h))
  obtain ⟨hvec, hled, hframe⟩ := hres
  refine ⟨hvec, hled, hframe, ?_, ?_, by rw [hm6, hnew5], ?_⟩
  · subst hw6; show w5.ub = _; rw [hw.ub, hb.ub]
  · subst hw6; show upd w5.hdr c _ c = _; rw [upd_same, hw.hdr, hb.hdr]
  · subst hw6; show w5.next = _; rw [hw.next, hb.next]

theorem finish_realloc {cfg : Cfg} {w w4 : World α} {c ncap n' : Nat} (hv : VecOK cfg w c) (hl : Ledger w)
    (hb : Built cfg w w4 c ncap)
    (hN : (w.hdr c).N < ncap) (hmax : ncap ≤ cfg.maxSize) (hn : n' ≤ ncap)
    (hobj : ∀ i, i < n' → IsObj w4 w.next i) (hraw : ∀ i, n' ≤ i → i < ncap → IsRaw w4 w.next i) :
    (resetData cfg c w.next ncap n' w4).sat
      (fun _ w' => VecOK cfg w' c ∧ Ledger w' ∧ Frame1 w w' c ∧ w'.ub = w.ub ∧
                   w'.hdr c = { w.hdr c with data := w.next, cap := ncap, size := n' } ∧
                   w'.mem w.next = w4.mem w.next ∧ w'.next = w.next + 2)
      (fun _ _ => False) := by
  obtain ⟨hnd, hni⟩ := hv.next_ne hl
  -- the old container is still well-formed in w4
  have hv4 : VecOK cfg w4 c := by
    have hraws4 : ∀ (b i : Nat), b ≠ w.next → ¬ (b = (w.hdr c).data ∧ i < (w.hdr c).size) → (w4.mem b)[i]? = (w.mem b)[i]? := hb.other
    refine hv.transfer (by rw [hb.hdr]) (hb.lenOld _ (Ne.symm hnd)) hb.objs ?_ ?_ ?_
    · intro i h1 h2
      exact isRaw_of_eq (hraws4 _ i (Ne.symm hnd) (by intro ⟨_, h⟩; omega)) (hv.raws i h1 h2)
    · intro hne
      obtain ⟨h1, h2⟩ := hv.heap hne
      refine ⟨by rw [hb.live]; simp [h1], ?_⟩
      rw [hb.owner, upd_other _ _ _ _ (Ne.symm hnd)]; exact h2
    · intro hne
      obtain ⟨h1, h2⟩ := hv.idle hne
      refine ⟨by rw [hb.lenOld _ (Ne.symm hni)]; exact h1, fun i hi => ?_⟩
      exact isRaw_of_eq (hraws4 _ i (Ne.symm hni) (by intro ⟨h, _⟩; exact hne h.symm)) (h2 i hi)
  unfold resetData
  refine sat_bind (wipe_sat cfg c w4 hv4) (fun _ w5 hw => ?_) (fun _ _ h => h)
  unfold setData
  rw [modV_run]
  generalize hw6 : ({ w5 with hdr := upd w5.hdr c { w5.hdr c with data := w.next, cap := ncap, size := n' } } : World α) = w6
  have hm6 : w6.mem = w5.mem := by subst hw6; rfl
  have hh4 : w4.hdr c = w.hdr c := by rw [hb.hdr]
  have hdata5 := hw.data
  rw [hh4] at hdata5
  have hnew5 : w5.mem w.next = w4.mem w.next := hw.other _ (by rw [hh4]; exact hnd)
  have hres := realloc_ok cfg (w := w) (w' := w6) (c := c) (ncap := ncap) (n' := n') hv hl hN hmax hn
    (by subst hw6; show upd w5.hdr c _ = _; rw [hw.hdr, hb.hdr])
    (by subst hw6; show w5.next = _; rw [hw.next, hb.next])
    (by subst hw6; show w5.ntmp = _; rw [hw.ntmp, hb.ntmp])
    (by subst hw6; show w5.live = _; rw [hw.live, hh4, hb.live])
    (by subst hw6; show w5.owner = _; rw [hw.owner, hb.owner])
    (by rw [hm6, hnew5]; exact hb.lenNew)
    (fun i hi => by unfold IsObj; rw [hm6, hnew5]; exact hobj i hi)
    (fun i h1 h2 => by unfold IsRaw; rw [hm6, hnew5]; exact hraw i h1 h2)
    (by
      by_cases hcap : (w.hdr c).N < (w.hdr c).cap
      · simp only [hcap, if_true] at hdata5 ⊢; rw [hm6]; exact hdata5
      · simp only [hcap, if_false] at hdata5 ⊢
        exact ⟨by rw [hm6]; exact hdata5.1, fun i hi => by unfold IsRaw; rw [hm6]; exact hdata5.2 i hi⟩)
    (by
      intro b h1 h2
      rw [hm6, hw.other b (by rw [hh4]; exact h1)]
      apply mem_eq_of_slots (hb.lenOld b h2)
      intro i; exact hb.other b i h2 (by intro ⟨h, _⟩; exact h1 h))
  obtain ⟨hvec, hled, hframe⟩ := hres
  refine ⟨hvec, hled, hframe, ?_, ?_, by rw [hm6, hnew5], ?_⟩
  · subst hw6; show w5.ub = _; rw [hw.ub, hb.ub]
  · subst hw6; show upd w5.hdr c _ c = _; rw [upd_same, hw.hdr, hb.hdr]
  · subst hw6; show w5.next = _; rw [hw.next, hb.next]

/-- a world is determined by its header map when nothing else differs -/
theorem world_hdr_ext {w : World α} {h1 h2 : Nat → Vec} (h : ∀ x, h1 x = h2 x) : ({ w with hdr := h1 } : World α) = { w with hdr := h2 } := by
  have : h1 = h2 := funext h
  rw [this]

theorem newCapacity_bounds (m cap req : Nat) (h1 : cap < req) (h2 : req ≤ m) :
    req ≤ newCapacity m cap req ∧ newCapacity m cap req ≤ m := by
  unfold newCapacity
  simp only [decide_eq_true_eq]
  split <;> (try split) <;> omega

theorem Strong.refl {w : World α} (hl : Ledger w) : Strong w w := Strong.of_quiet hl (Quiet.refl w)

theorem Built.of_quiet {cfg : Cfg} {w w4 w5 : World α} {c ncap : Nat} (hb : Built cfg w w4 c ncap) (hq : Quiet w4 w5) :
    Built cfg w w5 c ncap :=
  hb.step hq.2 (fun i hi => by unfold IsObj; rw [hq.1]; exact hb.objs i hi) (fun b i _ _ => by rw [hq.1])

end SvModel
