/-
The erase family: pop_back, erase(pos), erase(first,last), clear, and the `move_left` shift they are built on.
Normal return: refinement to the list operation, invariants, frame, capacity and buffer unchanged (C10), no allocation.
A throw (only a throwing move-assignment can cause one) leaves a valid container with the same number of live
(possibly moved-from) elements: basic guarantee (C06).
-/
import SvModel.Proofs.Kernel
import SvModel.Proofs.AssignSpec

namespace SvModel
open Gen
variable {α : Type}

/-- basic guarantee for container `c`: valid, leak-free, everything else untouched -/
structure Basic (cfg : Cfg) (w w' : World α) (c : Nat) : Prop where
  vec   : VecOK cfg w' c
  led   : Ledger w'
  ub    : w'.ub = w.ub
  frame : Frame1 w w' c

theorem upd_self {β} (f : Nat → β) (k : Nat) : upd f k (f k) = f := by
  funext x; by_cases h : x = k
  · subst h; simp
  · simp [upd, h]

/-- a change that only touched live elements of `c`'s buffer keeps every invariant -/
theorem basic_of_touched (cfg : Cfg) {w w' : World α} {c : Nat} {P : Nat → Nat → Prop} (hv : VecOK cfg w c) (hl : Ledger w)
    (ht : Touched w w' P) (hP : ∀ b i, P b i → b = (w.hdr c).data ∧ i < (w.hdr c).size) :
    Basic cfg w w' c := by
  have hh : w'.hdr = upd w.hdr c { w.hdr c with size := (w.hdr c).size } := by
    rw [ht.ctl.hdr]; exact (upd_self w.hdr c).symm
  obtain ⟨h1, h2, h3⟩ := inplace_ok cfg hv hl ht.ctl.to0 hh hv.size_le
    (fun i hi => ht.isObj (hv.objs i hi))
    (fun i h1 h2 => isRaw_of_eq (ht.same _ i (fun hp => by have := (hP _ _ hp).2; omega)) (hv.raws i h1 h2))
    (fun b i hb _ => ht.same b i (fun hp => hb (hP _ _ hp).1))
  exact ⟨h1, h2, ht.ctl.ub, h3⟩

theorem Strong.basic {cfg : Cfg} {w w' : World α} {c : Nat} (hs : Strong w w') (hl : Ledger w) (hv : VecOK cfg w c) :
    Basic cfg w w' c := by
  refine ⟨hs.vecOK hl hv, hs.led, hs.ub, ?_⟩
  refine ⟨fun d _ => by rw [hs.hdr], by rw [hs.hdr], by rw [hs.hdr], ?_, hs.owner, hs.next, Or.inl (by rw [hs.hdr]),
          LiveAcc.of_same hl hv hs.live (by rw [hs.hdr])⟩
  intro b _ _ h3 h4
  exact hs.mem b h3 h4

/-! ### move_left: std::move [first, first+n) → [dfirst, …) with dfirst < first, inside one block -/
theorem moveLeft_sat (cfg : Cfg) (b : Nat) : ∀ (n first dfirst : Nat) (w : World α), dfirst < first →
    (∀ j, dfirst ≤ j → j < first + n → IsObj w b j) →
    (moveLeft cfg b first n dfirst w).sat
      (fun _ w' => Touched w w' (fun b' i => b' = b ∧ dfirst ≤ i ∧ i < first + n) ∧
                   ∀ k, k < n → (w'.mem b)[dfirst + k]? = (w.mem b)[first + k]?)
      (fun e w' => e = .elem ∧ Touched w w' (fun b' i => b' = b ∧ dfirst ≤ i ∧ i < first + n))
  | 0, first, dfirst, w, _, _ => by
    show Touched w w _ ∧ _
    exact ⟨Touched.refl w _, fun k h => by omega⟩
  | n+1, first, dfirst, w, hlt, hobj => by
    unfold moveLeft
    rw [srcsMove_succ]
    show ((assignSrc cfg b dfirst (.moveOf b first) >>= fun _ => assignGen cfg b (dfirst + 1) (srcsMove b (first + 1) n)) w).sat _ _
    obtain ⟨u, hu⟩ := hobj dfirst (Nat.le_refl _) (by omega)
    obtain ⟨v, hv⟩ := hobj first (by omega) (by omega)
    refine sat_bind (assignSrc_sat cfg b dfirst (.moveOf b first) w u hu
      (by intro b' i' hl; simp [Src.loc] at hl; obtain ⟨h1, h2⟩ := hl; subst h1; subst h2; exact ⟨v, hv⟩)
      (by simp [Src.loc]; omega)) (fun _ w1 hw => ?_) ?_
    · have ht1 : Touched w w1 (fun b' i => b' = b ∧ dfirst ≤ i ∧ i < first + (n + 1)) :=
        hw.touched.mono (fun b' i h => by
          rcases h with h | h
          · injection h with h1 h2; exact ⟨h1, by omega, by omega⟩
          · simp [Src.loc] at h; obtain ⟨h1, h2⟩ := h; exact ⟨h1.symm, by omega, by omega⟩)
      have hdst : (w1.mem b)[dfirst]? = (w.mem b)[first]? := by
        rw [hw.dst, hv]; simp [srcVal, hv]
      have hsame1 : ∀ i, i ≠ dfirst → i ≠ first → (w1.mem b)[i]? = (w.mem b)[i]? := by
        intro i h1 h2
        exact hw.rest b i (by intro h; injection h with _ h; exact h1 h) (by simp [Src.loc]; intro h; exact h2 h.symm)
      have ih := moveLeft_sat cfg b n (first + 1) (dfirst + 1) w1 (by omega)
        (fun j h1 h2 => ht1.isObj (hobj j (by omega) (by omega)))
      unfold moveLeft at ih
      refine Res.sat_mono ih ?_ ?_
      · intro _ w2 ⟨ht2, hv2⟩
        refine ⟨ht1.trans (ht2.mono (fun b' i ⟨h1, h2, h3⟩ => ⟨h1, by omega, by omega⟩)), ?_⟩
        intro k hk
        cases k with
        | zero =>
          simp only [Nat.add_zero]
          rw [ht2.same b dfirst (by intro ⟨_, h, _⟩; omega)]; exact hdst
        | succ k =>
          have := hv2 k (by omega)
          rw [show dfirst + 1 + k = dfirst + (k + 1) by omega, show first + 1 + k = first + (k + 1) by omega] at this
          rw [this]
          exact hsame1 _ (by omega) (by omega)
      · intro e w2 ⟨he, ht2⟩
        exact ⟨he, ht1.trans (ht2.mono (fun b' i ⟨h1, h2, h3⟩ => ⟨h1, by omega, by omega⟩))⟩
    · intro e w1 ⟨he, hq⟩
      exact ⟨he.1, Touched.of_quiet _ hq⟩

/-! ### pop_back -/
/-- outcome of an operation that shrinks `c` in place to the list `ys` -/
structure Shrunk (cfg : Cfg) (w w' : World α) (c : Nat) (f : List (Val α) → List (Val α)) : Prop where
  basic  : Basic cfg w w' c
  holds  : ∀ xs, Holds w c xs → Holds w' c (f xs)
  data   : (w'.hdr c).data = (w.hdr c).data
  cap    : (w'.hdr c).cap = (w.hdr c).cap
  alloc  : (w'.hdr c).alloc = (w.hdr c).alloc
  noalloc : w'.next = w.next ∧ w'.live = w.live

theorem eraseLast_sat (cfg : Cfg) (c : Nat) (w : World α) (hv : VecOK cfg w c) (hl : Ledger w) (hpos : 0 < (w.hdr c).size) :
    (eraseLast cfg c w).sat (fun _ w' => Shrunk cfg w w' c List.dropLast) (fun _ _ => False) := by
  unfold eraseLast
  rw [bind_run, getV_run]
  simp only []
  unfold setSize
  rw [bind_run, modV_run]
  simp only []
  generalize hw1 : ({ w with hdr := upd w.hdr c { w.hdr c with size := (w.hdr c).size - 1 } } : World α) = w1
  have hm1 : w1.mem = w.mem := by subst hw1; rfl
  have hobj1 : IsObj w1 (w.hdr c).data ((w.hdr c).size - 1) := by
    unfold IsObj; rw [hm1]; exact hv.objs _ (by omega)
  refine Res.sat_mono (destroyAt_sat cfg _ _ w1 hobj1) ?_ (fun _ _ h => h)
  intro _ w2 ⟨hc2, hr2, hrest2⟩
  have hslot : ∀ (b i : Nat), (b, i) ≠ ((w.hdr c).data, (w.hdr c).size - 1) → (w2.mem b)[i]? = (w.mem b)[i]? := by
    intro b i h; rw [hrest2 b i h, hm1]
  have hc02 : Ctl0 w w2 := by
    have := hc2.to0
    subst hw1
    exact ⟨this.owner, this.live, this.next, this.ub, this.ntmp, this.len⟩
  have hh2 : w2.hdr = upd w.hdr c { w.hdr c with size := (w.hdr c).size - 1 } := by
    rw [hc2.hdr]; subst hw1; rfl
  obtain ⟨hvec, hled, hframe⟩ := inplace_ok cfg hv hl hc02 hh2 (by have := hv.size_le; omega)
    (fun i hi => isObj_of_eq (hslot _ i (by intro h; injection h with _ h; omega)) (hv.objs i (by omega)))
    (fun i h1 h2 => by
      by_cases h : i = (w.hdr c).size - 1
      · subst h; exact hr2
      · exact isRaw_of_eq (hslot _ i (by intro h'; injection h' with _ h'; exact h h')) (hv.raws i (by omega) h2))
    (fun b i hb _ => hslot b i (by intro h; injection h with h _; exact hb h))
  have hhc : w2.hdr c = { w.hdr c with size := (w.hdr c).size - 1 } := by rw [hh2]; simp
  refine ⟨⟨hvec, hled, hc02.ub, hframe⟩, ?_, by rw [hhc], by rw [hhc], by rw [hhc], hc02.next, hc02.live⟩
  intro xs ⟨hxl, hxv⟩
  refine ⟨by rw [hhc]; simp [hxl], ?_⟩
  intro i hi
  rw [hhc]; simp only []
  have hi' : i < xs.length - 1 := by simpa using hi
  rw [hslot _ i (by intro h; injection h with _ h; omega), hxv i (by omega)]
  simp [List.getElem_dropLast]

theorem Basic.trans {cfg : Cfg} {a b d : World α} {c : Nat} (hl : Ledger a) (hv : VecOK cfg a c)
    (h1 : Basic cfg a b c) (h2 : Basic cfg b d c) : Basic cfg a d c :=
  ⟨h2.vec, h2.led, h2.ub.trans h1.ub, Frame1.trans hl hv h1.frame h2.frame⟩

theorem Shrunk.trans {cfg : Cfg} {a b d : World α} {c : Nat} {f g : List (Val α) → List (Val α)} (hl : Ledger a) (hv : VecOK cfg a c)
    (h1 : Shrunk cfg a b c f) (h2 : Shrunk cfg b d c g) : Shrunk cfg a d c (g ∘ f) :=
  ⟨Basic.trans hl hv h1.basic h2.basic, fun xs hx => h2.holds _ (h1.holds xs hx), h2.data.trans h1.data, h2.cap.trans h1.cap,
   h2.alloc.trans h1.alloc, h2.noalloc.1.trans h1.noalloc.1, h2.noalloc.2.trans h1.noalloc.2⟩

/-- every valid container holds some list -/
theorem VecOK.holds_exists {cfg : Cfg} {w : World α} {c : Nat} (hv : VecOK cfg w c) : ∃ xs, Holds w c xs := by
  have key : ∀ n, n ≤ (w.hdr c).size → ∃ xs : List (Val α), xs.length = n ∧
      ∀ i (h : i < xs.length), (w.mem (w.hdr c).data)[i]? = some (.obj xs[i]) := by
    intro n
    induction n with
    | zero => intro _; exact ⟨[], rfl, fun i h => by simp at h⟩
    | succ n ih =>
      intro hn
      obtain ⟨xs, hl, hx⟩ := ih (by omega)
      obtain ⟨v, hv'⟩ := hv.objs n (by omega)
      refine ⟨xs ++ [v], by simp [hl], ?_⟩
      intro i hi
      by_cases h : i < xs.length
      · rw [hx i h]; simp [List.getElem_append_left h]
      · have : i = n := by simp at hi; omega
        subst this
        rw [hv']; simp [List.getElem_append_right, hl]
  obtain ⟨xs, hl, hx⟩ := key _ (Nat.le_refl _)
  exact ⟨xs, hl, hx⟩

/-- truncation to `n` elements: set_size then destroy_range (erase_to_end, erase_all, the tail of erase_range) -/
theorem truncate_sat (cfg : Cfg) (c n : Nat) (w : World α) (hv : VecOK cfg w c) (hl : Ledger w) (hn : n ≤ (w.hdr c).size) :
    ((setSize c n >>= fun _ => destroyRange cfg (w.hdr c).data n ((w.hdr c).size - n)) w).sat
      (fun _ w' => Shrunk cfg w w' c (List.take n)) (fun _ _ => False) := by
  unfold setSize
  rw [bind_run, modV_run]
  simp only []
  generalize hw1 : ({ w with hdr := upd w.hdr c { w.hdr c with size := n } } : World α) = w1
  have hm1 : w1.mem = w.mem := by subst hw1; rfl
  have hobj1 : ∀ i, n ≤ i → i < n + ((w.hdr c).size - n) → IsObj w1 (w.hdr c).data i := by
    intro i h1 h2; unfold IsObj; rw [hm1]; exact hv.objs i (by omega)
  refine Res.sat_mono (destroyRange_sat cfg _ _ n w1 hobj1) ?_ (fun _ _ h => h)
  intro _ w2 ⟨hc2, hr2, hrest2⟩
  have hslot : ∀ (b i : Nat), ¬ (b = (w.hdr c).data ∧ n ≤ i ∧ i < (w.hdr c).size) → (w2.mem b)[i]? = (w.mem b)[i]? := by
    intro b i h; rw [hrest2 b i (by intro ⟨h1, h2, h3⟩; exact h ⟨h1, h2, by omega⟩), hm1]
  have hc02 : Ctl0 w w2 := by
    have := hc2.to0
    subst hw1
    exact ⟨this.owner, this.live, this.next, this.ub, this.ntmp, this.len⟩
  have hh2 : w2.hdr = upd w.hdr c { w.hdr c with size := n } := by rw [hc2.hdr]; subst hw1; rfl
  obtain ⟨hvec, hled, hframe⟩ := inplace_ok cfg hv hl hc02 hh2 (by have := hv.size_le; omega)
    (fun i hi => isObj_of_eq (hslot _ i (by intro ⟨_, h, _⟩; omega)) (hv.objs i (by omega)))
    (fun i h1 h2 => by
      by_cases h : i < (w.hdr c).size
      · exact hr2 i h1 (by omega)
      · exact isRaw_of_eq (hslot _ i (by intro ⟨_, _, h'⟩; omega)) (hv.raws i (by omega) h2))
    (fun b i hb _ => hslot b i (by intro ⟨h, _, _⟩; exact hb h))
  have hhc : w2.hdr c = { w.hdr c with size := n } := by rw [hh2]; simp
  refine ⟨⟨hvec, hled, hc02.ub, hframe⟩, ?_, by rw [hhc], by rw [hhc], by rw [hhc], hc02.next, hc02.live⟩
  intro xs ⟨hxl, hxv⟩
  refine ⟨by rw [hhc]; simp [hxl]; omega, ?_⟩
  intro i hi
  rw [hhc]; simp only []
  have hi' : i < n ∧ i < xs.length := by simp at hi; omega
  rw [hslot _ i (by intro ⟨_, h, _⟩; omega), hxv i hi'.2]
  simp [List.getElem_take]

theorem eraseAll_sat (cfg : Cfg) (c : Nat) (w : World α) (hv : VecOK cfg w c) (hl : Ledger w) :
    (eraseAll cfg c w).sat (fun _ w' => Shrunk cfg w w' c (fun _ => [])) (fun _ _ => False) := by
  unfold eraseAll
  rw [bind_run, getV_run]
  simp only []
  refine Res.sat_mono (truncate_sat cfg c 0 w hv hl (Nat.zero_le _)) ?_ (fun _ _ h => h)
  intro _ w' h
  exact ⟨h.basic, fun xs hx => by simpa using h.holds xs hx, h.data, h.cap, h.alloc, h.noalloc⟩

theorem eraseToEnd_sat (cfg : Cfg) (c pos : Nat) (w : World α) (hv : VecOK cfg w c) (hl : Ledger w) (hp : pos ≤ (w.hdr c).size) :
    (eraseToEnd cfg c pos w).sat (fun _ w' => Shrunk cfg w w' c (List.take pos)) (fun _ _ => False) := by
  unfold eraseToEnd
  rw [bind_run, getV_run]
  simp only []
  have e : guard_eraseToEnd_0 { genv cfg (w.hdr c) with pos := pos } = decide ((w.hdr c).size - pos ≠ 0) := rfl
  rw [e]
  by_cases hz : (w.hdr c).size - pos ≠ 0
  · rw [if_pos (decide_eq_true hz)]
    exact truncate_sat cfg c pos w hv hl hp
  · rw [if_neg (by simpa using hz)]
    have hps : pos = (w.hdr c).size := by omega
    refine ⟨Strong.basic (Strong.refl hl) hl hv, ?_, rfl, rfl, rfl, rfl, rfl⟩
    intro xs hx
    rw [List.take_of_length_le (by rw [hx.1]; omega)]; exact hx

/-- after shifting the tail left: the container still has `size` live elements, position `first + k` holds the old
    element `last + k` -/
theorem eraseRange_sat (cfg : Cfg) (c first last : Nat) (w : World α) (hv : VecOK cfg w c) (hl : Ledger w)
    (h1 : first ≤ last) (h2 : last ≤ (w.hdr c).size) :
    (eraseRange cfg c first last w).sat
      (fun r w' => r = first ∧ Shrunk cfg w w' c (fun xs => xs.take first ++ xs.drop last))
      (fun e w' => e = .elem ∧ Basic cfg w w' c ∧ (w'.hdr c) = (w.hdr c)) := by
  unfold eraseRange
  rw [bind_run, getV_run]
  simp only []
  have e : guard_eraseRange_0 { numInsert := last - first } = decide (last - first ≠ 0) := rfl
  rw [e]
  by_cases hz : last - first ≠ 0
  · rw [if_pos (decide_eq_true hz)]
    have hlt : first < last := by omega
    have hobj : ∀ j, first ≤ j → j < last + ((w.hdr c).size - last) → IsObj w (w.hdr c).data j :=
      fun j _ hj => hv.objs j (by omega)
    refine sat_bind (moveLeft_sat cfg (w.hdr c).data ((w.hdr c).size - last) last first w hlt hobj) (fun _ w1 hm => ?_) ?_
    · obtain ⟨ht1, hv1⟩ := hm
      have hP : ∀ b i, (b = (w.hdr c).data ∧ first ≤ i ∧ i < last + ((w.hdr c).size - last)) → b = (w.hdr c).data ∧ i < (w.hdr c).size :=
        fun b i ⟨a1, _, a3⟩ => ⟨a1, by omega⟩
      have hb1 := basic_of_touched cfg hv hl ht1 hP
      have hh1 : w1.hdr = w.hdr := ht1.ctl.hdr
      have hte := eraseToEnd_sat cfg c (first + ((w.hdr c).size - last)) w1 hb1.vec hb1.led (by rw [hh1]; omega)
      refine sat_bind hte (fun _ w2 hs2 => ?_) (fun _ _ h => h.elim)
      show first = first ∧ _
      refine ⟨rfl, Basic.trans hl hv hb1 hs2.basic, ?_, by rw [hs2.data, hh1], by rw [hs2.cap, hh1], by rw [hs2.alloc, hh1],
              by rw [hs2.noalloc.1, ht1.ctl.next], by rw [hs2.noalloc.2, ht1.ctl.live]⟩
      intro xs hx
      -- the intermediate contents
      obtain ⟨ys, hy⟩ := hb1.vec.holds_exists
      have hres := hs2.holds ys hy
      have hyl : ys.length = (w.hdr c).size := by rw [hy.1, hh1]
      have hxl := hx.1
      have heq : ys.take (first + ((w.hdr c).size - last)) = xs.take first ++ xs.drop last := by
        apply List.ext_getElem
        · simp [hyl, hxl]; omega
        · intro i hi1 hi2
          have hi : i < first + ((w.hdr c).size - last) := by simp [hyl] at hi1; omega
          have hyi := hy.2 i (by omega)
          rw [hh1] at hyi
          rw [List.getElem_take]
          by_cases hif : i < first
          · rw [List.getElem_append_left (by simp [hxl]; omega), List.getElem_take]
            have := hx.2 i (by omega)
            rw [ht1.same _ i (by intro ⟨_, h, _⟩; omega), this] at hyi
            injection hyi with hyi; injection hyi with hyi; exact hyi.symm
          · rw [List.getElem_append_right (by simp [hxl]; omega), List.getElem_drop]
            have hk := hv1 (i - first) (by omega)
            rw [show first + (i - first) = i by omega] at hk
            have := hx.2 (last + (i - first)) (by omega)
            rw [hk, this] at hyi
            injection hyi with hyi; injection hyi with hyi
            simp only [List.length_take, hxl]
            rw [← hyi]
            congr 1
            omega
      rw [← heq]; exact hres
    · intro e w1 ⟨he, ht1⟩
      have hP : ∀ b i, (b = (w.hdr c).data ∧ first ≤ i ∧ i < last + ((w.hdr c).size - last)) → b = (w.hdr c).data ∧ i < (w.hdr c).size :=
        fun b i ⟨a1, _, a3⟩ => ⟨a1, by omega⟩
      exact ⟨he, basic_of_touched cfg hv hl ht1 hP, by rw [ht1.ctl.hdr]⟩
  · rw [if_neg (by simpa using hz)]
    show first = first ∧ _
    have hfl : first = last := by omega
    refine ⟨rfl, Strong.basic (Strong.refl hl) hl hv, ?_, rfl, rfl, rfl, rfl, rfl⟩
    intro xs hx
    subst hfl
    rw [List.take_append_drop]; exact hx

theorem eraseAt_sat (cfg : Cfg) (c pos : Nat) (w : World α) (hv : VecOK cfg w c) (hl : Ledger w) (hp : pos < (w.hdr c).size) :
    (eraseAt cfg c pos w).sat
      (fun r w' => r = pos ∧ Shrunk cfg w w' c (fun xs => xs.take pos ++ xs.drop (pos + 1)))
      (fun e w' => e = .elem ∧ Basic cfg w w' c ∧ (w'.hdr c) = (w.hdr c)) := by
  unfold eraseAt
  rw [bind_run, getV_run]
  simp only []
  have hobj : ∀ j, pos ≤ j → j < pos + 1 + ((w.hdr c).size - (pos + 1)) → IsObj w (w.hdr c).data j :=
    fun j _ hj => hv.objs j (by omega)
  have hP : ∀ b i, (b = (w.hdr c).data ∧ pos ≤ i ∧ i < pos + 1 + ((w.hdr c).size - (pos + 1))) → b = (w.hdr c).data ∧ i < (w.hdr c).size :=
    fun b i ⟨a1, _, a3⟩ => ⟨a1, by omega⟩
  refine sat_bind (moveLeft_sat cfg (w.hdr c).data ((w.hdr c).size - (pos + 1)) (pos + 1) pos w (by omega) hobj) (fun _ w1 hm => ?_) ?_
  · obtain ⟨ht1, hv1⟩ := hm
    have hb1 := basic_of_touched cfg hv hl ht1 hP
    have hh1 : w1.hdr = w.hdr := ht1.ctl.hdr
    refine sat_bind (eraseLast_sat cfg c w1 hb1.vec hb1.led (by rw [hh1]; omega)) (fun _ w2 hs2 => ?_) (fun _ _ h => h.elim)
    show pos = pos ∧ _
    refine ⟨rfl, Basic.trans hl hv hb1 hs2.basic, ?_, by rw [hs2.data, hh1], by rw [hs2.cap, hh1], by rw [hs2.alloc, hh1],
            by rw [hs2.noalloc.1, ht1.ctl.next], by rw [hs2.noalloc.2, ht1.ctl.live]⟩
    intro xs hx
    obtain ⟨ys, hy⟩ := hb1.vec.holds_exists
    have hres := hs2.holds ys hy
    have hyl : ys.length = (w.hdr c).size := by rw [hy.1, hh1]
    have hxl := hx.1
    have heq : ys.dropLast = xs.take pos ++ xs.drop (pos + 1) := by
      apply List.ext_getElem
      · simp [hyl, hxl]; omega
      · intro i hi1 hi2
        have hi : i < (w.hdr c).size - 1 := by simp [hyl] at hi1; omega
        have hyi := hy.2 i (by omega)
        rw [hh1] at hyi
        rw [List.getElem_dropLast]
        by_cases hif : i < pos
        · rw [List.getElem_append_left (by simp [hxl]; omega), List.getElem_take]
          have := hx.2 i (by omega)
          rw [ht1.same _ i (by intro ⟨_, h, _⟩; omega), this] at hyi
          injection hyi with hyi; injection hyi with hyi; exact hyi.symm
        · rw [List.getElem_append_right (by simp [hxl]; omega), List.getElem_drop]
          have hk := hv1 (i - pos) (by omega)
          rw [show pos + (i - pos) = i by omega] at hk
          have := hx.2 (pos + 1 + (i - pos)) (by omega)
          rw [hk, this] at hyi
          injection hyi with hyi; injection hyi with hyi
          simp only [List.length_take, hxl]
          rw [← hyi]
          congr 1
          omega
    rw [← heq]; exact hres
  · intro e w1 ⟨he, ht1⟩
    exact ⟨he, basic_of_touched cfg hv hl ht1 hP, by rw [ht1.ctl.hdr]⟩

end SvModel
