/-
Element-wise move assignment, REALLOCATING paths (`move_assign_default` when the source's elements do not fit or the
destination's block belongs to an unequal allocator; `move_assign_unequal_no_propagate` when they do not fit):
allocate a new block (with allocator `A`), move-construct the source's elements into it (rolling back on a throw), wipe
the destination, switch it to the new block and give it allocator `A`.

As for the in-place paths the outcome is factorised through an intermediate world in which only the source's block has
changed (`husked`), so that two applications of `SysOK.step` give the system invariant.
-/
import SvModel.Proofs.MoveAssign

namespace SvModel
open Gen
variable {α : Type}

theorem moveAssignRealloc_sat (cfg : Cfg) (c o : Nat) (w : World α) (A ncap : Nat)
    (hv : VecOK cfg w c) (hl : Ledger w) (hvo : VecOK cfg w o)
    (hN : (w.hdr c).N < ncap) (hmax : ncap ≤ cfg.maxSize) (hfit : (w.hdr o).size ≤ ncap)
    (hd : (w.hdr o).data ≠ (w.hdr c).data) (hi : (w.hdr o).data ≠ (w.hdr c).inl) :
    ((allocate cfg A ncap >>= fun nb =>
      tryCatch (uninitializedMove cfg false (w.hdr o).data 0 (w.hdr o).size nb 0)
        (fun ex => deallocate A nb ncap >>= fun _ => throwE ex) >>= fun _ =>
      resetData cfg c nb ncap (w.hdr o).size >>= fun _ => setAlloc c A) w).sat
      (fun _ w' => ∃ wh, Basic cfg w wh o ∧ Basic cfg wh w' c ∧
          w'.hdr c = { w.hdr c with data := w.next, cap := ncap, size := (w.hdr o).size, alloc := A } ∧
          (∀ k, k < (w.hdr o).size → (w'.mem w.next)[k]? = (w.mem (w.hdr o).data)[k]?))
      (fun e w' => (e = .alloc ∧ Quiet w w') ∨ (e = .elem ∧ ∃ wh, Basic cfg w wh o ∧ Strong wh w')) := by
  generalize hod : (w.hdr o).data = od at *
  generalize hos : (w.hdr o).size = os at *
  have hoobj : ∀ i, i < os → IsObj w od i := fun i hi' => by rw [← hod]; exact hvo.objs i (by rw [hos]; exact hi')
  obtain ⟨hnd, hni⟩ := hv.next_ne hl
  have hod_lt : od < w.next := by rw [← hod]; exact hvo.data_lt_next hl
  have hod_next : od ≠ w.next := by omega
  have hcls_o : od % 2 = 1 ∨ od < 6 := by
    by_cases hne : (w.hdr o).data = (w.hdr o).inl
    · right; rw [← hod, hne]; have := hvo.inl_lt; omega
    · left; rw [← hod]; exact (hvo.data_odd hl hne).2.1
  refine sat_bind (allocate_sat cfg A ncap w) (fun nb w2 h2 => ?_) (fun e w2 h => Or.inl h)
  obtain ⟨hnb, hm2, ho2, hlv2, hn2, hh2, ht2, hu2⟩ := h2
  subst hnb
  have hoth2 : ∀ b, b ≠ w.next → w2.mem b = w.mem b := fun b hb => by rw [hm2, upd_other _ _ _ _ hb]
  have hraw2 : ∀ i, i < ncap → IsRaw w2 w.next i := fun i hi' => by unfold IsRaw; rw [hm2]; simp [hi']
  have hmv := uninitializedMove_sat cfg false od 0 os w.next 0 w2
    (fun k hk => by unfold IsObj; rw [hoth2 od hod_next, Nat.zero_add]; exact hoobj k hk)
    (fun k hk => by simpa using hraw2 k (by omega))
  -- the intermediate world and the two facts about it shared by both outcomes
  have mid : ∀ (w3 : World α), Ctl w2 w3 → (∀ k, k < os → IsObj w3 od k) →
      (∀ (b i : Nat), ¬ (b = w.next ∧ i < os) → ¬ (b = od ∧ i < os) → (w3.mem b)[i]? = (w2.mem b)[i]?) →
      Basic cfg w (husked w w3 od) o ∧ VecOK cfg (husked w w3 od) c ∧ BuiltA cfg (husked w w3 od) w3 c ncap A := by
    intro w3 hc3 hsrc3 hrest3
    have hlen_od : (w3.mem od).length = (w.mem od).length := by rw [hc3.len, hoth2 od hod_next]
    have hb1 : Basic cfg w (husked w w3 od) o := by
      have := basic_husked cfg (w' := w3) hvo hl (by rw [hod]; exact hlen_od)
        (by rw [hod, hos]; exact hsrc3)
        (by rw [hod, hos]; intro i hi'; rw [hrest3 od i (by intro ⟨h, _⟩; exact hod_next h) (by intro ⟨_, h⟩; omega), hoth2 od hod_next])
      rw [hod] at this; exact this
    have hvh : VecOK cfg (husked w w3 od) c := by
      refine hv.transfer rfl (by rw [husked_mem_other _ _ _ _ (Ne.symm hd)]) ?_ ?_ (fun hne => hv.heap hne) ?_
      · intro i hi'; unfold IsObj; rw [husked_mem_other _ _ _ _ (Ne.symm hd)]; exact hv.objs i hi'
      · intro i h1 h2; unfold IsRaw; rw [husked_mem_other _ _ _ _ (Ne.symm hd)]; exact hv.raws i h1 h2
      · intro hne
        obtain ⟨h1, h2⟩ := hv.idle hne
        exact ⟨by rw [husked_mem_other _ _ _ _ (Ne.symm hi)]; exact h1, fun i hi' => by unfold IsRaw; rw [husked_mem_other _ _ _ _ (Ne.symm hi)]; exact h2 i hi'⟩
    refine ⟨hb1, hvh, ?_⟩
    have hsame : ∀ (b i : Nat), b ≠ w.next → (w3.mem b)[i]? = ((husked w w3 od).mem b)[i]? := by
      intro b i hb
      by_cases hbo : b = od
      · rw [hbo, husked_mem_b]
      · rw [husked_mem_other _ _ _ _ hbo, hrest3 b i (by intro ⟨h, _⟩; exact hb h) (by intro ⟨h, _⟩; exact hbo h), hoth2 b hb]
    refine ⟨hc3.hdr.trans hh2, hc3.live.trans hlv2, hc3.owner.trans ho2, hc3.next.trans hn2, hc3.ntmp.trans ht2, hc3.ub.trans hu2, ?_, ?_, ?_, ?_⟩
    · show (w3.mem w.next).length = ncap
      rw [hc3.len, hm2]; simp
    · intro b hb
      show (w3.mem b).length = ((husked w w3 od).mem b).length
      by_cases hbo : b = od
      · rw [hbo, husked_mem_b]
      · rw [husked_mem_other _ _ _ _ hbo, hc3.len, hoth2 b hb]
    · intro i hi'
      show IsObj w3 (w.hdr c).data i
      obtain ⟨v, hv'⟩ := hv.objs i hi'
      refine ⟨v, ?_⟩
      rw [hsame _ i (Ne.symm hnd), husked_mem_other _ _ _ _ (Ne.symm hd)]; exact hv'
    · intro b i hb _
      exact hsame b i hb
  rw [bind_run]
  cases h3 : uninitializedMove cfg false od 0 os w.next 0 w2 with
  | thrown e w3 =>
    obtain ⟨he, hf⟩ := sat_of_thrown hmv h3
    have hm := mid w3 hf.ctl (fun k hk => by have := hf.src k hk; simpa using this)
      (fun b i n1 n2 => hf.rest b i (by intro ⟨x, _, y⟩; exact n1 ⟨x, by omega⟩) (by intro ⟨x, _, y⟩; exact n2 ⟨x, by omega⟩))
    obtain ⟨hb1, hvh, hbA⟩ := hm
    have hab := abort_realloc_alloc (w := husked w w3 od) hvh hb1.led hbA
      (fun i hi' => by
        show (w3.mem (w.hdr c).data)[i]? = ((husked w w3 od).mem (w.hdr c).data)[i]?
        rw [husked_mem_other _ _ _ _ (Ne.symm hd)]
        rw [hf.rest _ i (by intro ⟨x, _⟩; exact hnd x.symm) (by intro ⟨x, _⟩; exact hd x.symm), hoth2 _ (Ne.symm hnd)])
      (fun i hi' => by
        show IsRaw w3 w.next i
        by_cases h : i < os
        · have := hf.dst i h; simpa using this
        · exact isRaw_of_eq (hf.rest _ i (by intro ⟨_, _, y⟩; omega) (by intro ⟨x, _⟩; exact hod_next x.symm)) (hraw2 i hi'))
    obtain ⟨w6, hd6, hs6⟩ := hab
    have hd6' : deallocate A w.next ncap w3 = .ok () w6 := hd6
    show ((tryCatch (uninitializedMove cfg false od 0 os w.next 0) _ >>= _) w2).sat _ _
    rw [bind_run]
    have htc : tryCatch (uninitializedMove cfg false od 0 os w.next 0) (fun ex => deallocate A w.next ncap >>= fun _ => throwE ex) w2 = .thrown e w6 := by
      unfold tryCatch
      rw [h3]; simp only []
      rw [bind_run, hd6']; rfl
    rw [htc]
    exact Or.inr ⟨he, _, hb1, hs6⟩
  | ok u3 w3 =>
    have hr := sat_of_ok hmv h3
    have hm := mid w3 hr.ctl (fun k hk => by have := hr.src k hk; simpa using this)
      (fun b i n1 n2 => hr.rest b i (by intro ⟨x, _, y⟩; exact n1 ⟨x, by omega⟩) (by intro ⟨x, _, y⟩; exact n2 ⟨x, by omega⟩))
    obtain ⟨hb1, hvh, hbA⟩ := hm
    have htc : tryCatch (uninitializedMove cfg false od 0 os w.next 0) (fun ex => deallocate A w.next ncap >>= fun _ => throwE ex) w2 = .ok u3 w3 := by
      unfold tryCatch
      rw [h3]
    show ((tryCatch (uninitializedMove cfg false od 0 os w.next 0) _ >>= _) w2).sat _ _
    rw [bind_run, htc]
    simp only []
    have hval3 : ∀ k, k < os → (w3.mem w.next)[k]? = (w.mem od)[k]? := fun k hk => by
      have := hr.dst k hk
      simp only [Nat.zero_add] at this
      rw [this, hoth2 od hod_next]
    have hfin := finish_realloc_alloc (w := husked w w3 od) (n' := os) hvh hb1.led hbA hN hmax hfit
      (fun i hi' => by
        show IsObj w3 w.next i
        obtain ⟨v, hv'⟩ := hoobj i hi'
        exact ⟨v, by rw [hval3 i hi']; exact hv'⟩)
      (fun i h1 h2 => by
        show IsRaw w3 w.next i
        exact isRaw_of_eq (hr.rest _ i (by intro ⟨_, _, y⟩; omega) (by intro ⟨x, _⟩; exact hod_next x.symm)) (hraw2 i h2))
    refine Res.sat_mono hfin ?_ (fun _ _ h => h.elim)
    intro _ w' ⟨hvec, hled, hframe, hub, hhc, hmemn, hnext⟩
    refine ⟨_, hb1, ⟨hvec, hled, hub, hframe⟩, hhc, fun k hk => ?_⟩
    have : w'.mem w.next = w3.mem w.next := hmemn
    rw [this]; exact hval3 k hk

end SvModel
