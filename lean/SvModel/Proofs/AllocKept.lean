/-
Allocator tracking for C07: `AllocKept m` — the computation `m` leaves the allocator field of every container header
unchanged, in either outcome.  Closed under the monad combinators; holds for every primitive and for every operation
body up to its final `maybe_copy` / `maybe_move` / `maybe_swap`.
-/
import SvModel.Ops
import SvModel.Proofs.Hoare

namespace SvModel
open Gen
variable {α β γ : Type}

def AllocKept (m : M α β) : Prop := ∀ w d, ((m w).world.hdr d).alloc = (w.hdr d).alloc

theorem AllocKept.pure (b : β) : AllocKept (pure b : M α β) := fun _ _ => rfl
theorem AllocKept.throwE (e : Exc) : AllocKept (throwE e : M α β) := fun _ _ => rfl

theorem AllocKept.bind {m : M α β} {f : β → M α γ} (h1 : AllocKept m) (h2 : ∀ b, AllocKept (f b)) : AllocKept (m >>= f) := by
  intro w d
  have a := h1 w d
  rw [bind_run]
  cases hm : m w with
  | ok b w' => rw [hm] at a; simp only [Res.world] at a; simp only []; rw [h2 b w' d, a]
  | thrown e w' => rw [hm] at a; exact a

theorem AllocKept.tryCatch {m : M α β} {h : Exc → M α β} (h1 : AllocKept m) (h2 : ∀ e, AllocKept (h e)) : AllocKept (tryCatch m h) := by
  intro w d
  have a := h1 w d
  rw [tryCatch_run]
  cases hm : m w with
  | ok b w' => rw [hm] at a; exact a
  | thrown e w' => rw [hm] at a; simp only [Res.world] at a; simp only []; rw [h2 e w' d, a]

theorem AllocKept.finally {m : M α β} {fin : M α Unit} (h1 : AllocKept m) (h2 : AllocKept fin) : AllocKept (finally_ m fin) := by
  intro w d
  have a := h1 w d
  rw [finally_run]
  cases hm : m w with
  | ok b w' =>
    rw [hm] at a; simp only [Res.world] at a
    have c := h2 w' d
    simp only []
    cases hf : fin w' with
    | ok u w'' => rw [hf] at c; simp only [Res.world] at c ⊢; rw [c, a]
    | thrown e w'' => rw [hf] at c; simp only [Res.world] at c ⊢; rw [c, a]
  | thrown e w' =>
    rw [hm] at a; simp only [Res.world] at a
    have c := h2 w' d
    simp only []
    cases hf : fin w' with
    | ok u w'' => rw [hf] at c; simp only [Res.world] at c ⊢; rw [c, a]
    | thrown e' w'' => rw [hf] at c; simp only [Res.world] at c ⊢; rw [c, a]

theorem AllocKept.ite {c : Prop} [Decidable c] {m n : M α β} (h1 : AllocKept m) (h2 : AllocKept n) : AllocKept (if c then m else n) := by
  split <;> assumption

theorem AllocKept.tick (on : Bool) (e : Exc) : AllocKept (tick on e : M α Unit) := by
  intro w d; unfold SvModel.tick
  cases on
  · rfl
  · match w.faults with
    | [] => rfl
    | 0 :: _ => rfl
    | (_+1) :: _ => rfl

theorem AllocKept.getV (c : Nat) : AllocKept (getV c : M α Vec) := fun _ _ => rfl
/-- a header update that does not touch the allocator field -/
theorem AllocKept.modV (c : Nat) (f : Vec → Vec) (hf : ∀ v, (f v).alloc = v.alloc) : AllocKept (modV c f : M α Unit) := by
  intro w d
  show ((upd w.hdr c (f (w.hdr c))) d).alloc = _
  by_cases h : d = c
  · subst h; simp [hf]
  · simp [upd, h]
theorem AllocKept.setSize (c n : Nat) : AllocKept (setSize c n : M α Unit) := AllocKept.modV _ _ (fun _ => rfl)
theorem AllocKept.setDataPtr (c n : Nat) : AllocKept (setDataPtr c n : M α Unit) := AllocKept.modV _ _ (fun _ => rfl)
theorem AllocKept.setCapacity (c n : Nat) : AllocKept (setCapacity c n : M α Unit) := AllocKept.modV _ _ (fun _ => rfl)
theorem AllocKept.setData (c a b n : Nat) : AllocKept (setData c a b n : M α Unit) := AllocKept.modV _ _ (fun _ => rfl)
theorem AllocKept.setToInlineStorage (c : Nat) : AllocKept (setToInlineStorage c : M α Unit) := AllocKept.modV _ _ (fun _ => rfl)
theorem AllocKept.setDefault (c : Nat) : AllocKept (setDefault c : M α Unit) :=
  AllocKept.bind (AllocKept.setToInlineStorage c) (fun _ => AllocKept.setSize c 0)
theorem AllocKept.allocTemp : AllocKept (allocTemp : M α Nat) := fun _ _ => rfl
theorem AllocKept.readSlot (b i : Nat) : AllocKept (readSlot b i : M α (Val α)) := by
  intro w d; unfold SvModel.readSlot; split <;> rfl
theorem AllocKept.putObj (c : Cfg) (b i : Nat) (v : Val α) (e : Ev) : AllocKept (putObj c b i v e : M α Unit) := by
  intro w d; unfold SvModel.putObj; split <;> rfl
theorem AllocKept.setObj (c : Cfg) (b i : Nat) (v : Val α) (e : Ev) : AllocKept (setObj c b i v e : M α Unit) := by
  intro w d; unfold SvModel.setObj; split <;> rfl
theorem AllocKept.huskSlot (c : Cfg) (b i : Nat) : AllocKept (huskSlot c b i : M α Unit) := by
  intro w d; unfold SvModel.huskSlot
  split
  · split <;> rfl
  · rfl
theorem AllocKept.destroyAt (c : Cfg) (b i : Nat) : AllocKept (destroyAt c b i : M α Unit) := by
  intro w d; unfold SvModel.destroyAt; split <;> rfl
theorem AllocKept.deallocate (a b n : Nat) : AllocKept (deallocate a b n : M α Unit) := by
  intro w d; unfold SvModel.deallocate; split <;> rfl
theorem AllocKept.allocate (c : Cfg) (a n : Nat) : AllocKept (allocate c a n : M α Nat) := by
  unfold SvModel.allocate
  exact AllocKept.bind (AllocKept.tick _ _) (fun _ => fun _ _ => rfl)

theorem AllocKept.constructSrc (c : Cfg) (b i : Nat) (s : Src α) : AllocKept (constructSrc c b i s) := by
  cases s <;> unfold SvModel.constructSrc
  · exact AllocKept.bind (AllocKept.tick _ _) (fun _ => AllocKept.putObj _ _ _ _ _)
  · exact AllocKept.bind (AllocKept.tick _ _) (fun _ => AllocKept.putObj _ _ _ _ _)
  · exact AllocKept.bind (AllocKept.tick _ _) (fun _ => AllocKept.bind (AllocKept.readSlot _ _) (fun _ => AllocKept.putObj _ _ _ _ _))
  · exact AllocKept.bind (AllocKept.tick _ _) (fun _ => AllocKept.bind (AllocKept.readSlot _ _) (fun _ =>
      AllocKept.bind (AllocKept.putObj _ _ _ _ _) (fun _ => AllocKept.huskSlot _ _ _)))
  · exact AllocKept.bind (AllocKept.tick _ _) (fun _ => AllocKept.putObj _ _ _ _ _)

theorem AllocKept.assignSrc (c : Cfg) (b i : Nat) (s : Src α) : AllocKept (assignSrc c b i s) := by
  cases s <;> unfold SvModel.assignSrc
  · exact AllocKept.bind (AllocKept.tick _ _) (fun _ => AllocKept.setObj _ _ _ _ _)
  · exact AllocKept.bind (AllocKept.tick _ _) (fun _ => AllocKept.setObj _ _ _ _ _)
  · exact AllocKept.bind (AllocKept.tick _ _) (fun _ => AllocKept.bind (AllocKept.readSlot _ _) (fun _ => AllocKept.setObj _ _ _ _ _))
  · exact AllocKept.bind (AllocKept.tick _ _) (fun _ => AllocKept.bind (AllocKept.readSlot _ _) (fun _ =>
      AllocKept.bind (AllocKept.setObj _ _ _ _ _) (fun _ => AllocKept.huskSlot _ _ _)))
  · exact AllocKept.bind (AllocKept.tick _ _) (fun _ => AllocKept.setObj _ _ _ _ _)

theorem AllocKept.destroyRange (c : Cfg) (b : Nat) : ∀ (n first : Nat), AllocKept (destroyRange c b first n : M α Unit)
  | 0, _ => AllocKept.pure ()
  | n+1, first => AllocKept.bind (AllocKept.destroyAt _ _ _) (fun _ => AllocKept.destroyRange c b n (first+1))

theorem AllocKept.uninitGen (c : Cfg) (b d : Nat) : ∀ (srcs : List (Src α)) (done : Nat), AllocKept (uninitGen c b d done srcs)
  | [], _ => AllocKept.pure ()
  | s :: rest, done =>
    AllocKept.bind (AllocKept.tryCatch (AllocKept.constructSrc _ _ _ s)
      (fun e => AllocKept.bind (AllocKept.destroyRange _ _ _ _) (fun _ => AllocKept.throwE e)))
      (fun _ => AllocKept.uninitGen c b d rest (done + 1))

theorem AllocKept.assignGen (c : Cfg) (b : Nat) : ∀ (srcs : List (Src α)) (d : Nat), AllocKept (assignGen c b d srcs)
  | [], _ => AllocKept.pure ()
  | s :: rest, d => AllocKept.bind (AllocKept.assignSrc _ _ _ s) (fun _ => AllocKept.assignGen c b rest (d + 1))

theorem AllocKept.swapAt (c : Cfg) (b1 i1 b2 i2 : Nat) : AllocKept (swapAt c b1 i1 b2 i2 : M α Unit) := by
  unfold SvModel.swapAt
  exact AllocKept.bind AllocKept.allocTemp (fun t => AllocKept.bind (AllocKept.constructSrc _ _ _ _) (fun _ =>
    AllocKept.finally (AllocKept.bind (AllocKept.assignSrc _ _ _ _) (fun _ => AllocKept.assignSrc _ _ _ _)) (AllocKept.destroyAt _ _ _)))

theorem AllocKept.swapRanges (c : Cfg) (b1 b2 : Nat) : ∀ (n a1 a2 : Nat), AllocKept (swapRanges c b1 a1 b2 a2 n : M α Unit)
  | 0, _, _ => AllocKept.pure ()
  | n+1, a1, a2 => AllocKept.bind (AllocKept.swapAt _ _ _ _ _) (fun _ => AllocKept.swapRanges c b1 b2 n (a1+1) (a2+1))

theorem AllocKept.wipe (cfg : Cfg) (c : Nat) : AllocKept (wipe cfg c : M α Unit) := by
  unfold SvModel.wipe
  exact AllocKept.bind (AllocKept.getV _) (fun v => AllocKept.bind (AllocKept.destroyRange _ _ _ _) (fun _ =>
    AllocKept.ite (AllocKept.deallocate _ _ _) (AllocKept.pure ())))

theorem AllocKept.resetData (cfg : Cfg) (c nb ncap n : Nat) : AllocKept (resetData cfg c nb ncap n : M α Unit) := by
  unfold SvModel.resetData
  exact AllocKept.bind (AllocKept.wipe _ _) (fun _ => AllocKept.setData _ _ _ _)

theorem AllocKept.uninitializedMove (cfg : Cfg) (strong : Bool) (sb si n db di : Nat) :
    AllocKept (uninitializedMove cfg strong sb si n db di : M α Unit) := by
  unfold SvModel.uninitializedMove; exact AllocKept.uninitGen _ _ _ _ _

theorem AllocKept.copyAssignInPlace (cfg : Cfg) (c : Nat) (v ov : Vec) (sl : Bool) : AllocKept (copyAssignInPlace cfg c v ov sl : M α Unit) := by
  unfold SvModel.copyAssignInPlace
  exact AllocKept.ite (AllocKept.bind (AllocKept.assignGen _ _ _ _) (fun _ => AllocKept.uninitGen _ _ _ _ _))
    (AllocKept.bind (AllocKept.assignGen _ _ _ _) (fun _ => AllocKept.destroyRange _ _ _ _))

theorem AllocKept.moveAssignInPlace (cfg : Cfg) (c : Nat) (v ov : Vec) (sl : Bool) : AllocKept (moveAssignInPlace cfg c v ov sl : M α Unit) := by
  unfold SvModel.moveAssignInPlace
  exact AllocKept.ite (AllocKept.bind (AllocKept.assignGen _ _ _ _) (fun _ => AllocKept.uninitializedMove _ _ _ _ _ _ _))
    (AllocKept.bind (AllocKept.assignGen _ _ _ _) (fun _ => AllocKept.destroyRange _ _ _ _))

theorem AllocKept.moveAllocationPointer (cfg : Cfg) (c o : Nat) : AllocKept (moveAllocationPointer cfg c o : M α Unit) := by
  unfold SvModel.moveAllocationPointer
  exact AllocKept.bind (AllocKept.getV _) (fun _ => AllocKept.bind (AllocKept.resetData _ _ _ _ _) (fun _ => AllocKept.setDefault _))

theorem AllocKept.swapSize (c o : Nat) : AllocKept (swapSize c o : M α Unit) := by
  unfold SvModel.swapSize
  exact AllocKept.bind (AllocKept.getV _) (fun _ => AllocKept.bind (AllocKept.getV _) (fun _ => AllocKept.bind (AllocKept.setSize _ _) (fun _ => AllocKept.setSize _ _)))

theorem AllocKept.swapAllocation (c o : Nat) : AllocKept (swapAllocation c o : M α Unit) := by
  unfold SvModel.swapAllocation
  exact AllocKept.bind (AllocKept.getV _) (fun _ => AllocKept.bind (AllocKept.getV _) (fun _ => AllocKept.bind (AllocKept.setData _ _ _ _) (fun _ => AllocKept.setData _ _ _ _)))

theorem AllocKept.swapElements (cfg : Cfg) (c o : Nat) : AllocKept (swapElements cfg c o : M α Unit) := by
  unfold SvModel.swapElements
  exact AllocKept.bind (AllocKept.getV _) (fun _ => AllocKept.bind (AllocKept.getV _) (fun _ =>
    AllocKept.bind (AllocKept.swapRanges _ _ _ _ _ _) (fun _ => AllocKept.bind (AllocKept.uninitializedMove _ _ _ _ _ _ _) (fun _ =>
      AllocKept.bind (AllocKept.destroyRange _ _ _ _) (fun _ => AllocKept.swapSize _ _)))))

end SvModel
