/-
Copy assignment, PROPAGATING allocator that is not equal to the destination's (`copy_assign` with
propagate_on_container_copy_assignment, hpp:2882-2960): the destination must not keep a block of its old allocator, so
  * a source that does not fit in the in-object buffer is copied into a block obtained from the SOURCE's allocator;
  * otherwise a heap destination copies into its in-object buffer and releases its block;
  * otherwise (inline destination) the copy happens in place;
and the destination takes over the source's allocator.  Only the destination changes (one `Basic` step).
-/
import SvModel.Proofs.CopyAssign
import SvModel.Proofs.ToInline
import SvModel.Proofs.Capacity

namespace SvModel
open Gen
variable {α : Type}

/-- the copy into a new block of the source's allocator -/
theorem copyAssignRealloc_sat (cfg : Cfg) (c : Nat) (srcs : List (Src α)) (w : World α) (Al : Nat)
    (hv : VecOK cfg w c) (hl : Ledger w) (hext : Foreign cfg w c srcs)
    (hN : (w.hdr c).N < srcs.length) (hmax : srcs.length ≤ cfg.maxSize) :
    ((allocate cfg Al srcs.length >>= fun nb =>
      tryCatch (uninitGen cfg nb 0 0 srcs) (fun ex => deallocate Al nb srcs.length >>= fun _ => throwE ex) >>= fun _ =>
      resetData cfg c nb srcs.length srcs.length >>= fun _ => setAlloc c Al) w).sat
      (fun _ w' => Basic cfg w w' c ∧ Holds w' c (srcs.map (srcVal w)) ∧ (w'.hdr c).alloc = Al)
      (fun _ w' => Strong w w') := by
  obtain ⟨hnd, hni⟩ := hv.next_ne hl
  refine sat_bind (allocate_sat cfg Al srcs.length w) (fun nb w2 h2 => ?_) (fun e w2 h => Strong.of_quiet hl h.2)
  obtain ⟨hnb, hm2, ho2, hlv2, hn2, hh2, ht2, hu2⟩ := h2
  subst hnb
  obtain ⟨hb2, hraw2, hoth2⟩ := BuiltA.of_alloc (c := c) Al hv hl hm2 ho2 hlv2 hn2 hh2 ht2 hu2
  have hag2 : ∀ s ∈ srcs, ∀ b i, s.loc = some (b, i) → (w2.mem b)[i]? = (w.mem b)[i]? := fun s hs b i hl' => by
    rw [hoth2 b (by have := (hext.apart s hs b i hl').2.2; omega)]
  have hfill := uninitGen_nonmoving_sat cfg w.next 0 srcs 0 w2 hext.nonmoving (hext.live_of hag2) (fun j h => by omega)
    (fun k hk => hraw2 _ (by omega))
  refine sat_bind (sat_tryCatch (Q := fun _ w3 => BuiltA cfg w w3 c srcs.length Al ∧
      (∀ k (h : k < srcs.length), (w3.mem w.next)[k]? = some (.obj (srcVal w srcs[k]))))
      (E := fun _ w' => Strong w w')
      (Res.sat_mono hfill ?_ (fun _ _ h => h)) ?_) ?_ (fun _ _ h => h)
  · intro _ w3 ⟨hc3, hv3, hrest3⟩
    have hb3 : BuiltA cfg w w3 c srcs.length Al := hb2.step hc3
      (fun i hi => isObj_of_eq (hrest3 _ i (by intro ⟨h, _, _⟩; exact hnd h.symm)) (hb2.objs i hi))
      (fun b i hb' _ => hrest3 b i (by intro ⟨h, _, _⟩; exact hb' h))
    refine ⟨hb3, ?_⟩
    intro k hk
    have := hv3 k hk
    simp only [Nat.zero_add] at this
    rw [this, hext.srcVal_of hag2 _ (List.getElem_mem hk)]
  · intro e w3 ⟨_, hc3, hr3, hrest3⟩
    have hb3 : BuiltA cfg w w3 c srcs.length Al := hb2.step hc3
      (fun i hi => isObj_of_eq (hrest3 _ i (by intro ⟨h, _, _⟩; exact hnd h.symm)) (hb2.objs i hi))
      (fun b i hb' _ => hrest3 b i (by intro ⟨h, _, _⟩; exact hb' h))
    obtain ⟨w6, hd, hs6⟩ := abort_realloc_alloc hv hl hb3
      (fun i _ => by rw [hrest3 _ i (by intro ⟨h, _, _⟩; exact hnd h.symm), hoth2 _ (Ne.symm hnd)])
      (fun i hi => by
        by_cases h : 0 ≤ i ∧ i < 0 + 0 + srcs.length
        · exact hr3 i h.1 h.2
        · exact isRaw_of_eq (hrest3 _ i (by intro ⟨_, h1, h2⟩; exact h ⟨h1, h2⟩)) (hraw2 i hi))
    rw [bind_run, hd]
    exact hs6
  · intro _ w3 ⟨hb3, hnew3⟩
    have hfin := finish_realloc_alloc (n' := srcs.length) hv hl hb3 hN hmax (Nat.le_refl _)
      (fun i hi => ⟨_, hnew3 i hi⟩) (fun i h1 h2 => by omega)
    refine Res.sat_mono hfin ?_ (fun _ _ h => h.elim)
    intro _ w' ⟨hvec, hled, hframe, hub, hhc, hmemn, hnext⟩
    refine ⟨⟨hvec, hled, hub, hframe⟩, ⟨by rw [hhc]; simp, ?_⟩, by rw [hhc]⟩
    intro i hi
    rw [hhc]; simp only []
    have hi' : i < srcs.length := by simpa using hi
    rw [hmemn, hnew3 i hi']
    simp

theorem M_bind_assoc' {β γ δ : Type} (m : M α β) (g : β → M α γ) (f : γ → M α δ) : (m >>= g) >>= f = m >>= fun b => g b >>= f :=
  funext (bind_assoc_run m g f)

/-- the common tail of every "heap → in-object buffer" assignment: the new contents are already in the in-object buffer
    (world `w1`, which differs from the base world `wb` only there); destroy the old elements, release the old block,
    switch the header -/
theorem toInline_tail (cfg : Cfg) (c : Nat) (wb w1 : World α) (n' a' : Nat) (hvb : VecOK cfg wb c) (hlb : Ledger wb)
    (hheap : (wb.hdr c).N < (wb.hdr c).cap) (hn : n' ≤ (wb.hdr c).N) (hc1 : Ctl wb w1)
    (hcd1 : ∀ i : Nat, (w1.mem (wb.hdr c).data)[i]? = (wb.mem (wb.hdr c).data)[i]?)
    (hobj1 : ∀ i, i < n' → IsObj w1 (wb.hdr c).inl i) (hraw1 : ∀ i, n' ≤ i → i < (wb.hdr c).N → IsRaw w1 (wb.hdr c).inl i)
    (hoth1 : ∀ (b i : Nat), b ≠ (wb.hdr c).data → b ≠ (wb.hdr c).inl → (w1.mem b)[i]? = (wb.mem b)[i]?) :
    ((destroyRange cfg (wb.hdr c).data 0 (wb.hdr c).size >>= fun _ =>
      deallocate (wb.hdr c).alloc (wb.hdr c).data (wb.hdr c).cap >>= fun _ =>
      setDataPtr c (wb.hdr c).inl >>= fun _ => setCapacity c (wb.hdr c).N >>= fun _ =>
      setSize c n' >>= fun _ => setAlloc c a') w1).sat
      (fun _ w' => Basic cfg wb w' c ∧
          w'.hdr c = { wb.hdr c with data := (wb.hdr c).inl, cap := (wb.hdr c).N, size := n', alloc := a' } ∧
          ∀ i : Nat, (w'.mem (wb.hdr c).inl)[i]? = (w1.mem (wb.hdr c).inl)[i]?)
      (fun _ _ => False) := by
  have hne : (wb.hdr c).data ≠ (wb.hdr c).inl := (hvb.heap_iff).mp hheap
  obtain ⟨hlive, hown⟩ := hvb.heap hne
  generalize hcd : (wb.hdr c).data = cd at *
  generalize hci : (wb.hdr c).inl = ci at *
  have hds := destroyRange_sat cfg cd (wb.hdr c).size 0 w1 (fun i _ y => isObj_of_eq (hcd1 i) (by rw [← hcd]; exact hvb.objs i (by omega)))
  rw [bind_run]
  cases h2 : destroyRange cfg cd 0 (wb.hdr c).size w1 with
  | thrown e w2 => exact (sat_of_thrown hds h2).elim
  | ok u2 w2 =>
    obtain ⟨hc12, hr2, hrest2⟩ := sat_of_ok hds h2
    try simp only []
    have hc2 : Ctl wb w2 := hc1.trans hc12
    have hraw2 : ∀ i, i < (wb.hdr c).cap → IsRaw w2 cd i := by
      intro i hi'
      by_cases h : i < (wb.hdr c).size
      · exact hr2 i (Nat.zero_le _) (by omega)
      · refine isRaw_of_eq ((hrest2 _ i (by intro ⟨_, _, h3⟩; omega)).trans (hcd1 i)) ?_
        rw [← hcd]; exact hvb.raws i (by omega) hi'
    rw [bind_run, deallocate_run _ _ _ w2 (by rw [hc2.live]; exact hlive) (by rw [hc2.len, ← hcd, hvb.len]) hraw2 (by rw [hc2.owner]; exact hown)]
    simp only []
    generalize hw3 : ({ w2 with mem := upd w2.mem cd [], live := w2.live.erase cd,
                                trace := w2.trace ++ [.dealloc cd (wb.hdr c).cap (wb.hdr c).alloc] } : World α) = w3
    have hh3 : w3.hdr = wb.hdr := by subst hw3; exact hc2.hdr
    have htail : (setDataPtr c ci >>= fun _ => setCapacity c (wb.hdr c).N >>= fun _ => setSize c n' >>= fun _ => setAlloc c a') w3 =
        .ok () { w3 with hdr := upd wb.hdr c { wb.hdr c with data := ci, cap := (wb.hdr c).N, size := n', alloc := a' } } := by
      show Res.ok () _ = Res.ok () _
      congr 1
      apply world_hdr_ext
      intro x
      rw [hh3]
      by_cases hx : x = c
      · subst hx; simp
      · simp [upd_other _ _ _ _ hx]
    rw [htail]
    generalize hw4 : ({ w3 with hdr := upd wb.hdr c { wb.hdr c with data := ci, cap := (wb.hdr c).N, size := n', alloc := a' } } : World α) = w4
    have hmem4 : ∀ b, b ≠ cd → w4.mem b = w2.mem b := by
      intro b hb; subst hw4; subst hw3; show upd w2.mem _ [] b = _; rw [upd_other _ _ _ _ hb]
    have hmem4d : w4.mem cd = [] := by subst hw4; subst hw3; show upd w2.mem _ [] _ = _; simp
    have hinl4 : ∀ i : Nat, (w4.mem ci)[i]? = (w1.mem ci)[i]? := by
      intro i; rw [hmem4 _ (Ne.symm hne)]
      exact hrest2 _ i (by intro ⟨h', _, _⟩; exact hne h'.symm)
    have hres := toinline_ok cfg (w := wb) (w' := w4) (n' := n') a' hvb hlb hheap hn
      (by subst hw4; show upd wb.hdr c _ = upd wb.hdr c _; congr 1; simp [hci])
      (by subst hw4; subst hw3; exact hc2.next)
      (by subst hw4; subst hw3; exact hc2.ntmp)
      (by subst hw4; subst hw3; show w2.live.erase cd = wb.live.erase (wb.hdr c).data; rw [hc2.live, hcd])
      (by subst hw4; subst hw3; exact hc2.owner)
      (by intro b hb; rw [hmem4 b (by rw [← hcd]; exact hb), hc2.len])
      (by
        show ∀ i, i < n' → IsObj w4 (wb.hdr c).inl i
        rw [hci]; intro i hi'
        exact isObj_of_eq (hinl4 i) (hobj1 i hi'))
      (by
        show ∀ i, n' ≤ i → i < (wb.hdr c).N → IsRaw w4 (wb.hdr c).inl i
        rw [hci]; intro i x y
        exact isRaw_of_eq (hinl4 i) (hraw1 i x y))
      (by show w4.mem (wb.hdr c).data = []; rw [hcd]; exact hmem4d)
      (by
        intro b hb1' hb2'
        have hbcd : b ≠ cd := by rw [← hcd]; exact hb1'
        have hbci : b ≠ ci := by rw [← hci]; exact hb2'
        rw [hmem4 b hbcd]
        exact mem_eq_of_slots (hc2.len b) (fun i => (hrest2 b i (by intro ⟨z, _⟩; exact hbcd z)).trans (hoth1 b i hbcd hbci)))
    obtain ⟨hvec, hled, hframe⟩ := hres
    have hub4 : w4.ub = wb.ub := by subst hw4; subst hw3; exact hc2.ub
    exact ⟨⟨hvec, hled, hub4, hframe⟩, by subst hw4; simp, hinl4⟩

/-- the copy into the in-object buffer of a heap destination -/
theorem copyAssignToInline_sat (cfg : Cfg) (c : Nat) (srcs : List (Src α)) (w : World α) (a' : Nat)
    (hv : VecOK cfg w c) (hl : Ledger w) (hext : Foreign cfg w c srcs)
    (hheap : (w.hdr c).N < (w.hdr c).cap) (hfit : srcs.length ≤ (w.hdr c).N) :
    (((uninitGen cfg (w.hdr c).inl 0 0 srcs >>= fun _ =>
        destroyRange cfg (w.hdr c).data 0 (w.hdr c).size >>= fun _ =>
        deallocate (w.hdr c).alloc (w.hdr c).data (w.hdr c).cap >>= fun _ =>
        setDataPtr c (w.hdr c).inl >>= fun _ => setCapacity c (w.hdr c).N) >>= fun _ =>
      setSize c srcs.length >>= fun _ => setAlloc c a') w).sat
      (fun _ w' => Basic cfg w w' c ∧ Holds w' c (srcs.map (srcVal w)) ∧ (w'.hdr c).alloc = a')
      (fun _ w' => Strong w w') := by
  have hne : (w.hdr c).data ≠ (w.hdr c).inl := (hv.heap_iff).mp hheap
  obtain ⟨hilen, hiraw⟩ := hv.idle hne
  simp only [M_bind_assoc']
  have hfill := uninitGen_nonmoving_sat cfg (w.hdr c).inl 0 srcs 0 w hext.nonmoving hext.live (fun j h => by omega)
    (fun k hk => by simpa using hiraw k (by omega))
  refine sat_bind hfill (fun _ w1 ⟨hc1, hv1, hrest1⟩ => ?_) (fun e w1 ⟨_, hc1, hr1, hrest1⟩ => ?_)
  · have hnotinl : ∀ s ∈ srcs, ∀ b i, s.loc = some (b, i) → (w1.mem b)[i]? = (w.mem b)[i]? := fun s hs b i hl' =>
      hrest1 b i (by intro ⟨h, _⟩; exact (hext.apart s hs b i hl').2.1 h)
    have htl := toInline_tail cfg c w w1 srcs.length a' hv hl hheap hfit hc1
      (fun i => hrest1 _ i (by intro ⟨h, _⟩; exact hne h))
      (fun i hi' => ⟨_, by have := hv1 i hi'; simpa using this⟩)
      (fun i x y => isRaw_of_eq (hrest1 _ i (by intro ⟨_, _, z⟩; omega)) (hiraw i y))
      (fun b i _ hb2 => hrest1 b i (by intro ⟨h, _⟩; exact hb2 h))
    refine Res.sat_mono htl ?_ (fun _ _ h => h.elim)
    intro _ w' ⟨hb, hhc, hinl⟩
    refine ⟨hb, ⟨by rw [hhc]; simp, ?_⟩, by rw [hhc]⟩
    intro i hi'
    rw [hhc]; simp only []
    have hi'' : i < srcs.length := by simpa using hi'
    have := hv1 i hi''
    simp only [Nat.zero_add] at this
    rw [hinl i, this]
    simp
  · refine Strong.of_slots hl hc1 (fun b i => ?_)
    by_cases h : b = (w.hdr c).inl ∧ 0 ≤ i ∧ i < 0 + 0 + srcs.length
    · obtain ⟨hb, h1, h2⟩ := h
      have r1 := hr1 i h1 h2
      have r0 := hiraw i (by omega)
      rw [hb]; unfold IsRaw at r1 r0; rw [r1, r0]
    · exact hrest1 b i h

/-- replacing the allocator of a container that owns no block (or by an equal one) after an operation on it -/
theorem Basic.setAlloc {cfg : Cfg} {w w' : World α} {c : Nat} (hb : Basic cfg w w' c) (a' : Nat)
    (hin : (w'.hdr c).data = (w'.hdr c).inl ∨ a' = (w'.hdr c).alloc) :
    Basic cfg w ({ w' with hdr := upd w'.hdr c { w'.hdr c with alloc := a' } } : World α) c := by
  generalize hw2 : ({ w' with hdr := upd w'.hdr c { w'.hdr c with alloc := a' } } : World α) = w2
  have hhc : w2.hdr c = { w'.hdr c with alloc := a' } := by subst hw2; simp
  have hhd : ∀ d, d ≠ c → w2.hdr d = w'.hdr d := by intro d hd; subst hw2; show (upd w'.hdr c _) d = _; rw [upd_other _ _ _ _ hd]
  have hmem : w2.mem = w'.mem := by subst hw2; rfl
  have hv := hb.vec
  have hf := hb.frame
  refine ⟨?_, ?_, by subst hw2; exact hb.ub, ?_⟩
  · exact
      { size_le := by rw [hhc]; exact hv.size_le
        cap_ge := by rw [hhc]; exact hv.cap_ge
        cap_max := by rw [hhc]; exact hv.cap_max
        inl_iff := by rw [hhc]; exact hv.inl_iff
        inl_lt := by rw [hhc]; exact hv.inl_lt
        len := by rw [hhc, hmem]; exact hv.len
        objs := by rw [hhc]; intro i hi; unfold IsObj; rw [hmem]; exact hv.objs i hi
        raws := by rw [hhc]; intro i h1 h2; unfold IsRaw; rw [hmem]; exact hv.raws i h1 h2
        heap := by
          rw [hhc]; intro hne
          rcases hin with h | h
          · exact absurd h hne
          · have := hv.heap hne
            subst hw2; exact ⟨this.1, by rw [h]; exact this.2⟩
        idle := by
          rw [hhc]; intro hne
          obtain ⟨h1, h2⟩ := hv.idle hne
          exact ⟨by rw [hmem]; exact h1, fun i hi => by unfold IsRaw; rw [hmem]; exact h2 i hi⟩ }
  · have hl := hb.led
    subst hw2
    exact ⟨hl.next_ok, hl.ntmp_ok, hl.live_ok, hl.nodup, hl.freed, hl.tmpfresh⟩
  · refine ⟨fun d hd => by rw [hhd d hd]; exact hf.hdr_other d hd, by rw [hhc]; exact hf.hdr_N, by rw [hhc]; exact hf.hdr_inl,
            fun b h1 h2 h3 h4 => by rw [hmem]; exact hf.mem_other b h1 h2 h3 h4, fun b hb' => by subst hw2; exact hf.owner_old b hb',
            by subst hw2; exact hf.next_mono, by rw [hhc]; exact hf.data_new, ?_⟩
    refine ⟨fun b hb' => ?_, fun b hb' => ?_⟩
    · have := hf.live.old b hb'
      rw [hhc]; subst hw2; exact this
    · have := hf.live.fresh b hb'
      rw [hhc]; subst hw2; exact this

/-- COPY ASSIGNMENT, propagating allocator not equal to the destination's -/
theorem copyAssignProp_sat (cfg : Cfg) (c o : Nat) (w : World α)
    (hv : VecOK cfg w c) (hl : Ledger w) (hNmax : (w.hdr c).N ≤ cfg.maxSize)
    (hvo : VecOK cfg w o) (hNo : (w.hdr o).N ≤ cfg.maxSize)
    (hfor : Foreign cfg w c (srcsCopy (w.hdr o).data 0 (w.hdr o).size))
    (hprop : copyAssignPropagating cfg.policy = true) (hneq : (w.hdr o).alloc ≠ (w.hdr c).alloc) :
    (copyAssign cfg c o w).sat
      (fun _ w' => Basic cfg w w' c ∧ Holds w' c ((srcsCopy (w.hdr o).data 0 (w.hdr o).size).map (srcVal w)) ∧
                   (w'.hdr c).alloc = (w.hdr o).alloc)
      (fun _ w' => Basic cfg w w' c) := by
  have hsz : (w.hdr o).size ≤ cfg.maxSize := Nat.le_trans hvo.size_le (hvo.cap_le_max hNo)
  have hpo : cfg.policy.pocca = true := by
    unfold copyAssignPropagating at hprop; simp only [Bool.and_eq_true] at hprop; exact hprop.1
  have hmc : maybeCopy cfg.policy (w.hdr c).alloc (w.hdr o).alloc = (w.hdr o).alloc := by unfold maybeCopy; simp [hpo]
  unfold copyAssign
  rw [hprop]; simp only [Bool.not_true, Bool.false_eq_true, if_false]
  rw [bind_run, getV_run]; simp only []
  rw [bind_run, getV_run]; simp only []
  have e0 : guard_copyAssign0_0 (genv2 cfg (w.hdr c) (w.hdr o)) = ((w.hdr o).alloc == (w.hdr c).alloc) := rfl
  have e1 : guard_copyAssign0_1 (genv2 cfg (w.hdr c) (w.hdr o)) = decide ((w.hdr c).N < (w.hdr o).size) := rfl
  have e2 : guard_copyAssign0_2 (genv2 cfg (w.hdr c) (w.hdr o)) = decide ((w.hdr c).N < (w.hdr c).cap) := by
    unfold guard_copyAssign0_2 hasAllocation genv2 genv; simp only [Bool.false_eq_true, if_false]
  have e3 : guard_copyAssign0_3 (genv2 cfg (w.hdr c) (w.hdr o)) = decide ((w.hdr c).size < (w.hdr o).size) := rfl
  rw [e0, e1, e2, e3, hmc, if_neg (by simpa using hneq)]
  have hlen : (srcsCopy (w.hdr o).data 0 (w.hdr o).size : List (Src α)).length = (w.hdr o).size := srcsCopy_length _ _ _
  by_cases hbig : (w.hdr c).N < (w.hdr o).size
  · rw [if_pos (decide_eq_true hbig)]
    have := copyAssignRealloc_sat cfg c (srcsCopy (w.hdr o).data 0 (w.hdr o).size) w (w.hdr o).alloc hv hl hfor (by rw [hlen]; exact hbig) (by rw [hlen]; exact hsz)
    rw [hlen] at this
    exact Res.sat_mono this (fun _ _ h => h) (fun _ w' h => h.basic hl hv)
  · rw [if_neg (by simpa using hbig)]
    by_cases hch : (w.hdr c).N < (w.hdr c).cap
    · rw [if_pos (decide_eq_true hch)]
      have := copyAssignToInline_sat cfg c (srcsCopy (w.hdr o).data 0 (w.hdr o).size) w (w.hdr o).alloc hv hl hfor hch (by rw [hlen]; omega)
      rw [hlen] at this
      exact Res.sat_mono this (fun _ _ h => h) (fun _ w' h => h.basic hl hv)
    · rw [if_neg (by simpa using hch)]
      have hcin : (w.hdr c).data = (w.hdr c).inl := (hv.inl_iff).mp (by have := hv.cap_ge; omega)
      have hcapN : (w.hdr c).cap = (w.hdr c).N := (hv.inl_iff).mpr hcin
      rw [← bind_assoc_run, bind_run, copyInPlace_eq cfg c o w (by omega)]
      have h := assignWithRangeFwd_foreign_sat cfg c _ w hv hl hNmax hfor
      cases hr : assignWithRangeFwd cfg c (srcsCopy (w.hdr o).data 0 (w.hdr o).size) w with
      | thrown e w1 => rw [hr] at h; exact h.1.1
      | ok u w1 =>
        rw [hr] at h
        simp only []
        have hkept := h.inplace (by rw [List.length_map, hlen]; omega)
        have hin1 : (w1.hdr c).data = (w1.hdr c).inl := by
          rw [hkept.1, h.basic.frame.hdr_inl]; exact hcin
        show Basic cfg w ({ w1 with hdr := upd w1.hdr c { w1.hdr c with alloc := (w.hdr o).alloc } } : World α) c ∧ _
        refine ⟨h.basic.setAlloc _ (Or.inl hin1), ⟨by simpa using h.holds.1, fun i hi => ?_⟩, by simp⟩
        have := h.holds.2 i hi
        simpa using this

end SvModel
