/-
C18 (b), CONDITIONAL noexcept: the internal functions whose `noexcept` depends on the element type
(`noexcept (is_nothrow_move_constructible …)`: uninitialized_move, move_initialize<LessEqualI>, move_assign_default<LessEqualI>,
swap_elements, swap_default) have no throwing path in the model WHEN THEIR CONDITION HOLDS — for every world and fault
list.  (In particular none of them calls the allocator's `allocate`: that fault point does not depend on the element type.)
`NoThrow m`: every run of `m` returns.  A small combinator calculus, then the functions.
-/
import SvModel.Ops
import SvModel.Proofs.Hoare
import SvModel.Proofs.Kernel
import SvModel.Proofs.RangeSpec

namespace SvModel
open Gen
variable {α β γ : Type}

theorem NoThrow.pure' (b : β) : NoThrow (pure b : M α β) := fun w => ⟨b, w, rfl⟩

theorem NoThrow.bind' {m : M α β} {f : β → M α γ} (h1 : NoThrow m) (h2 : ∀ b, NoThrow (f b)) : NoThrow (m >>= f) := by
  intro w
  obtain ⟨b, w1, e1⟩ := h1 w
  obtain ⟨r, w2, e2⟩ := h2 b w1
  exact ⟨r, w2, by rw [bind_run, e1]; exact e2⟩

theorem NoThrow.ite' {c : Prop} [Decidable c] {m n : M α β} (h1 : NoThrow m) (h2 : NoThrow n) : NoThrow (if c then m else n) := by
  split <;> assumption

theorem NoThrow.tryCatch' {m : M α β} (h : Exc → M α β) (h1 : NoThrow m) : NoThrow (SvModel.tryCatch m h) := by
  intro w
  obtain ⟨b, w1, e1⟩ := h1 w
  exact ⟨b, w1, by rw [tryCatch_run, e1]⟩

theorem NoThrow.finally' {m : M α β} {fin : M α Unit} (h1 : NoThrow m) (h2 : NoThrow fin) : NoThrow (finally_ m fin) := by
  intro w
  obtain ⟨b, w1, e1⟩ := h1 w
  obtain ⟨u, w2, e2⟩ := h2 w1
  exact ⟨b, w2, by rw [finally_run, e1]; simp only []; rw [e2]⟩

theorem tick_off_nothrow (e : Exc) : NoThrow (tick false e : M α Unit) := fun w => ⟨(), w, rfl⟩
theorem getV_nothrow (c : Nat) : NoThrow (getV c : M α Vec) := fun w => ⟨_, w, rfl⟩
theorem modV_nothrow (c : Nat) (f : Vec → Vec) : NoThrow (modV c f : M α Unit) := fun _ => ⟨(), _, rfl⟩
theorem allocTemp_nothrow : NoThrow (allocTemp : M α Nat) := fun _ => ⟨_, _, rfl⟩
theorem readSlot_nothrow (b i : Nat) : NoThrow (readSlot b i : M α (Val α)) := by
  intro w; unfold readSlot; split <;> exact ⟨_, _, rfl⟩
theorem putObj_nothrow (c : Cfg) (b i : Nat) (v : Val α) (e : Ev) : NoThrow (putObj c b i v e : M α Unit) := by
  intro w; unfold putObj; split <;> exact ⟨_, _, rfl⟩
theorem setObj_nothrow (c : Cfg) (b i : Nat) (v : Val α) (e : Ev) : NoThrow (setObj c b i v e : M α Unit) := by
  intro w; unfold setObj; split <;> exact ⟨_, _, rfl⟩
theorem huskSlot_nothrow (c : Cfg) (b i : Nat) : NoThrow (huskSlot c b i : M α Unit) := by
  intro w; unfold huskSlot; split
  · split <;> exact ⟨_, _, rfl⟩
  · exact ⟨_, _, rfl⟩
theorem destroyAt_nothrow' (c : Cfg) (b i : Nat) : NoThrow (destroyAt c b i : M α Unit) := by
  intro w; unfold destroyAt; split <;> exact ⟨_, _, rfl⟩

/-- move construction from a slot when the move constructor cannot throw -/
theorem constructMove_nothrow (c : Cfg) (h : c.tMove = false) (b i sb si : Nat) : NoThrow (constructSrc c b i (.moveOf sb si : Src α)) := by
  unfold constructSrc
  rw [h]
  exact NoThrow.bind' (tick_off_nothrow _) (fun _ => NoThrow.bind' (readSlot_nothrow _ _) (fun _ =>
    NoThrow.bind' (putObj_nothrow _ _ _ _ _) (fun _ => huskSlot_nothrow _ _ _)))

/-- move assignment from a slot when move assignment cannot throw -/
theorem assignMove_nothrow (c : Cfg) (h : c.tMasg = false) (b i sb si : Nat) : NoThrow (assignSrc c b i (.moveOf sb si : Src α)) := by
  unfold assignSrc
  rw [h]
  exact NoThrow.bind' (tick_off_nothrow _) (fun _ => NoThrow.bind' (readSlot_nothrow _ _) (fun _ =>
    NoThrow.bind' (setObj_nothrow _ _ _ _ _) (fun _ => huskSlot_nothrow _ _ _)))

theorem uninitGen_move_nothrow (c : Cfg) (h : c.tMove = false) (b d sb : Nat) :
    ∀ (n si done : Nat), NoThrow (uninitGen c b d done (srcsMove sb si n : List (Src α)))
  | 0, _, _ => by simp only [srcsMove, List.range_zero, List.map_nil]; exact NoThrow.pure' ()
  | n+1, si, done => by
    rw [srcsMove_succ]
    unfold uninitGen
    exact NoThrow.bind' (NoThrow.tryCatch' _ (constructMove_nothrow c h _ _ _ _)) (fun _ => uninitGen_move_nothrow c h b d sb n (si + 1) (done + 1))

/-- uninitialized_move (noexcept (is_nothrow_move_constructible)): no throwing path for a nothrow-movable element type -/
theorem uninitializedMove_nothrow (cfg : Cfg) (h : cfg.tMove = false) (sb si n db di : Nat) :
    NoThrow (uninitializedMove cfg false sb si n db di : M α Unit) := by
  have e : (uninitializedMove cfg false sb si n db di : M α Unit) = uninitGen cfg db di 0 (srcsMove sb si n) := by
    unfold uninitializedMove; simp
  rw [e]
  exact uninitGen_move_nothrow cfg h db di sb n si 0

theorem assignGen_move_nothrow (c : Cfg) (h : c.tMasg = false) (b sb : Nat) :
    ∀ (n si d : Nat), NoThrow (assignGen c b d (srcsMove sb si n : List (Src α)))
  | 0, _, _ => by simp only [srcsMove, List.range_zero, List.map_nil]; exact NoThrow.pure' ()
  | n+1, si, d => by
    rw [srcsMove_succ]
    unfold assignGen
    exact NoThrow.bind' (assignMove_nothrow c h _ _ _ _) (fun _ => assignGen_move_nothrow c h b sb n (si + 1) (d + 1))

/-- std::swap of two elements -/
theorem swapAt_nothrow (c : Cfg) (h1 : c.tMove = false) (h2 : c.tMasg = false) (b1 i1 b2 i2 : Nat) : NoThrow (swapAt c b1 i1 b2 i2 : M α Unit) := by
  unfold swapAt
  exact NoThrow.bind' allocTemp_nothrow (fun t => NoThrow.bind' (constructMove_nothrow c h1 _ _ _ _) (fun _ =>
    NoThrow.finally' (NoThrow.bind' (assignMove_nothrow c h2 _ _ _ _) (fun _ => assignMove_nothrow c h2 _ _ _ _)) (destroyAt_nothrow' _ _ _)))

theorem swapRanges_nothrow (c : Cfg) (h1 : c.tMove = false) (h2 : c.tMasg = false) (b1 b2 : Nat) :
    ∀ (n a1 a2 : Nat), NoThrow (swapRanges c b1 a1 b2 a2 n : M α Unit)
  | 0, _, _ => NoThrow.pure' ()
  | n+1, a1, a2 => NoThrow.bind' (swapAt_nothrow c h1 h2 _ _ _ _) (fun _ => swapRanges_nothrow c h1 h2 b1 b2 n (a1 + 1) (a2 + 1))

theorem swapSize_nothrow (c o : Nat) : NoThrow (swapSize c o : M α Unit) := by
  unfold swapSize SvModel.setSize
  exact NoThrow.bind' (getV_nothrow _) (fun _ => NoThrow.bind' (getV_nothrow _) (fun _ => NoThrow.bind' (modV_nothrow _ _) (fun _ => modV_nothrow _ _)))

/-- swap_elements (noexcept (nothrow move constructible && nothrow swappable)) -/
theorem swapElements_nothrow (cfg : Cfg) (h1 : cfg.tMove = false) (h2 : cfg.tMasg = false) (c o : Nat) : NoThrow (swapElements cfg c o : M α Unit) := by
  unfold swapElements
  exact NoThrow.bind' (getV_nothrow _) (fun v => NoThrow.bind' (getV_nothrow _) (fun ov =>
    NoThrow.bind' (swapRanges_nothrow cfg h1 h2 _ _ _ _ _) (fun _ => NoThrow.bind' (uninitializedMove_nothrow cfg h1 _ _ _ _ _) (fun _ =>
      NoThrow.bind' (destroyRange_nothrow _ _ _ _) (fun _ => swapSize_nothrow _ _)))))

theorem swapAllocation_nothrow' (c o : Nat) : NoThrow (swapAllocation c o : M α Unit) := fun _ => ⟨_, _, rfl⟩
theorem maybeSwapAlloc_nothrow (cfg : Cfg) (c o : Nat) : NoThrow (maybeSwapAlloc cfg c o : M α Unit) := fun _ => ⟨_, _, rfl⟩

/-- swap_default (conditional noexcept): header exchange, inline ↔ heap hand-over or element-wise swap — never `allocate` -/
theorem swapDefault_nothrow (cfg : Cfg) (h1 : cfg.tMove = false) (h2 : cfg.tMasg = false) (c o : Nat) : NoThrow (swapDefault cfg c o : M α Unit) := by
  unfold swapDefault SvModel.setDataPtr SvModel.setCapacity
  refine NoThrow.bind' (getV_nothrow _) (fun v => NoThrow.bind' (getV_nothrow _) (fun ov => NoThrow.bind' ?_ (fun _ => maybeSwapAlloc_nothrow _ _ _)))
  refine NoThrow.ite' (swapAllocation_nothrow' _ _) (NoThrow.ite' ?_ (NoThrow.ite' (swapElements_nothrow cfg h1 h2 _ _) (swapElements_nothrow cfg h1 h2 _ _)))
  exact NoThrow.bind' (uninitializedMove_nothrow cfg h1 _ _ _ _ _) (fun _ => NoThrow.bind' (destroyRange_nothrow _ _ _ _) (fun _ =>
    NoThrow.bind' (modV_nothrow _ _) (fun _ => NoThrow.bind' (modV_nothrow _ _) (fun _ => NoThrow.bind' (modV_nothrow _ _) (fun _ =>
      NoThrow.bind' (modV_nothrow _ _) (fun _ => swapSize_nothrow _ _))))))

theorem setDefault_nothrow (c : Nat) : NoThrow (setDefault c : M α Unit) := by
  unfold setDefault setToInlineStorage SvModel.setSize
  exact NoThrow.bind' (modV_nothrow _ _) (fun _ => modV_nothrow _ _)

theorem wipe_nothrow' (cfg : Cfg) (c : Nat) : NoThrow (wipe cfg c : M α Unit) := by
  unfold wipe
  exact NoThrow.bind' (getV_nothrow _) (fun v => NoThrow.bind' (destroyRange_nothrow _ _ _ _) (fun _ =>
    NoThrow.ite' (deallocate_nothrow _ _ _) (NoThrow.pure' ())))

theorem moveAllocationPointer_nothrow' (cfg : Cfg) (c o : Nat) : NoThrow (moveAllocationPointer cfg c o : M α Unit) := by
  unfold moveAllocationPointer resetData SvModel.setData
  exact NoThrow.bind' (getV_nothrow _) (fun ov => NoThrow.bind' (NoThrow.bind' (wipe_nothrow' _ _) (fun _ => modV_nothrow _ _)) (fun _ => setDefault_nothrow _))

/-- move_initialize, the overload for a source whose inline capacity is not larger (`noexcept (is_nothrow_move_constructible)`):
    steal the buffer or move the elements into the in-object buffer — no allocation, no throwing path -/
theorem moveInitialize_le_nothrow (cfg : Cfg) (h : cfg.tMove = false) (c o : Nat) (w : World α) (hle : (w.hdr o).N ≤ (w.hdr c).N) :
    ∃ b w', moveInitialize cfg c o w = .ok b w' := by
  unfold moveInitialize
  rw [bind_run, getV_run]; simp only []
  rw [bind_run, getV_run]; simp only []
  have steal : NoThrow (SvModel.setData c (w.hdr o).data (w.hdr o).cap (w.hdr o).size >>= fun _ => setDefault o : M α Unit) := by
    unfold SvModel.setData; exact NoThrow.bind' (modV_nothrow _ _) (fun _ => setDefault_nothrow _)
  have inl : NoThrow (setToInlineStorage c >>= fun _ =>
      uninitializedMove cfg false (w.hdr o).data 0 (w.hdr o).size (w.hdr c).inl 0 >>= fun _ => SvModel.setSize c (w.hdr o).size : M α Unit) := by
    unfold setToInlineStorage SvModel.setSize
    exact NoThrow.bind' (modV_nothrow _ _) (fun _ => NoThrow.bind' (uninitializedMove_nothrow cfg h _ _ _ _ _) (fun _ => modV_nothrow _ _))
  by_cases h0 : (w.hdr c).N = 0 ∧ (w.hdr o).N = 0
  · rw [if_pos h0]; exact steal w
  · rw [if_neg h0, if_pos hle]; exact (NoThrow.ite' steal inl) w

/-- move_assign_default, the overload for a source whose inline capacity is not larger
    (`noexcept (nothrow move assignable && nothrow move constructible)`) -/
theorem moveAssignDefault_le_nothrow (cfg : Cfg) (h1 : cfg.tMove = false) (h2 : cfg.tMasg = false) (c o : Nat) (w : World α)
    (hle : (w.hdr o).N ≤ (w.hdr c).N) : ∃ b w', moveAssignDefault cfg c o w = .ok b w' := by
  unfold moveAssignDefault
  rw [bind_run, getV_run]; simp only []
  rw [bind_run, getV_run]; simp only []
  have inplace : ∀ sl, NoThrow (moveAssignInPlace cfg c (w.hdr c) (w.hdr o) sl : M α Unit) := by
    intro sl
    unfold moveAssignInPlace
    exact NoThrow.ite' (NoThrow.bind' (assignGen_move_nothrow cfg h2 _ _ _ _ _) (fun _ => uninitializedMove_nothrow cfg h1 _ _ _ _ _))
      (NoThrow.bind' (assignGen_move_nothrow cfg h2 _ _ _ _ _) (fun _ => destroyRange_nothrow _ _ _ _))
  have body : NoThrow ((if (w.hdr c).N = 0 ∧ (w.hdr o).N = 0 then moveAllocationPointer cfg c o
      else if (w.hdr o).N ≤ (w.hdr c).N then
        if guard_moveAssignDefault1_0 (genv2 cfg (w.hdr c) (w.hdr o)) = true then moveAllocationPointer cfg c o
        else
          (if guard_moveAssignDefault1_1 (genv2 cfg (w.hdr c) (w.hdr o)) = true then
            uninitializedMove cfg false (w.hdr o).data 0 (w.hdr o).size (w.hdr c).inl 0 >>= fun _ =>
            destroyRange cfg (w.hdr c).data 0 (w.hdr c).size >>= fun _ =>
            deallocate (w.hdr c).alloc (w.hdr c).data (w.hdr c).cap >>= fun _ =>
            SvModel.setDataPtr c (w.hdr c).inl >>= fun _ => SvModel.setCapacity c (w.hdr c).N
          else moveAssignInPlace cfg c (w.hdr c) (w.hdr o) (guard_moveAssignDefault1_2 (genv2 cfg (w.hdr c) (w.hdr o)))) >>= fun _ =>
          SvModel.setSize c (w.hdr o).size
      else
        if guard_moveAssignDefault2_0 (genv2 cfg (w.hdr c) (w.hdr o)) = true then moveAllocationPointer cfg c o
        else if guard_moveAssignDefault2_1 (genv2 cfg (w.hdr c) (w.hdr o)) = true then
          allocate cfg (w.hdr o).alloc (if (w.hdr c).cap < (w.hdr o).size then newCapacity cfg.maxSize (w.hdr c).cap (w.hdr o).size else (w.hdr c).cap) >>= fun nb =>
          SvModel.tryCatch (uninitializedMove cfg false (w.hdr o).data 0 (w.hdr o).size nb 0)
            (fun ex => deallocate (w.hdr o).alloc nb (if (w.hdr c).cap < (w.hdr o).size then newCapacity cfg.maxSize (w.hdr c).cap (w.hdr o).size else (w.hdr c).cap) >>= fun _ => throwE ex) >>= fun _ =>
          resetData cfg c nb (if (w.hdr c).cap < (w.hdr o).size then newCapacity cfg.maxSize (w.hdr c).cap (w.hdr o).size else (w.hdr c).cap) (w.hdr o).size
        else
          moveAssignInPlace cfg c (w.hdr c) (w.hdr o) (guard_moveAssignDefault2_2 (genv2 cfg (w.hdr c) (w.hdr o))) >>= fun _ => SvModel.setSize c (w.hdr o).size) : M α Unit) := by
    by_cases h0 : (w.hdr c).N = 0 ∧ (w.hdr o).N = 0
    · rw [if_pos h0]; exact moveAllocationPointer_nothrow' _ _ _
    · rw [if_neg h0, if_pos hle]
      refine NoThrow.ite' (moveAllocationPointer_nothrow' _ _ _) (NoThrow.bind' (NoThrow.ite' ?_ (inplace _)) (fun _ => by unfold SvModel.setSize; exact modV_nothrow _ _))
      unfold SvModel.setDataPtr SvModel.setCapacity
      exact NoThrow.bind' (uninitializedMove_nothrow cfg h1 _ _ _ _ _) (fun _ => NoThrow.bind' (destroyRange_nothrow _ _ _ _) (fun _ =>
        NoThrow.bind' (deallocate_nothrow _ _ _) (fun _ => NoThrow.bind' (modV_nothrow _ _) (fun _ => modV_nothrow _ _))))
  have := NoThrow.bind' body (fun _ => (by unfold SvModel.setAlloc; exact modV_nothrow _ _ : NoThrow (SvModel.setAlloc c (maybeMove cfg.policy (w.hdr c).alloc (w.hdr o).alloc) : M α Unit)))
  exact this w

end SvModel
