/-
swap, element-wise (`swap_elements`, hpp:4416-): the two containers exchange their contents slot by slot through a
temporary, the longer one's tail is move-constructed into the shorter one's buffer and destroyed, the sizes are exchanged.

Both containers change.  As for the element-wise move assignment the outcome is factorised through a fictitious
intermediate world `mid w w' o no` in which only `o` has its final state (block contents and size), so that the system
invariant follows from two applications of `SysOK.step`.
-/
import SvModel.Proofs.SwapSpec
import SvModel.Proofs.MoveAssign

namespace SvModel
open Gen
variable {α : Type}

/-- `w` with `o`'s buffer and size taken from the final world -/
def mid (w w' : World α) (o no : Nat) : World α :=
  { w with mem := upd w.mem (w.hdr o).data (w'.mem (w.hdr o).data), hdr := upd w.hdr o { w.hdr o with size := no } }

/-- two containers changed in place (contents and sizes): the change factorises into a change of `o` followed by a change of `c` -/
theorem two_inplace (cfg : Cfg) {w w' : World α} {c o nc no : Nat} (hv : VecOK cfg w c) (hvo : VecOK cfg w o) (hl : Ledger w) (hco : c ≠ o)
    (hd : (w.hdr o).data ≠ (w.hdr c).data) (hi : (w.hdr o).data ≠ (w.hdr c).inl)
    (hc : Ctl0 w w')
    (hh : w'.hdr = upd (upd w.hdr o { w.hdr o with size := no }) c { w.hdr c with size := nc })
    (hnc : nc ≤ (w.hdr c).cap) (hno : no ≤ (w.hdr o).cap)
    (hcobj : ∀ i, i < nc → IsObj w' (w.hdr c).data i) (hcraw : ∀ i, nc ≤ i → i < (w.hdr c).cap → IsRaw w' (w.hdr c).data i)
    (hoobj : ∀ i, i < no → IsObj w' (w.hdr o).data i) (horaw : ∀ i, no ≤ i → i < (w.hdr o).cap → IsRaw w' (w.hdr o).data i)
    (hother : ∀ (b i : Nat), b ≠ (w.hdr c).data → b ≠ (w.hdr o).data → (b % 2 = 1 ∨ b < 5) → (w'.mem b)[i]? = (w.mem b)[i]?) :
    Basic cfg w (mid w w' o no) o ∧ Basic cfg (mid w w' o no) w' c := by
  have hcls_o : (w.hdr o).data % 2 = 1 ∨ (w.hdr o).data < 6 := by
    by_cases hne : (w.hdr o).data = (w.hdr o).inl
    · right; rw [hne]; have := hvo.inl_lt; omega
    · left; exact (hvo.data_odd hl hne).2.1
  have hmb : (mid w w' o no).mem (w.hdr o).data = w'.mem (w.hdr o).data := by simp [mid]
  have hmo : ∀ b, b ≠ (w.hdr o).data → (mid w w' o no).mem b = w.mem b := fun b h => by simp [mid, upd_other _ _ _ _ h]
  have hc1 : Ctl0 w (mid w w' o no) := by
    refine ⟨rfl, rfl, rfl, rfl, ⟨Nat.le_refl _, rfl⟩, fun b _ => ?_⟩
    by_cases hb : b = (w.hdr o).data
    · rw [hb, hmb]; exact hc.len _ (by rcases hcls_o with h | h; exact Or.inl h; exact Or.inr (Or.inl h))
    · rw [hmo b hb]
  obtain ⟨a1, a2, a3⟩ := inplace_ok cfg (w' := mid w w' o no) (n' := no) hvo hl hc1 rfl hno
    (fun i hi' => by unfold IsObj; rw [hmb]; exact hoobj i hi')
    (fun i x y => by unfold IsRaw; rw [hmb]; exact horaw i x y)
    (fun b i hb _ => by rw [hmo b hb])
  have hb1 : Basic cfg w (mid w w' o no) o := ⟨a1, a2, rfl, a3⟩
  refine ⟨hb1, ?_⟩
  have hmc : (mid w w' o no).hdr c = w.hdr c := by show (upd w.hdr o _) c = _; rw [upd_other _ _ _ _ hco]
  have hvh : VecOK cfg (mid w w' o no) c := by
    refine hv.transfer hmc (by rw [hmo _ (Ne.symm hd)]) ?_ ?_ (fun hne => hv.heap hne) ?_
    · intro i hi'; unfold IsObj; rw [hmo _ (Ne.symm hd)]; exact hv.objs i hi'
    · intro i h1 h2; unfold IsRaw; rw [hmo _ (Ne.symm hd)]; exact hv.raws i h1 h2
    · intro hne
      obtain ⟨h1, h2⟩ := hv.idle hne
      exact ⟨by rw [hmo _ (Ne.symm hi)]; exact h1, fun i hi' => by unfold IsRaw; rw [hmo _ (Ne.symm hi)]; exact h2 i hi'⟩
  have hc' : Ctl0 (mid w w' o no) w' := by
    refine ⟨hc.owner, hc.live, hc.next, hc.ub, hc.ntmp, fun b hb => ?_⟩
    by_cases hbo : b = (w.hdr o).data
    · rw [hbo, hmb]
    · rw [hmo b hbo]; exact hc.len b hb
  have hh' : w'.hdr = upd (mid w w' o no).hdr c { (mid w w' o no).hdr c with size := nc } := by
    rw [hh, hmc]; rfl
  obtain ⟨h1, h2, h3⟩ := inplace_ok cfg (n' := nc) hvh hb1.led hc' hh' (by rw [hmc]; exact hnc)
    (fun i hi' => by rw [hmc]; exact hcobj i hi')
    (fun i x y => by rw [hmc] at y ⊢; exact hcraw i x y)
    (fun b i hb hcl => by
      rw [hmc] at hb
      by_cases hbo : b = (w.hdr o).data
      · rw [hbo, hmb]
      · rw [hmo b hbo]; exact hother b i hb hbo hcl)
  exact ⟨h1, h2, hc.ub, h3⟩

theorem swapSize_run (c o : Nat) (hoc : o ≠ c) (w : World α) :
    swapSize c o w = .ok () { w with hdr := upd (upd w.hdr c { w.hdr c with size := (w.hdr o).size }) o { w.hdr o with size := (w.hdr c).size } } := by
  have : swapSize c o w = .ok () { w with hdr := upd (upd w.hdr c { w.hdr c with size := (w.hdr o).size }) o { ((upd w.hdr c { w.hdr c with size := (w.hdr o).size }) o) with size := (w.hdr c).size } } := rfl
  rw [this, upd_other _ _ _ _ hoc]

/-- `swap_elements (c, o)` with `size c ≤ size o ≤ capacity c`, buffers distinct -/
theorem swapElements_sat (cfg : Cfg) (c o : Nat) (w : World α)
    (hv : VecOK cfg w c) (hl : Ledger w) (hvo : VecOK cfg w o) (hco : c ≠ o)
    (hle : (w.hdr c).size ≤ (w.hdr o).size) (hfit : (w.hdr o).size ≤ (w.hdr c).cap)
    (hd : (w.hdr o).data ≠ (w.hdr c).data) (hi : (w.hdr o).data ≠ (w.hdr c).inl) :
    (swapElements cfg c o w).sat
      (fun _ w' => Basic cfg w (mid w w' o (w.hdr c).size) o ∧ Basic cfg (mid w w' o (w.hdr c).size) w' c ∧
          w'.hdr c = { w.hdr c with size := (w.hdr o).size } ∧ w'.hdr o = { w.hdr o with size := (w.hdr c).size } ∧
          (∀ k, k < (w.hdr o).size → (w'.mem (w.hdr c).data)[k]? = (w.mem (w.hdr o).data)[k]?) ∧
          (∀ k, k < (w.hdr c).size → (w'.mem (w.hdr o).data)[k]? = (w.mem (w.hdr c).data)[k]?) ∧
          w'.live = w.live ∧ w'.next = w.next)
      (fun e w' => e = .elem ∧ Basic cfg w (mid w w' o (w.hdr o).size) o ∧ Basic cfg (mid w w' o (w.hdr o).size) w' c ∧
          w'.hdr = w.hdr ∧ w'.live = w.live ∧ w'.next = w.next) := by
  have hoc : o ≠ c := fun e => hco e.symm
  have hcls_c : (w.hdr c).data < w.ntmp ∨ (w.hdr c).data % 2 = 1 := by
    by_cases hne : (w.hdr c).data = (w.hdr c).inl
    · left; rw [hne]; have := hv.inl_lt; have := hl.ntmp_ok.2; omega
    · right; exact (hv.data_odd hl hne).2.1
  have hcls_o : (w.hdr o).data < w.ntmp ∨ (w.hdr o).data % 2 = 1 := by
    by_cases hne : (w.hdr o).data = (w.hdr o).inl
    · left; rw [hne]; have := hvo.inl_lt; have := hl.ntmp_ok.2; omega
    · right; exact (hvo.data_odd hl hne).2.1
  have hcap_o : (w.hdr o).size ≤ (w.hdr o).cap := hvo.size_le
  have hcap_c : (w.hdr c).size ≤ (w.hdr c).cap := hv.size_le
  have hcapraw : ∀ i, (w.hdr c).size ≤ i → i < (w.hdr c).cap → IsRaw w (w.hdr c).data i := hv.raws
  have horaw0 : ∀ i, (w.hdr o).size ≤ i → i < (w.hdr o).cap → IsRaw w (w.hdr o).data i := hvo.raws
  generalize hcd : (w.hdr c).data = cd at *
  generalize hod : (w.hdr o).data = od at *
  generalize hcs : (w.hdr c).size = cs at *
  generalize hos : (w.hdr o).size = os at *
  have hcobj : ∀ i, i < cs → IsObj w cd i := fun i hi' => by rw [← hcd]; exact hv.objs i (by rw [hcs]; exact hi')
  have hoobj : ∀ i, i < os → IsObj w od i := fun i hi' => by rw [← hod]; exact hvo.objs i (by rw [hos]; exact hi')
  have hself : upd (upd w.hdr o { w.hdr o with size := os }) c { w.hdr c with size := cs } = w.hdr := by
    rw [← hos, ← hcs]
    have e1 : ({ w.hdr o with size := (w.hdr o).size } : Vec) = w.hdr o := rfl
    have e2 : ({ w.hdr c with size := (w.hdr c).size } : Vec) = w.hdr c := rfl
    rw [e1, e2, upd_self, upd_self]
  -- a failed step: sizes unchanged, both buffers still made of objects below their sizes
  have failed : ∀ (w' : World α), Ctl0 w w' → w'.hdr = w.hdr →
      (∀ i, i < cs → IsObj w' cd i) → (∀ i, cs ≤ i → i < (w.hdr c).cap → IsRaw w' cd i) →
      (∀ i, i < os → IsObj w' od i) → (∀ i, os ≤ i → (w'.mem od)[i]? = (w.mem od)[i]?) →
      (∀ (b i : Nat), b ≠ cd → b ≠ od → (b % 2 = 1 ∨ b < 5) → (w'.mem b)[i]? = (w.mem b)[i]?) →
      Basic cfg w (mid w w' o os) o ∧ Basic cfg (mid w w' o os) w' c := by
    intro w' hc hh a1 a2 a3 a4 a5
    have := two_inplace cfg (w' := w') (nc := cs) (no := os) hv hvo hl hco (by rw [hod, hcd]; exact hd) (by rw [hod]; exact hi) hc
      (by rw [hh]; exact hself.symm) hcap_c hcap_o (by rw [hcd]; exact a1) (by rw [hcd]; exact a2) (by rw [hod]; exact a3)
      (by rw [hod]; intro i x y; exact isRaw_of_eq (a4 i x) (horaw0 i x y)) (by rw [hcd, hod]; exact a5)
    exact this
  unfold swapElements
  rw [bind_run, getV_run]; simp only []
  rw [bind_run, getV_run]; simp only []
  simp only [hcd, hod, hcs, hos]
  have hsw := swapRanges_sat cfg cd od (Ne.symm hd) cs 0 0 w hl.ntmp_ok hl.tmpfresh hcls_c hcls_o
    (fun k hk => by simpa using hcobj k hk) (fun k hk => by simpa using hoobj k (by omega))
  rw [bind_run]
  cases h1 : swapRanges cfg cd 0 od 0 cs w with
  | thrown e w1 =>
    obtain ⟨he, hf, ho1, ho2⟩ := sat_of_thrown hsw h1
    try simp only []
    have hrest := hf.rest
    obtain ⟨b1, b2⟩ := failed w1 hf.ctl hf.hdr (fun i hi' => by simpa using ho1 i hi')
      (fun i x y => isRaw_of_eq (hrest cd i hcls_c (by intro h; rcases h with ⟨_, _, h⟩ | ⟨h, _, _⟩; omega; exact hd h.symm)) (hcapraw i x y))
      (fun i hi' => by
        by_cases h : i < cs
        · simpa using ho2 i h
        · exact isObj_of_eq (hrest od i hcls_o (by intro h'; rcases h' with ⟨h', _, _⟩ | ⟨_, _, h'⟩; exact hd h'; omega)) (hoobj i hi'))
      (fun i hi' => hrest od i hcls_o (by intro h'; rcases h' with ⟨h', _, _⟩ | ⟨_, _, h'⟩; exact hd h'; omega))
      (fun b i x y z => hrest b i (by rcases z with z | z; exact Or.inr z; left; have := hl.ntmp_ok.2; omega)
        (by intro h'; rcases h' with ⟨h', _, _⟩ | ⟨h', _, _⟩; exact x h'; exact y h'))
    exact ⟨he, b1, b2, hf.hdr, hf.ctl.live, hf.ctl.next⟩
  | ok u1 w1 =>
    obtain ⟨hf, hx1, hy1⟩ := sat_of_ok hsw h1
    try simp only []
    have hrest := hf.rest
    have hkeep_c : ∀ i, cs ≤ i → (w1.mem cd)[i]? = (w.mem cd)[i]? := fun i x =>
      hrest cd i hcls_c (by intro h; rcases h with ⟨_, _, h⟩ | ⟨h, _, _⟩; omega; exact hd h.symm)
    have hkeep_o : ∀ i, cs ≤ i → (w1.mem od)[i]? = (w.mem od)[i]? := fun i x =>
      hrest od i hcls_o (by intro h'; rcases h' with ⟨h', _, _⟩ | ⟨_, _, h'⟩; exact hd h'; omega)
    have hkeep_b : ∀ (b i : Nat), b ≠ cd → b ≠ od → (b % 2 = 1 ∨ b < 5) → (w1.mem b)[i]? = (w.mem b)[i]? := fun b i x y z =>
      hrest b i (by rcases z with z | z; exact Or.inr z; left; have := hl.ntmp_ok.2; omega)
        (by intro h'; rcases h' with ⟨h', _, _⟩ | ⟨h', _, _⟩; exact x h'; exact y h')
    have hpre_c : ∀ i, i < cs → IsObj w1 cd i := fun i hi' => by
      obtain ⟨v, hv'⟩ := hoobj i (by omega); have := hx1 i hi'; simp only [Nat.zero_add] at this; exact ⟨v, by rw [this]; exact hv'⟩
    have hpre_o : ∀ i, i < cs → IsObj w1 od i := fun i hi' => by
      obtain ⟨v, hv'⟩ := hcobj i hi'; have := hy1 i hi'; simp only [Nat.zero_add] at this; exact ⟨v, by rw [this]; exact hv'⟩
    have hmv := uninitializedMove_sat cfg false od cs (os - cs) cd cs w1
      (fun k hk => isObj_of_eq (hkeep_o (cs + k) (by omega)) (hoobj (cs + k) (by omega)))
      (fun k hk => isRaw_of_eq (hkeep_c (cs + k) (by omega)) (hcapraw (cs + k) (by omega) (by omega)))
    rw [bind_run]
    cases h2 : uninitializedMove cfg false od cs (os - cs) cd cs w1 with
    | thrown e w2 =>
      obtain ⟨he, hf2⟩ := sat_of_thrown hmv h2
      try simp only []
      have hc2 : Ctl0 w w2 := hf.ctl.trans hf2.ctl.to0
      obtain ⟨b1, b2⟩ := failed w2 hc2 (by rw [hf2.ctl.hdr, hf.hdr])
        (fun i hi' => isObj_of_eq (hf2.rest cd i (by intro ⟨_, h, _⟩; omega) (by intro ⟨h, _, _⟩; exact hd h.symm)) (hpre_c i hi'))
        (fun i x y => by
          by_cases h : i < os
          · have := hf2.dst (i - cs) (by omega); rw [show cs + (i - cs) = i by omega] at this; exact this
          · exact isRaw_of_eq ((hf2.rest cd i (by intro ⟨_, _, h'⟩; omega) (by intro ⟨h', _, _⟩; exact hd h'.symm)).trans (hkeep_c i x)) (hcapraw i x y))
        (fun i hi' => by
          by_cases h : i < cs
          · exact isObj_of_eq (hf2.rest od i (by intro ⟨h', _, _⟩; exact hd h') (by intro ⟨_, h', _⟩; omega)) (hpre_o i h)
          · have := hf2.src (i - cs) (by omega); rw [show cs + (i - cs) = i by omega] at this; exact this)
        (fun i x => (hf2.rest od i (by intro ⟨h', _, _⟩; exact hd h') (by intro ⟨_, _, h'⟩; omega)).trans (hkeep_o i (by omega)))
        (fun b i x y z => (hf2.rest b i (by intro ⟨h', _, _⟩; exact x h') (by intro ⟨h', _, _⟩; exact y h')).trans (hkeep_b b i x y z))
      exact ⟨he, b1, b2, by rw [hf2.ctl.hdr, hf.hdr], hc2.live, hc2.next⟩
    | ok u2 w2 =>
      have hr := sat_of_ok hmv h2
      try simp only []
      have hds := destroyRange_sat cfg od (os - cs) cs w2 (fun i x y => by
        have := hr.src (i - cs) (by omega); rw [show cs + (i - cs) = i by omega] at this; exact this)
      rw [bind_run]
      cases h3 : destroyRange cfg od cs (os - cs) w2 with
      | thrown e w3 => exact (sat_of_thrown hds h3).elim
      | ok u3 w3 =>
        obtain ⟨hc23, hraw3, hrest3⟩ := sat_of_ok hds h3
        try simp only []
        have hc3 : Ctl0 w w3 := (hf.ctl.trans hr.ctl.to0).trans hc23.to0
        have hh3 : w3.hdr = w.hdr := by rw [hc23.hdr, hr.ctl.hdr, hf.hdr]
        rw [swapSize_run c o hoc]
        generalize hw4 : ({ w3 with hdr := upd (upd w3.hdr c { w3.hdr c with size := (w3.hdr o).size }) o { w3.hdr o with size := (w3.hdr c).size } } : World α) = w4
        have hm4 : w4.mem = w3.mem := by subst hw4; rfl
        have hc4 : Ctl0 w w4 := by subst hw4; exact ⟨hc3.owner, hc3.live, hc3.next, hc3.ub, hc3.ntmp, hc3.len⟩
        have hh4 : w4.hdr = upd (upd w.hdr o { w.hdr o with size := cs }) c { w.hdr c with size := os } := by
          subst hw4
          show upd (upd w3.hdr c _) o _ = _
          rw [hh3, hos, hcs]
          funext x
          by_cases hxc : x = c
          · subst hxc; simp [upd_other _ _ _ _ hco]
          · by_cases hxo : x = o
            · subst hxo; simp [upd_other _ _ _ _ hxc]
            · simp [upd_other _ _ _ _ hxc, upd_other _ _ _ _ hxo]
        have hval_c : ∀ k, k < os → (w4.mem cd)[k]? = (w.mem od)[k]? := by
          intro k hk
          rw [hm4, hrest3 cd k (by intro ⟨h, _, _⟩; exact hd h.symm)]
          by_cases h : k < cs
          · rw [hr.rest cd k (by intro ⟨_, h', _⟩; omega) (by intro ⟨h', _, _⟩; exact hd h'.symm)]
            have := hx1 k h; simpa using this
          · have := hr.dst (k - cs) (by omega)
            rw [show cs + (k - cs) = k by omega] at this
            rw [this]; exact hkeep_o k (by omega)
        have hval_o : ∀ k, k < cs → (w4.mem od)[k]? = (w.mem cd)[k]? := by
          intro k hk
          rw [hm4, hrest3 od k (by intro ⟨_, h, _⟩; omega), hr.rest od k (by intro ⟨h', _, _⟩; exact hd h') (by intro ⟨_, h', _⟩; omega)]
          have := hy1 k hk; simpa using this
        have := two_inplace cfg (w' := w4) (nc := os) (no := cs) hv hvo hl hco (by rw [hod, hcd]; exact hd) (by rw [hod]; exact hi) hc4
          hh4 hfit (Nat.le_trans hle hcap_o)
          (by rw [hcd]; intro i hi'; obtain ⟨v, hv'⟩ := hoobj i hi'; exact ⟨v, by rw [hval_c i hi']; exact hv'⟩)
          (by
            rw [hcd]; intro i x y
            unfold IsRaw; rw [hm4, hrest3 cd i (by intro ⟨h, _, _⟩; exact hd h.symm),
              hr.rest cd i (by intro ⟨_, _, h'⟩; omega) (by intro ⟨h', _, _⟩; exact hd h'.symm), hkeep_c i (by omega)]
            exact hcapraw i (by omega) y)
          (by rw [hod]; intro i hi'; obtain ⟨v, hv'⟩ := hcobj i hi'; exact ⟨v, by rw [hval_o i hi']; exact hv'⟩)
          (by
            rw [hod]; intro i x y
            unfold IsRaw; rw [hm4]
            by_cases h : i < os
            · exact hraw3 i x (by omega)
            · rw [hrest3 od i (by intro ⟨_, _, h'⟩; omega), hr.rest od i (by intro ⟨h', _, _⟩; exact hd h') (by intro ⟨_, _, h'⟩; omega), hkeep_o i x]
              exact horaw0 i (by omega) y)
          (by
            rw [hcd, hod]; intro b i x y z
            rw [hm4, hrest3 b i (by intro ⟨h, _, _⟩; exact y h), hr.rest b i (by intro ⟨h', _, _⟩; exact x h') (by intro ⟨h', _, _⟩; exact y h')]
            exact hkeep_b b i x y z)
        refine ⟨this.1, this.2, by rw [hh4]; simp [hcd], by rw [hh4, upd_other _ _ _ _ hoc]; simp [hod], hval_c, hval_o, hc4.live, hc4.next⟩

end SvModel
