/-
`append (small_vector&&)` in its MOVING mode (the element type relocates by move: nothrow move constructor, or not
copyable): `append_range` over move iterators of ANOTHER container's elements.  Both containers change: the destination
gains the values, the source's elements become moved-from (and are destroyed by the `clear ()` that follows).

As for the element-wise move assignment the outcome is factorised through a fictitious intermediate world in which only
the source's block has changed (`husked`, `mid`), so that two applications of `SysOK.step` give the system invariant.
-/
import SvModel.Proofs.AppendN
import SvModel.Proofs.MoveAssign
import SvModel.Proofs.Swap
import SvModel.Proofs.MoveCtor

namespace SvModel
open Gen
variable {α : Type}

/-- success: the source changed first (its elements are moved-from), then the destination -/
def MoveAppended (cfg : Cfg) (w w' : World α) (c o : Nat) : Prop :=
  ∃ wh, Basic cfg w wh o ∧ Basic cfg wh w' c ∧
    (∀ xs ys, Holds w c xs → Holds w o ys → Holds w' c (xs ++ ys))

/-- does a relocation under the given policy have a fault point at all? (moves when it moves, copies otherwise) -/
def canThrow (cfg : Cfg) (strong : Bool) : Bool := if movesFor cfg strong then cfg.tMove else (cfg.tCopy || cfg.tMove)

/-- failure: the allocator threw before anything was touched, or an element operation threw — possible only when the
    constructor the relocation uses can throw — and both containers are valid with their headers as before -/
def MoveAppendFail (cfg : Cfg) (strong : Bool) (w w' : World α) (c o : Nat) (e : Exc) : Prop :=
  (e = .alloc ∧ Quiet w w') ∨
  (e = .elem ∧ (canThrow cfg false = true ∨ canThrow cfg strong = true) ∧ ∃ wh, Basic cfg w wh o ∧ Basic cfg wh w' c ∧ w'.hdr = w.hdr ∧ w'.live = w.live)

theorem RelocFailed.can' {cfg : Cfg} {strong : Bool} {w w' : World α} {a b n d e : Nat} (h : RelocFailed cfg strong w w' a b n d e) :
    canThrow cfg strong = true := h.can

/-- the part of the reallocating append after the new elements have been built in the new block: relocate the old
    elements, switch over; on a throw destroy the new elements and give the block back -/
theorem appendRealloc_tail (cfg : Cfg) (c : Nat) (strong : Bool) (m ncap : Nat) (vals : List (Val α)) (w w3 : World α)
    (hv : VecOK cfg w c) (hl : Ledger w) (hm : vals.length = m)
    (hN : (w.hdr c).N < ncap) (hle : ncap ≤ cfg.maxSize) (hge : (w.hdr c).size + m ≤ ncap)
    (hb3 : Built cfg w w3 c ncap)
    (hnew3 : ∀ k (h : k < vals.length), (w3.mem w.next)[(w.hdr c).size + k]? = some (.obj vals[k]))
    (hraw3 : ∀ i, i < ncap → ¬ ((w.hdr c).size ≤ i ∧ i < (w.hdr c).size + m) → IsRaw w3 w.next i)
    (hdata3 : ∀ i : Nat, (w3.mem (w.hdr c).data)[i]? = (w.mem (w.hdr c).data)[i]?) :
    ((tryCatch (uninitializedMove cfg strong (w.hdr c).data 0 (w.hdr c).size w.next 0)
        (fun e => destroyRange cfg w.next (w.hdr c).size m >>= fun _ =>
                  deallocate (w.hdr c).alloc w.next ncap >>= fun _ => throwE e) >>= fun _ =>
      resetData cfg c w.next ncap ((w.hdr c).size + m) >>= fun _ => (pure (w.hdr c).size : M α Nat)) w3).sat
      (fun r w' => r = (w.hdr c).size ∧ Basic cfg w w' c ∧ (∀ xs, Holds w c xs → Holds w' c (xs ++ vals)))
      (fun e w' => e = .elem ∧ canThrow cfg strong = true ∧ Basic cfg w w' c ∧ w'.hdr = w.hdr ∧ w'.live = w.live) := by
  obtain ⟨hnd, hni⟩ := hv.next_ne hl
  have hmv := uninitializedMove_sat cfg strong (w.hdr c).data 0 (w.hdr c).size w.next 0 w3
    (fun k hk => by simpa using hb3.objs k hk)
    (fun k hk => by simpa using hraw3 k (by omega) (by intro ⟨h, _⟩; omega))
  refine sat_bind (sat_tryCatch (Q := fun _ w4 => Built cfg w w4 c ncap ∧
      (∀ i, i < (w.hdr c).size → (w4.mem w.next)[i]? = (w.mem (w.hdr c).data)[i]?) ∧
      (∀ k (h : k < vals.length), (w4.mem w.next)[(w.hdr c).size + k]? = some (.obj vals[k])) ∧
      (∀ i, (w.hdr c).size + m ≤ i → i < ncap → IsRaw w4 w.next i))
      (E := fun e w' => e = .elem ∧ canThrow cfg strong = true ∧ Basic cfg w w' c ∧ w'.hdr = w.hdr ∧ w'.live = w.live)
      (Res.sat_mono hmv ?_ (fun _ _ h => h)) ?_) ?_ (fun _ _ h => h)
  · intro _ w4 hr
    have hb4 : Built cfg w w4 c ncap := hb3.step hr.ctl (fun i hi => by simpa using hr.src i hi)
      (fun b i hb' hn' => hr.rest b i (by intro ⟨h, _, _⟩; exact hb' h) (by intro ⟨h1, _, h3⟩; exact hn' ⟨h1, by omega⟩))
    refine ⟨hb4, ?_, ?_, ?_⟩
    · intro i hi
      have := hr.dst i hi
      simp only [Nat.zero_add] at this
      rw [this, hdata3]
    · intro k hk
      rw [hr.rest _ _ (by intro ⟨_, _, h⟩; omega) (by intro ⟨h, _, _⟩; exact hnd h)]; exact hnew3 k hk
    · intro i h1 h2
      exact isRaw_of_eq (hr.rest _ i (by intro ⟨_, _, h⟩; omega) (by intro ⟨h, _, _⟩; exact hnd h)) (hraw3 i h2 (by intro ⟨_, h⟩; omega))
  · -- relocation threw: destroy the new elements, give the block back
    intro e w4 ⟨he, hf⟩
    have hb4 : Built cfg w w4 c ncap := hb3.step hf.ctl (fun i hi => by simpa using hf.src i hi)
      (fun b i hb' hn' => hf.rest b i (by intro ⟨h, _, _⟩; exact hb' h) (by intro ⟨h1, _, h3⟩; exact hn' ⟨h1, by omega⟩))
    have hobj4 : ∀ i, (w.hdr c).size ≤ i → i < (w.hdr c).size + m → IsObj w4 w.next i := by
      intro i h1 h2
      have := hnew3 (i - (w.hdr c).size) (by omega)
      rw [show (w.hdr c).size + (i - (w.hdr c).size) = i by omega] at this
      exact ⟨_, by rw [hf.rest _ i (by intro ⟨_, _, h⟩; omega) (by intro ⟨h, _, _⟩; exact hnd h)]; exact this⟩
    refine sat_bind (destroyRange_sat cfg w.next m (w.hdr c).size w4 hobj4) (fun _ w5 h5 => ?_) (fun _ _ h => h.elim)
    obtain ⟨hc5, hr5, hrest5⟩ := h5
    have hb5 : Built cfg w w5 c ncap := hb4.step hc5
      (fun i hi => isObj_of_eq (hrest5 _ i (by intro ⟨h, _, _⟩; exact hnd h.symm)) (hb4.objs i hi))
      (fun b i hb' _ => hrest5 b i (by intro ⟨h, _, _⟩; exact hb' h))
    have hraw5 : ∀ i, i < ncap → IsRaw w5 w.next i := by
      intro i hi
      by_cases h1 : (w.hdr c).size ≤ i ∧ i < (w.hdr c).size + m
      · exact hr5 i h1.1 h1.2
      · refine isRaw_of_eq (hrest5 _ i (by intro ⟨_, a, b⟩; exact h1 ⟨a, b⟩)) ?_
        by_cases h2 : i < (w.hdr c).size
        · simpa using hf.dst i h2
        · exact isRaw_of_eq (hf.rest _ i (by intro ⟨_, _, h⟩; omega) (by intro ⟨h, _, _⟩; exact hnd h)) (hraw3 i hi h1)
    obtain ⟨w6, hd, hbs, hh6, hlv6⟩ := abort_realloc_basic hv hl hb5 hraw5
    rw [bind_run, hd]
    exact ⟨he, hf.can', hbs, hh6, hlv6⟩
  · -- reset_data
    intro _ w4 ⟨hb4, hcopy4, hnew4, hraw4⟩
    have hfin := finish_realloc (n' := (w.hdr c).size + m) hv hl hb4 hN hle hge
      (fun i hi => by
        by_cases h : i < (w.hdr c).size
        · exact isObj_of_eq (hcopy4 i h) (hv.objs i h)
        · have := hnew4 (i - (w.hdr c).size) (by omega)
          rw [show (w.hdr c).size + (i - (w.hdr c).size) = i by omega] at this
          exact ⟨_, this⟩)
      hraw4
    refine sat_bind hfin (fun _ w' h' => ?_) (fun _ _ h => h.elim)
    obtain ⟨hvec, hled, hframe, hub, hhc, hmemn, hnext⟩ := h'
    show (w.hdr c).size = (w.hdr c).size ∧ _
    refine ⟨rfl, ⟨hvec, hled, hub, hframe⟩, ?_⟩
    intro xs hx
    exact holds_append_of_slots hx rfl (by rw [hhc]; simp [hm]) (by rw [hhc])
      (fun i hi => by rw [hmemn]; exact hcopy4 i hi)
      (fun k hk => by rw [hmemn, hnew4 k hk])

/-- the values the source holds, read off its slots -/
theorem holds_vals_get {w : World α} {o : Nat} {ys : List (Val α)} (hy : Holds w o ys) (k : Nat) (hk : k < ys.length) :
    (w.mem (w.hdr o).data)[k]? = some (.obj ys[k]) := hy.2 k hk

/-- REALLOCATING append of another container's elements by move -/
theorem appendMoveRealloc_sat (cfg : Cfg) (c o : Nat) (strong : Bool) (w : World α)
    (hv : VecOK cfg w c) (hl : Ledger w) (hvo : VecOK cfg w o)
    (hgrow : (w.hdr c).cap < (w.hdr c).size + (w.hdr o).size) (hmax : (w.hdr c).size + (w.hdr o).size ≤ cfg.maxSize)
    (hd : (w.hdr o).data ≠ (w.hdr c).data) (hi : (w.hdr o).data ≠ (w.hdr c).inl) :
    (appendRealloc cfg c strong (srcsMove (w.hdr o).data 0 (w.hdr o).size) w).sat
      (fun r w' => r = (w.hdr c).size ∧ MoveAppended cfg w w' c o)
      (fun e w' => MoveAppendFail cfg strong w w' c o e) := by
  unfold appendRealloc
  rw [bind_run, getV_run]
  simp only [srcsMove_length]
  generalize hod : (w.hdr o).data = od at *
  generalize hos : (w.hdr o).size = os at *
  generalize hncap : newCapacity cfg.maxSize (w.hdr c).cap ((w.hdr c).size + os) = ncap
  obtain ⟨hge, hle⟩ : (w.hdr c).size + os ≤ ncap ∧ ncap ≤ cfg.maxSize := by
    rw [← hncap]; exact newCapacity_bounds _ _ _ hgrow hmax
  obtain ⟨hnd, hni⟩ := hv.next_ne hl
  have hN : (w.hdr c).N < ncap := by have := hv.cap_ge; omega
  have hoobj : ∀ i, i < os → IsObj w od i := fun i hi' => by rw [← hod]; exact hvo.objs i (by rw [hos]; exact hi')
  have hod_lt : od < w.next := by rw [← hod]; exact hvo.data_lt_next hl
  have hod_next : od ≠ w.next := by omega
  refine sat_bind (allocate_sat cfg (w.hdr c).alloc ncap w) (fun nb w2 h2 => ?_) (fun e w2 h => Or.inl h)
  obtain ⟨hnb, hm2, ho2, hlv2, hn2, hh2, ht2, hu2⟩ := h2
  subst hnb
  have hoth2 : ∀ b, b ≠ w.next → w2.mem b = w.mem b := fun b hb => by rw [hm2, upd_other _ _ _ _ hb]
  have hraw2 : ∀ i, i < ncap → IsRaw w2 w.next i := fun i hi' => by unfold IsRaw; rw [hm2]; simp [hi']
  have hfill := uninitializedMove_sat cfg false od 0 os w.next (w.hdr c).size w2
    (fun k hk => by unfold IsObj; rw [hoth2 od hod_next, Nat.zero_add]; exact hoobj k hk)
    (fun k hk => hraw2 _ (by omega))
  rw [uninitializedMove_false] at hfill
  -- the intermediate world (only the source's block changed) and the facts about it shared by both outcomes
  have mid : ∀ (w3 : World α), Ctl w2 w3 → (∀ k, k < os → IsObj w3 od k) →
      (∀ (b i : Nat), ¬ (b = w.next ∧ (w.hdr c).size ≤ i ∧ i < (w.hdr c).size + os) → ¬ (b = od ∧ i < os) → (w3.mem b)[i]? = (w2.mem b)[i]?) →
      Basic cfg w (husked w w3 od) o ∧ VecOK cfg (husked w w3 od) c ∧ Built cfg (husked w w3 od) w3 c ncap ∧
      (∀ i : Nat, (w3.mem (w.hdr c).data)[i]? = ((husked w w3 od).mem (w.hdr c).data)[i]?) := by
    intro w3 hc3 hsrc3 hrest3
    have hlen_od : (w3.mem od).length = (w.mem od).length := by rw [hc3.len, hoth2 od hod_next]
    have hb1 : Basic cfg w (husked w w3 od) o := by
      have := basic_husked cfg (w' := w3) hvo hl (by rw [hod]; exact hlen_od)
        (by rw [hod, hos]; exact hsrc3)
        (by rw [hod, hos]; intro i hi'; rw [hrest3 od i (by intro ⟨h, _⟩; exact hod_next h) (by intro ⟨_, h⟩; omega), hoth2 od hod_next])
      rw [hod] at this; exact this
    have hvh : VecOK cfg (husked w w3 od) c := by
      refine hv.transfer rfl (by rw [husked_mem_other _ _ _ _ (Ne.symm hd)]) ?_ ?_ (fun hne => hv.heap hne) ?_
      · intro i hi'; unfold IsObj; rw [husked_mem_other _ _ _ _ (Ne.symm hd)]; exact hv.objs i hi'
      · intro i h1 h2; unfold IsRaw; rw [husked_mem_other _ _ _ _ (Ne.symm hd)]; exact hv.raws i h1 h2
      · intro hne
        obtain ⟨h1, h2⟩ := hv.idle hne
        exact ⟨by rw [husked_mem_other _ _ _ _ (Ne.symm hi)]; exact h1, fun i hi' => by unfold IsRaw; rw [husked_mem_other _ _ _ _ (Ne.symm hi)]; exact h2 i hi'⟩
    have hsame : ∀ (b i : Nat), b ≠ w.next → (w3.mem b)[i]? = ((husked w w3 od).mem b)[i]? := by
      intro b i hb
      by_cases hbo : b = od
      · rw [hbo, husked_mem_b]
      · rw [husked_mem_other _ _ _ _ hbo, hrest3 b i (by intro ⟨h, _⟩; exact hb h) (by intro ⟨h, _⟩; exact hbo h), hoth2 b hb]
    refine ⟨hb1, hvh, ?_, fun i => hsame _ i (Ne.symm hnd)⟩
    refine ⟨hc3.hdr.trans hh2, hc3.live.trans hlv2, hc3.owner.trans ho2, hc3.next.trans hn2, hc3.ntmp.trans ht2, hc3.ub.trans hu2, ?_, ?_, ?_, ?_⟩
    · show (w3.mem w.next).length = ncap
      rw [hc3.len, hm2]; simp
    · intro b hb
      show (w3.mem b).length = ((husked w w3 od).mem b).length
      by_cases hbo : b = od
      · rw [hbo, husked_mem_b]
      · rw [husked_mem_other _ _ _ _ hbo, hc3.len, hoth2 b hb]
    · intro i hi'
      show IsObj w3 (w.hdr c).data i
      obtain ⟨v, hv'⟩ := hv.objs i hi'
      refine ⟨v, ?_⟩
      rw [hsame _ i (Ne.symm hnd), husked_mem_other _ _ _ _ (Ne.symm hd)]; exact hv'
    · intro b i hb _
      exact hsame b i hb
  rw [bind_run]
  cases h3 : uninitGen cfg w.next (w.hdr c).size 0 (srcsMove od 0 os) w2 with
  | thrown e w3 =>
    obtain ⟨he, hf⟩ := sat_of_thrown hfill h3
    obtain ⟨hb1, hvh, hbA, hcd3⟩ := mid w3 hf.ctl (fun k hk => by have := hf.src k hk; simpa using this)
      (fun b i n1 n2 => hf.rest b i n1 (by intro ⟨x, _, y⟩; exact n2 ⟨x, by omega⟩))
    obtain ⟨w6, hd6, hs6⟩ := abort_realloc (w := husked w w3 od) hvh hb1.led hbA
      (fun i _ => hcd3 i)
      (fun i hi' => by
        show IsRaw w3 w.next i
        by_cases h : (w.hdr c).size ≤ i ∧ i < (w.hdr c).size + os
        · have := hf.dst (i - (w.hdr c).size) (by omega)
          rw [show (w.hdr c).size + (i - (w.hdr c).size) = i by omega] at this; exact this
        · exact isRaw_of_eq (hf.rest _ i (by intro ⟨_, y⟩; exact h y) (by intro ⟨x, _⟩; exact hod_next x.symm)) (hraw2 i hi'))
    have hd6' : deallocate (w.hdr c).alloc w.next ncap w3 = .ok () w6 := hd6
    have htc : tryCatch (uninitGen cfg w.next (w.hdr c).size 0 (srcsMove od 0 os))
        (fun ex => deallocate (w.hdr c).alloc w.next ncap >>= fun _ => throwE ex) w2 = .thrown e w6 := by
      unfold tryCatch
      rw [h3]; simp only []
      rw [bind_run, hd6']; rfl
    rw [htc]
    exact Or.inr ⟨he, Or.inl hf.can', _, hb1, hs6.basic hb1.led hvh, hs6.hdr, hs6.live⟩
  | ok u3 w3 =>
    have hr := sat_of_ok hfill h3
    obtain ⟨hb1, hvh, hbA, hcd3⟩ := mid w3 hr.ctl (fun k hk => by have := hr.src k hk; simpa using this)
      (fun b i n1 n2 => hr.rest b i n1 (by intro ⟨x, _, y⟩; exact n2 ⟨x, by omega⟩))
    have htc : tryCatch (uninitGen cfg w.next (w.hdr c).size 0 (srcsMove od 0 os))
        (fun ex => deallocate (w.hdr c).alloc w.next ncap >>= fun _ => throwE ex) w2 = .ok u3 w3 := by
      unfold tryCatch
      rw [h3]
    rw [htc]
    simp only []
    -- the values now in the new block
    obtain ⟨ys, hys⟩ := hvo.holds_exists
    have hysl : ys.length = os := by rw [← hos]; exact hys.1
    have hnew3 : ∀ k (h : k < ys.length), (w3.mem w.next)[(w.hdr c).size + k]? = some (.obj ys[k]) := by
      intro k hk
      have := hr.dst k (by omega)
      rw [this, Nat.zero_add, hoth2 od hod_next, ← hod]; exact hys.2 k hk
    have htail := appendRealloc_tail cfg c strong os ncap ys (husked w w3 od) w3 hvh hb1.led hysl hN hle hge hbA hnew3
      (fun i hi' hn' => isRaw_of_eq (hr.rest _ i (by intro ⟨_, y⟩; exact hn' y) (by intro ⟨x, _⟩; exact hod_next x.symm)) (hraw2 i hi'))
      hcd3
    refine Res.sat_mono htail ?_ ?_
    · intro r w' ⟨hr', hb2, hh⟩
      refine ⟨hr', _, hb1, hb2, ?_⟩
      intro xs ys' hx hy'
      have hyy : ys' = ys := Holds.unique hy' hys
      rw [hyy]
      exact hh xs ⟨hx.1, fun i hi' => by
        show ((husked w w3 od).mem (w.hdr c).data)[i]? = _
        rw [husked_mem_other _ _ _ _ (Ne.symm hd)]; exact hx.2 i hi'⟩
    · intro e w' ⟨he, hcan, hb2, hh, hlv⟩
      exact Or.inr ⟨he, Or.inr hcan, _, hb1, hb2, hh, hlv⟩

/-- IN-PLACE append of another container's elements by move (they fit in the spare capacity) -/
theorem appendMoveInPlace_sat (cfg : Cfg) (c o : Nat) (w : World α)
    (hv : VecOK cfg w c) (hl : Ledger w) (hvo : VecOK cfg w o) (hco : c ≠ o)
    (hfit : (w.hdr c).size + (w.hdr o).size ≤ (w.hdr c).cap)
    (hd : (w.hdr o).data ≠ (w.hdr c).data) (hi : (w.hdr o).data ≠ (w.hdr c).inl) :
    ((uninitGen cfg (w.hdr c).data (w.hdr c).size 0 (srcsMove (w.hdr o).data 0 (w.hdr o).size) >>= fun _ =>
        setSize c ((w.hdr c).size + (w.hdr o).size) >>= fun _ => (pure (w.hdr c).size : M α Nat)) w).sat
      (fun r w' => r = (w.hdr c).size ∧ MoveAppended cfg w w' c o)
      (fun e w' => MoveAppendFail cfg false w w' c o e) := by
  have hoc : o ≠ c := fun e => hco e.symm
  have hfill := uninitializedMove_sat cfg false (w.hdr o).data 0 (w.hdr o).size (w.hdr c).data (w.hdr c).size w
    (fun k hk => by rw [Nat.zero_add]; exact hvo.objs k hk)
    (fun k hk => hv.raws _ (by omega) (by omega))
  rw [uninitializedMove_false] at hfill
  have hself : ∀ n, upd (upd w.hdr o { w.hdr o with size := (w.hdr o).size }) c { w.hdr c with size := n } =
      upd w.hdr c { w.hdr c with size := n } := by
    intro n
    have e1 : ({ w.hdr o with size := (w.hdr o).size } : Vec) = w.hdr o := rfl
    rw [e1, upd_self]
  refine sat_bind hfill (fun _ w1 hr => ?_) ?_
  · unfold setSize
    rw [bind_run, modV_run]
    simp only []
    generalize hw2 : ({ w1 with hdr := upd w1.hdr c { w1.hdr c with size := (w.hdr c).size + (w.hdr o).size } } : World α) = w2
    have hmem2 : w2.mem = w1.mem := by subst hw2; rfl
    have hhdr2 : w2.hdr = upd w.hdr c { w.hdr c with size := (w.hdr c).size + (w.hdr o).size } := by
      subst hw2; show upd w1.hdr _ _ = _; rw [hr.ctl.hdr]
    have hc02 : Ctl0 w w2 := by
      have := hr.ctl.to0
      subst hw2
      exact ⟨this.owner, this.live, this.next, this.ub, this.ntmp, this.len⟩
    obtain ⟨hb1, hb2⟩ := two_inplace cfg (w' := w2) (nc := (w.hdr c).size + (w.hdr o).size) (no := (w.hdr o).size)
      hv hvo hl hco hd hi hc02 (by rw [hself]; exact hhdr2) hfit hvo.size_le
      (fun i hi' => by
        unfold IsObj; rw [hmem2]
        by_cases h : i < (w.hdr c).size
        · exact isObj_of_eq (hr.rest _ i (by intro ⟨_, h', _⟩; omega) (by intro ⟨x, _⟩; exact hd x.symm)) (hv.objs i h)
        · have := hr.dst (i - (w.hdr c).size) (by omega)
          rw [show (w.hdr c).size + (i - (w.hdr c).size) = i by omega, Nat.zero_add] at this
          obtain ⟨v, hv'⟩ := hvo.objs (i - (w.hdr c).size) (by omega)
          exact ⟨v, by rw [this]; exact hv'⟩)
      (fun i h1 h2 => by
        unfold IsRaw; rw [hmem2]
        exact isRaw_of_eq (hr.rest _ i (by intro ⟨_, _, h'⟩; omega) (by intro ⟨x, _⟩; exact hd x.symm)) (hv.raws i (by omega) h2))
      (fun i hi' => by unfold IsObj; rw [hmem2]; have := hr.src i hi'; rw [Nat.zero_add] at this; exact this)
      (fun i h1 h2 => by
        unfold IsRaw; rw [hmem2]
        exact isRaw_of_eq (hr.rest _ i (by intro ⟨x, _⟩; exact hd x) (by intro ⟨_, _, h'⟩; omega)) (hvo.raws i h1 h2))
      (fun b i n1 n2 _ => by rw [hmem2]; exact hr.rest b i (by intro ⟨x, _⟩; exact n1 x) (by intro ⟨x, _⟩; exact n2 x))
    show (w.hdr c).size = (w.hdr c).size ∧ _
    refine ⟨rfl, _, hb1, hb2, ?_⟩
    intro xs ys hx hy
    have hhc : w2.hdr c = { w.hdr c with size := (w.hdr c).size + (w.hdr o).size } := by rw [hhdr2]; simp
    exact holds_append_of_slots hx rfl (by rw [hhc]; simp [hy.1]) (by rw [hhc])
      (fun i hi' => by rw [hmem2]; exact hr.rest _ i (by intro ⟨_, h', _⟩; omega) (by intro ⟨x, _⟩; exact hd x.symm))
      (fun k hk => by
        have := hr.dst k (by rw [← hy.1]; exact hk)
        rw [hmem2, this, Nat.zero_add]; exact hy.2 k hk)
  · intro e w1 ⟨he, hf⟩
    have hc0 : Ctl0 w w1 := hf.ctl.to0
    have hh1 : w1.hdr = upd (upd w.hdr o { w.hdr o with size := (w.hdr o).size }) c { w.hdr c with size := (w.hdr c).size } := by
      rw [hself]
      have e2 : ({ w.hdr c with size := (w.hdr c).size } : Vec) = w.hdr c := rfl
      rw [e2, upd_self]; exact hf.ctl.hdr
    obtain ⟨hb1, hb2⟩ := two_inplace cfg (w' := w1) (nc := (w.hdr c).size) (no := (w.hdr o).size)
      hv hvo hl hco hd hi hc0 hh1 hv.size_le hvo.size_le
      (fun i hi' => isObj_of_eq (hf.rest _ i (by intro ⟨_, h', _⟩; omega) (by intro ⟨x, _⟩; exact hd x.symm)) (hv.objs i hi'))
      (fun i h1 h2 => by
        by_cases h : i < (w.hdr c).size + (w.hdr o).size
        · have := hf.dst (i - (w.hdr c).size) (by omega)
          rw [show (w.hdr c).size + (i - (w.hdr c).size) = i by omega] at this; exact this
        · exact isRaw_of_eq (hf.rest _ i (by intro ⟨_, _, h'⟩; omega) (by intro ⟨x, _⟩; exact hd x.symm)) (hv.raws i h1 h2))
      (fun i hi' => by have := hf.src i hi'; rw [Nat.zero_add] at this; exact this)
      (fun i h1 h2 => isRaw_of_eq (hf.rest _ i (by intro ⟨x, _⟩; exact hd x) (by intro ⟨_, _, h'⟩; omega)) (hvo.raws i h1 h2))
      (fun b i n1 n2 _ => hf.rest b i (by intro ⟨x, _⟩; exact n1 x) (by intro ⟨x, _⟩; exact n2 x))
    exact Or.inr ⟨he, Or.inl hf.can', _, hb1, hb2, hf.ctl.hdr, hf.ctl.live⟩

end SvModel
