/-
reserve (`request_capacity`) and shrink_to_fit (`shrink_to_size`): strong guarantee on every throw; on normal return the
contents are unchanged, the invariants hold, reserve(n ≤ capacity) is a no-op, capacity ≥ n afterwards, and a successful
shrink_to_fit leaves capacity = max(size, N).
-/
import SvModel.Proofs.Append
import SvModel.Proofs.Erase
import SvModel.Proofs.GrowCalls

namespace SvModel
open Gen
variable {α : Type}

theorem upd_upd {β} (f : Nat → β) (k : Nat) (a b : β) : upd (upd f k a) k b = upd f k b := by
  funext x; by_cases h : x = k
  · subst h; simp
  · simp [upd, h]

/-- `set_data_ptr` then `set_capacity` is `set_data` with the size kept -/
theorem setPtrCap_run (c nb ncap : Nat) (w : World α) :
    (setDataPtr c nb >>= fun _ => setCapacity c ncap) w = setData c nb ncap (w.hdr c).size w := by
  unfold setDataPtr setCapacity setData
  rw [bind_run, modV_run]
  simp only []
  rw [modV_run, modV_run]
  simp only [upd_same, upd_upd]

/-- outcome of an operation that keeps the contents and possibly moves them to another buffer -/
structure Kept (cfg : Cfg) (w w' : World α) (c : Nat) : Prop where
  basic : Basic cfg w w' c
  holds : ∀ xs, Holds w c xs → Holds w' c xs
  size  : (w'.hdr c).size = (w.hdr c).size
  alloc : (w'.hdr c).alloc = (w.hdr c).alloc

/-- relocation of the whole contents into the fresh block `w.next` under the strong policy, with roll-back:
    either the new block holds the old values and the old buffer still holds `size` live objects, or the world is
    observably unchanged -/
theorem relocate_all_sat (cfg : Cfg) (c ncap : Nat) (w w2 : World α) (hv : VecOK cfg w c) (hl : Ledger w)
    (hstrong : movesFor cfg true = true → cfg.tMove = false)
    (hb2 : Built cfg w w2 c ncap) (hraw2 : ∀ i, i < ncap → IsRaw w2 w.next i)
    (hoth2 : ∀ b, b ≠ w.next → w2.mem b = w.mem b) (hcap : (w.hdr c).size ≤ ncap) :
    (tryCatch (uninitializedMove cfg true (w.hdr c).data 0 (w.hdr c).size w.next 0)
        (fun e => deallocate (w.hdr c).alloc w.next ncap >>= fun _ => throwE e) w2).sat
      (fun _ w4 => Built cfg w w4 c ncap ∧
        (∀ i, i < (w.hdr c).size → (w4.mem w.next)[i]? = (w.mem (w.hdr c).data)[i]?) ∧
        (∀ i, (w.hdr c).size ≤ i → i < ncap → IsRaw w4 w.next i))
      (fun _ w' => Strong w w') := by
  obtain ⟨hnd, _⟩ := hv.next_ne hl
  have hdata2 : w2.mem (w.hdr c).data = w.mem (w.hdr c).data := hoth2 _ (Ne.symm hnd)
  have hmv := uninitializedMove_sat cfg true (w.hdr c).data 0 (w.hdr c).size w.next 0 w2
    (fun k hk => by simpa using hb2.objs k hk) (fun k hk => by simpa using hraw2 k (by omega))
  refine sat_tryCatch (Res.sat_mono hmv ?_ (fun _ _ h => h)) ?_
  · intro _ w4 hr
    have hb4 : Built cfg w w4 c ncap := hb2.step hr.ctl (fun i hi => by simpa using hr.src i hi)
      (fun b i hb' hn' => hr.rest b i (by intro ⟨h, _, _⟩; exact hb' h) (by intro ⟨h1, _, h3⟩; exact hn' ⟨h1, by omega⟩))
    refine ⟨hb4, ?_, ?_⟩
    · intro i hi
      have := hr.dst i hi
      simp only [Nat.zero_add] at this
      rw [this, hdata2]
    · intro i h1 h2
      exact isRaw_of_eq (hr.rest _ i (by intro ⟨_, _, h⟩; omega) (by intro ⟨h, _, _⟩; exact hnd h)) (hraw2 i h2)
  · intro e w4 ⟨_, hf⟩
    have hkeep : movesFor cfg true = false := by
      cases hm : movesFor cfg true with
      | false => rfl
      | true =>
        have h1 := hstrong hm
        have h2 := hf.can
        rw [hm] at h2; simp only [if_true] at h2
        rw [h1] at h2; cases h2
    have hb4 : Built cfg w w4 c ncap := hb2.step hf.ctl (fun i hi => by simpa using hf.src i hi)
      (fun b i hb' hn' => hf.rest b i (by intro ⟨h, _, _⟩; exact hb' h) (by intro ⟨h1, _, h3⟩; exact hn' ⟨h1, by omega⟩))
    obtain ⟨w6, hd, hs6⟩ := abort_realloc hv hl hb4
      (fun i hi => by
        have := hf.kept hkeep i hi
        simp only [Nat.zero_add] at this
        rw [this, hdata2])
      (fun i hi => by
        by_cases h : i < (w.hdr c).size
        · simpa using hf.dst i h
        · exact isRaw_of_eq (hf.rest _ i (by intro ⟨_, _, h'⟩; omega) (by intro ⟨h', _, _⟩; exact hnd h')) (hraw2 i hi))
    rw [bind_run, hd]
    exact hs6

theorem checkedCalc_run (cfg : Cfg) (v : Vec) (req : Nat) (w : World α) :
    checkedCalcNewCapacity cfg v req w =
      if cfg.maxSize < req then .thrown .length w else .ok (newCapacity cfg.maxSize v.cap req) w := by
  unfold checkedCalcNewCapacity checkedNewCapacity
  by_cases h : cfg.maxSize < req
  · simp [h, throwE]
  · simp [h]; rfl

/-- reserve -/
theorem requestCapacity_sat (cfg : Cfg) (c request : Nat) (w : World α)
    (hv : VecOK cfg w c) (hl : Ledger w) (hNmax : (w.hdr c).N ≤ cfg.maxSize)
    (hstrong : movesFor cfg true = true → cfg.tMove = false) :
    (requestCapacity cfg c request w).sat
      (fun _ w' => Kept cfg w w' c ∧ request ≤ (w'.hdr c).cap ∧
        (request ≤ (w.hdr c).cap → w'.hdr = w.hdr ∧ w'.mem = w.mem ∧ w'.next = w.next ∧ w'.live = w.live) ∧
        (¬ request ≤ (w.hdr c).cap → (w'.hdr c).cap = newCapacity cfg.maxSize (w.hdr c).cap request ∧ (w'.hdr c).data = w.next))
      (fun _ w' => Strong w w') := by
  unfold requestCapacity
  rw [requestCapacity_calls.1, requestCapacity_calls.2]
  simp only [calcNewCapacity_checked, allocateBy_unchecked]
  rw [bind_run, getV_run]
  simp only []
  have e : guard_requestCapacity_0 { genv cfg (w.hdr c) with request := request } = decide (request ≤ (w.hdr c).cap) := rfl
  rw [e]
  by_cases hfit : request ≤ (w.hdr c).cap
  · rw [if_pos (decide_eq_true hfit)]
    show Kept cfg w w c ∧ _
    exact ⟨⟨Strong.basic (Strong.refl hl) hl hv, fun _ h => h, rfl, rfl⟩, hfit, fun _ => ⟨rfl, rfl, rfl, rfl⟩, fun h => absurd hfit h⟩
  rw [if_neg (by simpa using hfit)]
  rw [bind_run, checkedCalc_run]
  by_cases hbig : cfg.maxSize < request
  · rw [if_pos hbig]
    exact Strong.refl hl
  rw [if_neg hbig]
  simp only []
  generalize hncap : newCapacity cfg.maxSize (w.hdr c).cap request = ncap
  obtain ⟨hge, hle⟩ : request ≤ ncap ∧ ncap ≤ cfg.maxSize := by
    rw [← hncap]; exact newCapacity_bounds _ _ _ (by omega) (by omega)
  have hN : (w.hdr c).N < ncap := by have := hv.cap_ge; omega
  have hsz : (w.hdr c).size ≤ ncap := by have := hv.size_le; omega
  refine sat_bind (allocate_sat cfg (w.hdr c).alloc ncap w) (fun nb w2 h2 => ?_) (fun e w2 h => Strong.of_quiet hl h.2)
  obtain ⟨hnb, hm2, ho2, hlv2, hn2, hh2, ht2, hu2⟩ := h2
  subst hnb
  obtain ⟨hb2, hraw2, hoth2⟩ := Built.of_alloc (c := c) hv hl hm2 ho2 hlv2 hn2 hh2 ht2 hu2
  refine sat_bind (relocate_all_sat cfg c ncap w w2 hv hl hstrong hb2 hraw2 hoth2 hsz) (fun _ w4 h4 => ?_) (fun _ _ h => h)
  obtain ⟨hb4, hcopy4, hraw4⟩ := h4
  -- wipe; set_data_ptr; set_capacity  =  reset_data with the size kept
  have hrun : (wipe cfg c >>= fun _ => setDataPtr c w.next >>= fun _ => setCapacity c ncap) w4 =
      resetData cfg c w.next ncap (w.hdr c).size w4 := by
    unfold resetData
    rw [bind_run, bind_run]
    cases hw : wipe cfg c w4 with
    | thrown e w5 => rfl
    | ok u w5 =>
      simp only []
      rw [setPtrCap_run]
      have hv4 : w4.hdr = w.hdr := hb4.hdr
      have : (w5.hdr c).size = (w.hdr c).size := by
        have hw' : Wiped cfg w4 w5 c ∨ True := Or.inr trivial
        -- wipe never changes headers
        have : w5.hdr = w4.hdr := by
          unfold wipe at hw
          rw [bind_run, getV_run] at hw
          simp only [] at hw
          obtain ⟨u1, w41, h41⟩ := destroyRange_nothrow cfg (w4.hdr c).data (w4.hdr c).size 0 w4
          have hc41 : w41.hdr = w4.hdr := by
            have hobj : ∀ i, 0 ≤ i → i < 0 + (w4.hdr c).size → IsObj w4 (w4.hdr c).data i := by
              intro i _ hi; rw [hv4]; exact hb4.objs i (by rw [hv4] at hi; omega)
            have := destroyRange_sat cfg (w4.hdr c).data (w4.hdr c).size 0 w4 hobj
            rw [h41] at this; exact this.1.hdr
          rw [bind_run, h41] at hw
          simp only [] at hw
          split at hw
          · unfold deallocate at hw
            split at hw <;> (injection hw with _ hw; rw [← hw]; exact hc41)
          · injection hw with _ hw; rw [← hw]; exact hc41
        rw [this, hv4]
      rw [this]
  rw [hrun]
  have hfin := finish_realloc (n' := (w.hdr c).size) hv hl hb4 hN hle hsz
    (fun i hi => isObj_of_eq (hcopy4 i hi) (hv.objs i hi)) hraw4
  refine Res.sat_mono hfin ?_ (fun _ _ h => h.elim)
  intro _ w' ⟨hvec, hled, hframe, hub, hhc, hmemn, hnext⟩
  refine ⟨⟨⟨hvec, hled, hub, hframe⟩, ?_, by rw [hhc], by rw [hhc]⟩, by rw [hhc]; exact hge, fun h => absurd h hfit,
          fun _ => ⟨by rw [hhc], by rw [hhc]⟩⟩
  intro xs ⟨hxl, hxv⟩
  refine ⟨by rw [hhc]; exact hxl, ?_⟩
  intro i hi
  rw [hhc]; simp only []
  rw [hmemn, hcopy4 i (by omega)]
  exact hxv i hi

theorem Strong.of_slots {w w' : World α} (hl : Ledger w) (hc : Ctl w w')
    (h : ∀ (b i : Nat), (w'.mem b)[i]? = (w.mem b)[i]?) : Strong w w' :=
  ⟨hc.hdr, hc.live, hc.ub, fun b _ => by rw [hc.owner], fun b _ _ => mem_eq_of_slots (hc.len b) (h b),
   by rw [hc.next]; exact Nat.le_refl _, hl.of_ctl hc⟩

theorem wipe_run_heap (cfg : Cfg) (c : Nat) (w : World α) (h : (w.hdr c).N < (w.hdr c).cap) :
    wipe cfg c w = (destroyRange cfg (w.hdr c).data 0 (w.hdr c).size >>= fun _ =>
                      deallocate (w.hdr c).alloc (w.hdr c).data (w.hdr c).cap) w := by
  unfold wipe
  rw [bind_run, getV_run]
  simp only []
  rw [guard_wipe, if_pos (decide_eq_true h)]

/-- shrink_to_fit -/
theorem shrinkToSize_sat (cfg : Cfg) (c : Nat) (w : World α)
    (hv : VecOK cfg w c) (hl : Ledger w) (hNmax : (w.hdr c).N ≤ cfg.maxSize)
    (hstrong : movesFor cfg true = true → cfg.tMove = false) :
    (shrinkToSize cfg c w).sat
      (fun _ w' => Kept cfg w w' c ∧ (w'.hdr c).cap = max (w.hdr c).size (w.hdr c).N)
      (fun _ w' => Strong w w') := by
  unfold shrinkToSize
  rw [bind_run, getV_run]
  simp only []
  have e0 : guard_shrinkToSize_0 (genv cfg (w.hdr c)) =
      (!(decide ((w.hdr c).N < (w.hdr c).cap)) || decide ((w.hdr c).size = (w.hdr c).cap)) := by
    unfold guard_shrinkToSize_0 hasAllocation genv; simp only [Bool.false_eq_true, if_false]
  rw [e0]
  have hsl := hv.size_le
  have hcg := hv.cap_ge
  by_cases hnoop : (w.hdr c).N < (w.hdr c).cap ∧ (w.hdr c).size ≠ (w.hdr c).cap
  case neg =>
    have : (!(decide ((w.hdr c).N < (w.hdr c).cap)) || decide ((w.hdr c).size = (w.hdr c).cap)) = true := by
      by_cases h1 : (w.hdr c).N < (w.hdr c).cap
      · have h2 : (w.hdr c).size = (w.hdr c).cap := by
          by_cases h2 : (w.hdr c).size = (w.hdr c).cap
          · exact h2
          · exact absurd ⟨h1, h2⟩ hnoop
        simp [h2]
      · simp [h1]
    rw [if_pos this]
    show Kept cfg w w c ∧ _
    refine ⟨⟨Strong.basic (Strong.refl hl) hl hv, fun _ h => h, rfl, rfl⟩, ?_⟩
    by_cases h1 : (w.hdr c).N < (w.hdr c).cap
    · have h2 : (w.hdr c).size = (w.hdr c).cap := by
        by_cases h2 : (w.hdr c).size = (w.hdr c).cap
        · exact h2
        · exact absurd ⟨h1, h2⟩ hnoop
      rw [Nat.max_eq_left (by omega)]; exact h2.symm
    · have : (w.hdr c).cap = (w.hdr c).N := by omega
      rw [Nat.max_eq_right (by omega)]; exact this
  obtain ⟨hheap, hslack⟩ := hnoop
  have : (!(decide ((w.hdr c).N < (w.hdr c).cap)) || decide ((w.hdr c).size = (w.hdr c).cap)) = false := by simp [hheap, hslack]
  rw [if_neg (by rw [this]; simp)]
  have hne : (w.hdr c).data ≠ (w.hdr c).inl := (hv.heap_iff).mp hheap
  obtain ⟨hlive, hown⟩ := hv.heap hne
  have hcapmax : (w.hdr c).cap ≤ cfg.maxSize := by
    have := hv.cap_max; rw [Nat.max_eq_left hNmax] at this; exact this
  have e1 : guard_shrinkToSize_1 (genv cfg (w.hdr c)) = decide ((w.hdr c).N < (w.hdr c).size) := rfl
  rw [e1]
  by_cases hbig : (w.hdr c).N < (w.hdr c).size
  · -- heap → smaller heap block of exactly `size` elements
    rw [if_pos (decide_eq_true hbig)]
    rw [bind_assoc_run]
    refine sat_bind (allocate_sat cfg (w.hdr c).alloc (w.hdr c).size w) (fun nb w2 h2 => ?_) (fun e w2 h => Strong.of_quiet hl h.2)
    rw [pure_bind_run]
    simp only []
    obtain ⟨hnb, hm2, ho2, hlv2, hn2, hh2, ht2, hu2⟩ := h2
    subst hnb
    obtain ⟨hb2, hraw2, hoth2⟩ := Built.of_alloc (c := c) (ncap := (w.hdr c).size) hv hl hm2 ho2 hlv2 hn2 hh2 ht2 hu2
    have hg2 : guard_shrinkToSize_2 { genv cfg (w.hdr c) with newCap := (w.hdr c).size } = true := by
      unfold guard_shrinkToSize_2 genv; simp [hbig]
    simp only [hg2, if_true]
    refine sat_bind (relocate_all_sat cfg c (w.hdr c).size w w2 hv hl hstrong hb2 hraw2 hoth2 (Nat.le_refl _)) (fun _ w4 h4 => ?_) (fun _ _ h => h)
    obtain ⟨hb4, hcopy4, hraw4⟩ := h4
    have hh4 : w4.hdr c = w.hdr c := by rw [hb4.hdr]
    have hrun : (destroyRange cfg (w.hdr c).data 0 (w.hdr c).size >>= fun _ =>
                  deallocate (w.hdr c).alloc (w.hdr c).data (w.hdr c).cap >>= fun _ =>
                  setDataPtr c w.next >>= fun _ => setCapacity c (w.hdr c).size) w4 =
        resetData cfg c w.next (w.hdr c).size (w.hdr c).size w4 := by
      unfold resetData
      conv => rhs; rw [bind_run, wipe_run_heap cfg c w4 (by rw [hh4]; exact hheap), hh4]
      rw [bind_run, bind_run]
      cases hd : destroyRange cfg (w.hdr c).data 0 (w.hdr c).size w4 with
      | thrown e w5 => rfl
      | ok u w5 =>
        simp only []
        rw [bind_run]
        cases hd2 : deallocate (w.hdr c).alloc (w.hdr c).data (w.hdr c).cap w5 with
        | thrown e w6 => rfl
        | ok u2 w6 =>
          simp only []
          rw [setPtrCap_run]
          have : w6.hdr = w4.hdr := by
            have h5 : w5.hdr = w4.hdr := by
              have hobj : ∀ i, 0 ≤ i → i < 0 + (w.hdr c).size → IsObj w4 (w.hdr c).data i := fun i _ hi => hb4.objs i (by omega)
              have := destroyRange_sat cfg (w.hdr c).data (w.hdr c).size 0 w4 hobj
              rw [hd] at this; exact this.1.hdr
            unfold deallocate at hd2
            split at hd2 <;> (injection hd2 with _ hd2; rw [← hd2]; exact h5)
          rw [this, hh4]
    rw [hrun]
    have hfin := finish_realloc (n' := (w.hdr c).size) hv hl hb4 hbig (by omega) (Nat.le_refl _)
      (fun i hi => isObj_of_eq (hcopy4 i hi) (hv.objs i hi)) hraw4
    refine Res.sat_mono hfin ?_ (fun _ _ h => h.elim)
    intro _ w' ⟨hvec, hled, hframe, hub, hhc, hmemn, hnext⟩
    refine ⟨⟨⟨hvec, hled, hub, hframe⟩, ?_, by rw [hhc], by rw [hhc]⟩, by rw [hhc]; simp only []; rw [Nat.max_eq_left (by omega)]⟩
    intro xs ⟨hxl, hxv⟩
    refine ⟨by rw [hhc]; exact hxl, ?_⟩
    intro i hi
    rw [hhc]; simp only []
    rw [hmemn, hcopy4 i (by omega)]
    exact hxv i hi
  · -- heap → back into the inline buffer
    rw [if_neg (by simpa using hbig)]
    rw [pure_bind_run]
    simp only []
    have hg2 : guard_shrinkToSize_2 { genv cfg (w.hdr c) with newCap := (w.hdr c).N } = false := by
      unfold guard_shrinkToSize_2 genv; simp
    simp only [hg2, Bool.false_eq_true, if_false]
    obtain ⟨hilen, hiraw⟩ := hv.idle hne
    have hmv := uninitializedMove_sat cfg true (w.hdr c).data 0 (w.hdr c).size (w.hdr c).inl 0 w
      (fun k hk => by simpa using hv.objs k hk) (fun k hk => by simpa using hiraw k (by omega))
    refine sat_bind (Q := fun _ w1 => Relocated cfg true w w1 (w.hdr c).data 0 (w.hdr c).size (w.hdr c).inl 0)
      (E1 := fun _ w' => Strong w w') (sat_tryCatch hmv ?_) ?_ (fun _ _ h => h)
    · -- relocation threw: nothing to give back, the world is as before
      intro e w1 ⟨_, hf⟩
      have hkeep : movesFor cfg true = false := by
        cases hm : movesFor cfg true with
        | false => rfl
        | true =>
          have h1 := hstrong hm
          have h2 := hf.can
          rw [hm] at h2; simp only [if_true] at h2
          rw [h1] at h2; cases h2
      rw [bind_run]
      show (throwE e w1 : Res (World α) Unit).sat _ _
      show Strong w w1
      refine Strong.of_slots hl hf.ctl ?_
      intro b i
      by_cases h1 : b = (w.hdr c).inl ∧ 0 ≤ i ∧ i < 0 + (w.hdr c).size
      · obtain ⟨hb, _, hi⟩ := h1
        subst hb
        have a := hf.dst i (by omega)
        simp only [Nat.zero_add] at a
        have b' := hiraw i (by omega)
        rw [IsRaw] at a b'; rw [a, b']
      · by_cases h2 : b = (w.hdr c).data ∧ 0 ≤ i ∧ i < 0 + (w.hdr c).size
        · obtain ⟨hb, _, hi⟩ := h2
          subst hb
          have := hf.kept hkeep i (by omega)
          simpa using this
        · exact hf.rest b i h1 h2
    · intro _ w1 hr
      -- destroy the old elements, release the old block, switch the header to the inline buffer
      have hobj1 : ∀ i, 0 ≤ i → i < 0 + (w.hdr c).size → IsObj w1 (w.hdr c).data i := fun i _ hi => by simpa using hr.src i (by omega)
      refine sat_bind (destroyRange_sat cfg (w.hdr c).data (w.hdr c).size 0 w1 hobj1) (fun _ w2 h2 => ?_) (fun _ _ h => h.elim)
      obtain ⟨hc2, hr2, hrest2⟩ := h2
      have hraw2 : ∀ i, i < (w.hdr c).cap → IsRaw w2 (w.hdr c).data i := by
        intro i hi
        by_cases h : i < (w.hdr c).size
        · exact hr2 i (Nat.zero_le _) (by omega)
        · refine isRaw_of_eq (hrest2 _ i (by intro ⟨_, _, h3⟩; omega)) ?_
          exact isRaw_of_eq (hr.rest _ i (by intro ⟨h', _, _⟩; exact hne h') (by intro ⟨_, _, h3⟩; omega)) (hv.raws i (by omega) hi)
      have hc12 : Ctl w w2 := hr.ctl.trans hc2
      rw [bind_run, deallocate_run _ _ _ w2 (by rw [hc12.live]; exact hlive) (by rw [hc12.len, hv.len]) hraw2 (by rw [hc12.owner]; exact hown)]
      simp only []
      rw [setPtrCap_run]
      unfold setData
      rw [modV_run]
      generalize hw3 : ({ w2 with mem := upd w2.mem (w.hdr c).data [], live := w2.live.erase (w.hdr c).data,
                                  trace := w2.trace ++ [.dealloc (w.hdr c).data (w.hdr c).cap (w.hdr c).alloc] } : World α) = w3
      have hh3 : w3.hdr = w.hdr := by subst hw3; exact hc12.hdr
      generalize hw4 : ({ w3 with hdr := upd w3.hdr c { w3.hdr c with data := (w.hdr c).inl, cap := (w.hdr c).N, size := (w3.hdr c).size } } : World α) = w4
      have hhc4 : w4.hdr c = { w.hdr c with data := (w.hdr c).inl, cap := (w.hdr c).N } := by
        subst hw4; show upd w3.hdr c _ c = _; rw [upd_same, hh3]
      have hmem4 : ∀ b, b ≠ (w.hdr c).data → w4.mem b = w2.mem b := by
        intro b hb; subst hw4; subst hw3; show upd w2.mem _ [] b = _; rw [upd_other _ _ _ _ hb]
      have hmem4d : w4.mem (w.hdr c).data = [] := by subst hw4; subst hw3; show upd w2.mem _ [] _ = _; simp
      have hlive4 : w4.live = w.live.erase (w.hdr c).data := by subst hw4; subst hw3; show w2.live.erase _ = _; rw [hc12.live]
      have hinl4 : ∀ i : Nat, (w4.mem (w.hdr c).inl)[i]? = (w1.mem (w.hdr c).inl)[i]? := by
        intro i; rw [hmem4 _ (Ne.symm hne)]
        exact hrest2 _ i (by intro ⟨h', _, _⟩; exact hne h'.symm)
      have hdata_odd := hv.data_odd hl hne
      have hinl_lt := hv.inl_lt
      show Kept cfg w w4 c ∧ _
      have hvec4 : VecOK cfg w4 c :=
        { size_le := by rw [hhc4]; show (w.hdr c).size ≤ (w.hdr c).N; omega
          cap_ge := by rw [hhc4]; exact Nat.le_refl _
          cap_max := by rw [hhc4]; exact Nat.le_max_right _ _
          inl_iff := by rw [hhc4]; exact ⟨fun _ => rfl, fun _ => rfl⟩
          inl_lt := by rw [hhc4]; exact hinl_lt
          len := by rw [hhc4]; show (w4.mem (w.hdr c).inl).length = (w.hdr c).N; rw [hmem4 _ (Ne.symm hne), hc12.len]; exact hilen
          objs := by
            rw [hhc4]; show ∀ i, i < (w.hdr c).size → IsObj w4 (w.hdr c).inl i
            intro i hi
            have := hr.dst i hi
            simp only [Nat.zero_add] at this
            exact isObj_of_eq ((hinl4 i).trans this) (hv.objs i hi)
          raws := by
            rw [hhc4]; show ∀ i, (w.hdr c).size ≤ i → i < (w.hdr c).N → IsRaw w4 (w.hdr c).inl i
            intro i h1 h2
            exact isRaw_of_eq ((hinl4 i).trans (hr.rest _ i (by intro ⟨_, _, h3⟩; omega) (by intro ⟨h', _, _⟩; exact hne h'.symm))) (hiraw i h2)
          heap := by rw [hhc4]; intro h; exact absurd rfl h
          idle := by rw [hhc4]; intro h; exact absurd rfl h }
      have hled4 : Ledger w4 := by
        refine ⟨?_, ?_, ?_, ?_, ?_, ?_⟩
        · have : w4.next = w.next := by subst hw4; subst hw3; exact hc12.next
          rw [this]; exact hl.next_ok
        · have : w4.ntmp = w.ntmp := by subst hw4; subst hw3; exact hc12.ntmp
          rw [this]; exact hl.ntmp_ok
        · intro b hb
          rw [hlive4] at hb
          have : w4.next = w.next := by subst hw4; subst hw3; exact hc12.next
          rw [this]; exact hl.live_ok b (List.mem_of_mem_erase hb)
        · rw [hlive4]; exact hl.nodup.erase _
        · intro b h1 h2 h3
          by_cases hbd : b = (w.hdr c).data
          · subst hbd; exact hmem4d
          · rw [hmem4 b hbd]
            have hnl : b ∉ w.live := by
              intro hin; apply h3; rw [hlive4]; exact (List.mem_erase_of_ne hbd).mpr hin
            have := hl.freed b h1 h2 hnl
            have hlen := hc12.len b
            rw [this] at hlen
            exact List.eq_nil_of_length_eq_zero (by simpa using hlen)
        · intro b h1 h2
          have hnt : w4.ntmp = w.ntmp := by subst hw4; subst hw3; exact hc12.ntmp
          rw [hnt] at h1
          have hbd : b ≠ (w.hdr c).data := by omega
          rw [hmem4 b hbd]
          have := hl.tmpfresh b h1 h2
          have hlen := hc12.len b
          rw [this] at hlen
          exact List.eq_nil_of_length_eq_zero (by simpa using hlen)
      have hframe4 : Frame1 w w4 c := by
        have hnext4 : w4.next = w.next := by subst hw4; subst hw3; exact hc12.next
        refine ⟨?_, by rw [hhc4], by rw [hhc4], ?_, ?_, ?_, Or.inr (Or.inl (by rw [hhc4])), ?_⟩
        rotate_right
        · -- live-block accounting: exactly the old heap buffer was released
          refine ⟨fun b _ => ?_, fun b hb => ?_⟩
          · rw [hlive4, hl.nodup.mem_erase_iff, hhc4]; simp only []
            constructor
            · rintro ⟨h1, h2⟩; exact ⟨h2, fun h3 => absurd h3 h1⟩
            · rintro ⟨h1, h2⟩; exact ⟨fun h3 => hne ((h2 h3).symm ▸ h3 ▸ rfl), h1⟩
          · rw [hlive4, hhc4]; simp only []
            constructor
            · intro h; have := (hl.live_ok b (List.mem_of_mem_erase h)).2.2; omega
            · intro h; have := hl.next_ok; omega
        · intro d hd; subst hw4; show upd w3.hdr c _ d = _; rw [upd_other _ _ _ _ hd, hh3]
        · intro b h1 h2 _ _
          rw [hmem4 b h1]
          apply mem_eq_of_slots (hc12.len b)
          intro i
          rw [hrest2 b i (by intro ⟨h', _, _⟩; exact h1 h')]
          exact hr.rest b i (by intro ⟨h', _, _⟩; exact h2 h') (by intro ⟨h', _, _⟩; exact h1 h')
        · intro b _; subst hw4; subst hw3; show w2.owner b = _; rw [hc12.owner]
        · have : w4.next = w.next := by subst hw4; subst hw3; exact hc12.next
          rw [this]; exact Nat.le_refl _
      have hub4 : w4.ub = w.ub := by subst hw4; subst hw3; exact hc12.ub
      refine ⟨⟨⟨hvec4, hled4, hub4, hframe4⟩, ?_, by rw [hhc4], by rw [hhc4]⟩, by rw [hhc4]; simp only []; rw [Nat.max_eq_right (by omega)]⟩
      intro xs ⟨hxl, hxv⟩
      refine ⟨by rw [hhc4]; exact hxl, ?_⟩
      intro i hi
      rw [hhc4]; simp only []
      have := hr.dst i (by omega)
      simp only [Nat.zero_add] at this
      rw [hinl4 i, this]
      exact hxv i hi

end SvModel
