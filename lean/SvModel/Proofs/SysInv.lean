/-
The system-level invariant: several containers sharing one world (one heap, one allocator ledger).

`SysOK cfg w A` — the containers listed in `A` are constructed:
  * each satisfies the storage invariants `VecOK` (C02) and hence holds exactly `size` live objects in `[0, size)`
    of its buffer and none elsewhere in its buffers (C03);
  * their buffers are pairwise apart (`Sep`);
  * the allocator ledger is consistent and — the quiescent-point clause of C04 — EVERY live heap block is the buffer of
    one of them (`noleak`): nothing is leaked, nothing is owned twice;
  * the undefined-behaviour log is empty (no lifetime violation so far, C03).

`SysOK.step` — any operation on one container `c ∈ A` whose outcome satisfies `Basic cfg w w' c` (what every
operation theorem of Proofs/*.lean establishes for normal return AND for a throw) preserves `SysOK`: the other
containers are untouched, still valid, still own their blocks, and the live set is still exactly the set of buffers.
This lifts the single-container theorems to worlds with any number of interacting containers.
-/
import SvModel.Proofs.Ctor

namespace SvModel
open Gen
variable {α : Type}

/-- containers `c` and `d` do not share storage: different in-object buffers (containers of inline capacity 0 share
    the null block, which has no slots), and a heap buffer of `c` is not `d`'s buffer -/
structure Sep (w : World α) (c d : Nat) : Prop where
  inl  : (w.hdr c).inl ≠ (w.hdr d).inl ∨ ((w.hdr c).N = 0 ∧ (w.hdr d).N = 0)
  data : (w.hdr c).data ≠ (w.hdr c).inl → (w.hdr c).data ≠ (w.hdr d).data

structure SysOK (cfg : Cfg) (w : World α) (A : List Nat) : Prop where
  vec    : ∀ c ∈ A, VecOK cfg w c
  nmax   : ∀ c ∈ A, (w.hdr c).N ≤ cfg.maxSize
  led    : Ledger w
  ub     : w.ub = []
  sep    : ∀ c ∈ A, ∀ d ∈ A, c ≠ d → Sep w c d
  noleak : ∀ b ∈ w.live, ∃ c ∈ A, (w.hdr c).data = b

/-- a container's in-object buffer of capacity 0 is the empty null block -/
theorem VecOK.inl_nil {cfg : Cfg} {w : World α} {c : Nat} (hv : VecOK cfg w c) (hN : (w.hdr c).N = 0) :
    w.mem (w.hdr c).inl = [] := by
  by_cases hne : (w.hdr c).data = (w.hdr c).inl
  · have hcap : (w.hdr c).cap = (w.hdr c).N := (hv.inl_iff).mpr hne
    have := hv.len
    rw [hne, hcap, hN] at this
    exact List.eq_nil_of_length_eq_zero this
  · have := (hv.idle hne).1
    rw [hN] at this
    exact List.eq_nil_of_length_eq_zero this

/-- the memory of block `b` is untouched by an operation on `c` when `b` is a container-class block (an in-object
    buffer or a heap block) that existed and is none of `c`'s buffers -/
theorem Basic.mem_apart {cfg : Cfg} {w w' : World α} {c : Nat} (hb : Basic cfg w w' c) {b : Nat}
    (h1 : b ≠ (w.hdr c).data) (h2 : b ≠ (w.hdr c).inl) (h3 : b < w.next) (h4 : b % 2 = 1 ∨ b < 5) : w'.mem b = w.mem b :=
  hb.frame.mem_other b h1 h2 h3 h4

/-- an operation on `c` with a `Basic` outcome does not touch any other constructed container: same header, same
    buffer contents, same in-object buffer -/
theorem SysOK.other {cfg : Cfg} {w w' : World α} {A : List Nat} {c : Nat} (hs : SysOK cfg w A) (hc : c ∈ A)
    (hb : Basic cfg w w' c) : ∀ d ∈ A, d ≠ c →
      w'.hdr d = w.hdr d ∧ w'.mem (w.hdr d).data = w.mem (w.hdr d).data ∧ w'.mem (w.hdr d).inl = w.mem (w.hdr d).inl := by
  have hvc := hs.vec c hc
  have hl := hs.led
  have hfr := hb.frame
  have hn5 := hl.next_ok.2
  intro d hd hdc
  have hvd := hs.vec d hd
  have hsep := hs.sep d hd c hc hdc
  have hdi5 := hvd.inl_lt
  have hci5 := hvc.inl_lt
  -- d's in-object buffer
  have hinl : w'.mem (w.hdr d).inl = w.mem (w.hdr d).inl := by
    rcases hsep.inl with hne | ⟨hN1, hN2⟩
    · refine hb.mem_apart ?_ hne (by omega) (Or.inr hdi5)
      intro h
      by_cases hch : (w.hdr c).data = (w.hdr c).inl
      · exact hne (h.trans hch)
      · have := (hvc.data_odd hl hch).1; omega
    · -- both have inline capacity 0: the null block is empty before and after
      have e1 := hvd.inl_nil hN1
      by_cases hii : (w.hdr d).inl = (w.hdr c).inl
      · have hN' : (w'.hdr c).N = 0 := by rw [hfr.hdr_N]; exact hN2
        have e2 := hb.vec.inl_nil hN'
        rw [hfr.hdr_inl] at e2
        rw [hii, e2, ← hii, e1]
      · refine hb.mem_apart ?_ hii (by omega) (Or.inr hdi5)
        intro h
        by_cases hch : (w.hdr c).data = (w.hdr c).inl
        · exact hii (h.trans hch)
        · have := (hvc.data_odd hl hch).1; omega
  refine ⟨hfr.hdr_other d hdc, ?_, hinl⟩
  by_cases hdh : (w.hdr d).data = (w.hdr d).inl
  · rw [hdh]; exact hinl
  · have hodd := hvd.data_odd hl hdh
    refine hb.mem_apart (hsep.data hdh) (by omega) hodd.2.2 (Or.inl hodd.2.1)

/-- … so it still holds the same values -/
theorem SysOK.holds_other {cfg : Cfg} {w w' : World α} {A : List Nat} {c d : Nat} {xs : List (Val α)} (hs : SysOK cfg w A)
    (hc : c ∈ A) (hb : Basic cfg w w' c) (hd : d ∈ A) (hdc : d ≠ c) (hx : Holds w d xs) : Holds w' d xs := by
  obtain ⟨hh, hm, _⟩ := hs.other hc hb d hd hdc
  exact ⟨by rw [hh]; exact hx.1, fun i hi => by rw [hh, hm]; exact hx.2 i hi⟩

/-- ONE STEP: an operation on `c ∈ A` with a `Basic` outcome keeps the whole system valid -/
theorem SysOK.step {cfg : Cfg} {w w' : World α} {A : List Nat} {c : Nat} (hs : SysOK cfg w A) (hc : c ∈ A)
    (hb : Basic cfg w w' c) : SysOK cfg w' A := by
  have hvc := hs.vec c hc
  have hl := hs.led
  have hfr := hb.frame
  have hn5 := hl.next_ok.2
  have other := hs.other hc hb
  refine ⟨?_, ?_, hb.led, by rw [hb.ub]; exact hs.ub, ?_, ?_⟩
  · -- every container is still valid
    intro d hd
    by_cases hdc : d = c
    · subst hdc; exact hb.vec
    · obtain ⟨hh, hmd, hmi⟩ := other d hd hdc
      have hvd := hs.vec d hd
      refine hvd.transfer hh (by rw [hmd]) (fun i hi => by unfold IsObj; rw [hmd]; exact hvd.objs i hi)
        (fun i h1 h2 => by unfold IsRaw; rw [hmd]; exact hvd.raws i h1 h2) ?_ ?_
      · intro hne
        obtain ⟨h1, h2⟩ := hvd.heap hne
        have hodd := hvd.data_odd hl hne
        refine ⟨?_, by rw [hfr.owner_old _ hodd.2.2]; exact h2⟩
        rw [hfr.live.old _ hodd.2.2]
        exact ⟨h1, fun he => absurd he ((hs.sep d hd c hc hdc).data hne)⟩
      · intro hne
        obtain ⟨h1, h2⟩ := hvd.idle hne
        exact ⟨by rw [hmi]; exact h1, fun i hi => by unfold IsRaw; rw [hmi]; exact h2 i hi⟩
  · intro d hd
    by_cases hdc : d = c
    · subst hdc; rw [hfr.hdr_N]; exact hs.nmax d hd
    · rw [(other d hd hdc).1]; exact hs.nmax d hd
  · -- separation
    have hcsep : ∀ d ∈ A, d ≠ c → Sep w' c d ∧ Sep w' d c := by
      intro d hd hdc
      have hh := (other d hd hdc).1
      have hvd := hs.vec d hd
      have s1 := hs.sep c hc d hd (Ne.symm hdc)
      have s2 := hs.sep d hd c hc hdc
      have hdlt := hvd.data_lt_next hl
      have hdi5 := hvd.inl_lt
      have hci5 := hvc.inl_lt
      refine ⟨⟨?_, ?_⟩, ⟨?_, ?_⟩⟩
      · rw [hfr.hdr_inl, hfr.hdr_N, hh]; exact s1.inl
      · intro hne
        rw [hh]
        rcases hfr.data_new with h | h | h
        · rw [h]; rw [h, hfr.hdr_inl] at hne; exact s1.data hne
        · rw [hfr.hdr_inl] at hne; exact absurd h hne
        · omega
      · rw [hfr.hdr_inl, hfr.hdr_N, hh]; exact s2.inl
      · intro hne
        rw [hh] at hne ⊢
        have hodd := hvd.data_odd hl hne
        rcases hfr.data_new with h | h | h
        · rw [h]; exact s2.data hne
        · rw [h]; omega
        · omega
    intro x hx y hy hxy
    by_cases hxc : x = c
    · subst hxc; exact (hcsep y hy (Ne.symm hxy)).1
    · by_cases hyc : y = c
      · subst hyc; exact (hcsep x hx hxc).2
      · have hhx := (other x hx hxc).1
        have hhy := (other y hy hyc).1
        have s := hs.sep x hx y hy hxy
        exact ⟨by rw [hhx, hhy]; exact s.inl, by rw [hhx, hhy]; exact s.data⟩
  · -- every live block is somebody's buffer
    intro b hbl
    by_cases hbn : b < w.next
    · obtain ⟨h1, h2⟩ := (hfr.live.old b hbn).mp hbl
      obtain ⟨d, hd, hdd⟩ := hs.noleak b h1
      by_cases hdc : d = c
      · subst hdc; exact ⟨d, hd, h2 hdd.symm⟩
      · exact ⟨d, hd, by rw [(other d hd hdc).1]; exact hdd⟩
    · exact ⟨c, hc, ((hfr.live.fresh b (by omega)).mp hbl).symm⟩

/-- the world before any container is constructed -/
theorem SysOK.empty {cfg : Cfg} {w : World α} (hl : Ledger w) (hub : w.ub = []) (hlive : w.live = []) : SysOK cfg w [] :=
  ⟨fun _ h => by simp at h, fun _ h => by simp at h, hl, hub, fun _ h => by simp at h, fun b h => by rw [hlive] at h; simp at h⟩

/-- census (C03/C04 at a quiescent point): the number of live heap blocks is at most the number of constructed
    containers, and a container in its in-object buffer owns no block -/
theorem SysOK.owner_unique {cfg : Cfg} {w : World α} {A : List Nat} (hs : SysOK cfg w A) {c d : Nat} (hc : c ∈ A) (hd : d ∈ A)
    (hheap : (w.hdr c).data ≠ (w.hdr c).inl) (he : (w.hdr c).data = (w.hdr d).data) : c = d := by
  by_cases h : c = d
  · exact h
  · exact absurd he ((hs.sep c hc d hd h).data hheap)

end SvModel

namespace SvModel
open Gen
variable {α : Type}

/-! ### the whole system: constructed containers `A` among the container ids `U`, the rest unborn -/

/-- in-object buffers of different containers are different blocks (containers of inline capacity 0 share the empty
    null block) -/
def InlSep (w : World α) (c d : Nat) : Prop :=
  (w.hdr c).inl ≠ (w.hdr d).inl ∨ ((w.hdr c).N = 0 ∧ (w.hdr d).N = 0)

structure SysAll (cfg : Cfg) (w : World α) (U A : List Nat) : Prop where
  sub    : ∀ c ∈ A, c ∈ U
  ok     : SysOK cfg w A
  unborn : ∀ c ∈ U, c ∉ A → Unborn w c
  nmaxU  : ∀ c ∈ U, (w.hdr c).N ≤ cfg.maxSize
  inlsep : ∀ c ∈ U, ∀ d ∈ U, c ≠ d → InlSep w c d

theorem Unborn.inl_nil {w : World α} {c : Nat} (hu : Unborn w c) (hN : (w.hdr c).N = 0) : w.mem (w.hdr c).inl = [] := by
  have := hu.len
  rw [hN] at this
  exact List.eq_nil_of_length_eq_zero this

/-- a step on a constructed container keeps the whole system, including the storage of the unborn ones -/
theorem SysAll.step {cfg : Cfg} {w w' : World α} {U A : List Nat} {c : Nat} (hs : SysAll cfg w U A) (hc : c ∈ A)
    (hb : Basic cfg w w' c) : SysAll cfg w' U A := by
  have hvc := hs.ok.vec c hc
  have hl := hs.ok.led
  have hfr := hb.frame
  have hn5 := hl.next_ok.2
  have hhdrN : ∀ d, (w'.hdr d).N = (w.hdr d).N ∧ (w'.hdr d).inl = (w.hdr d).inl := by
    intro d
    by_cases hdc : d = c
    · subst hdc; exact ⟨hfr.hdr_N, hfr.hdr_inl⟩
    · rw [hfr.hdr_other d hdc]; exact ⟨rfl, rfl⟩
  refine ⟨hs.sub, hs.ok.step hc hb, ?_, fun d hd => by rw [(hhdrN d).1]; exact hs.nmaxU d hd, ?_⟩
  · intro d hdU hdA
    have hdc : d ≠ c := fun h => hdA (h ▸ hc)
    have hud := hs.unborn d hdU hdA
    have hh := hfr.hdr_other d hdc
    have hdi5 := hud.inl_lt
    have hci5 := hvc.inl_lt
    have hm : w'.mem (w.hdr d).inl = w.mem (w.hdr d).inl := by
      have notdata : (w.hdr d).inl ≠ (w.hdr c).inl → (w.hdr d).inl ≠ (w.hdr c).data := by
        intro hne h
        by_cases hch : (w.hdr c).data = (w.hdr c).inl
        · exact hne (h.trans hch)
        · have := (hvc.data_odd hl hch).1; omega
      rcases hs.inlsep d hdU c (hs.sub c hc) hdc with hne | ⟨hN1, hN2⟩
      · exact hb.mem_apart (notdata hne) hne (by omega) (Or.inr hdi5)
      · by_cases hii : (w.hdr d).inl = (w.hdr c).inl
        · have hN' : (w'.hdr c).N = 0 := by rw [hfr.hdr_N]; exact hN2
          have e2 := hb.vec.inl_nil hN'
          rw [hfr.hdr_inl] at e2
          rw [hii, e2, ← hii, hud.inl_nil hN1]
        · exact hb.mem_apart (notdata hii) hii (by omega) (Or.inr hdi5)
    exact ⟨by rw [hh]; exact hdi5, by rw [hh, hm]; exact hud.len, fun i hi => by rw [hh] at hi ⊢; unfold IsRaw; rw [hm]; exact hud.raws i hi⟩
  · intro x hx y hy hxy
    unfold InlSep
    rw [(hhdrN x).1, (hhdrN x).2, (hhdrN y).1, (hhdrN y).2]
    exact hs.inlsep x hx y hy hxy

/-- what a constructor / destructor of `c` does to a constructed container `d ≠ c`: nothing -/
theorem VecOK.of_cframe {cfg : Cfg} {w w' : World α} {c d : Nat} (hvd : VecOK cfg w d) (hl : Ledger w)
    (hf : CFrame w w' c) (hdc : d ≠ c) (hsep : InlSep w d c) (hci5 : (w.hdr c).inl < 5)
    (hnil : (w.hdr c).N = 0 → w'.mem (w.hdr c).inl = [] ∧ w.mem (w.hdr c).inl = [])
    (hlive : ∀ b, b ∈ w.live → b ∈ w'.live) :
    VecOK cfg w' d ∧ w'.hdr d = w.hdr d := by
  have hh := hf.hdr_other d hdc
  have hdi5 := hvd.inl_lt
  have hn5 := hl.next_ok.2
  have hinl : w'.mem (w.hdr d).inl = w.mem (w.hdr d).inl := by
    rcases hsep with hne | ⟨_, hN2⟩
    · exact hf.mem_other _ hne (by omega)
    · by_cases hii : (w.hdr d).inl = (w.hdr c).inl
      · rw [hii, (hnil hN2).1, (hnil hN2).2]
      · exact hf.mem_other _ hii (by omega)
  have hdata : w'.mem (w.hdr d).data = w.mem (w.hdr d).data := by
    by_cases hdh : (w.hdr d).data = (w.hdr d).inl
    · rw [hdh]; exact hinl
    · have hodd := hvd.data_odd hl hdh
      exact hf.mem_other _ (by omega) hodd.2.2
  refine ⟨hvd.transfer hh (by rw [hdata]) (fun i hi => by unfold IsObj; rw [hdata]; exact hvd.objs i hi)
    (fun i h1 h2 => by unfold IsRaw; rw [hdata]; exact hvd.raws i h1 h2) ?_ ?_, hh⟩
  · intro hne
    obtain ⟨h1, h2⟩ := hvd.heap hne
    exact ⟨hlive _ h1, by rw [hf.owner_old _ (hvd.data_odd hl hne).2.2]; exact h2⟩
  · intro hne
    obtain ⟨h1, h2⟩ := hvd.idle hne
    exact ⟨by rw [hinl]; exact h1, fun i hi => by unfold IsRaw; rw [hinl]; exact h2 i hi⟩

theorem Unborn.of_cframe {w w' : World α} {c d : Nat} (hud : Unborn w d) (hl : Ledger w)
    (hf : CFrame w w' c) (hdc : d ≠ c) (hsep : InlSep w d c)
    (hnil : (w.hdr c).N = 0 → w'.mem (w.hdr c).inl = [] ∧ w.mem (w.hdr c).inl = []) : Unborn w' d := by
  have hh := hf.hdr_other d hdc
  have hdi5 := hud.inl_lt
  have hn5 := hl.next_ok.2
  have hinl : w'.mem (w.hdr d).inl = w.mem (w.hdr d).inl := by
    rcases hsep with hne | ⟨_, hN2⟩
    · exact hf.mem_other _ hne (by omega)
    · by_cases hii : (w.hdr d).inl = (w.hdr c).inl
      · rw [hii, (hnil hN2).1, (hnil hN2).2]
      · exact hf.mem_other _ hii (by omega)
  exact ⟨by rw [hh]; exact hdi5, by rw [hh, hinl]; exact hud.len, fun i hi => by rw [hh] at hi ⊢; unfold IsRaw; rw [hinl]; exact hud.raws i hi⟩

/-- CONSTRUCTION (count / count+value / range / copy constructors) of an unborn container in a system of live ones:
    on return the new container has joined the system; after a throw the system is as before and the storage is
    unborn again — nothing leaked, nothing else touched -/
theorem SysAll.ctorFill {cfg : Cfg} {w : World α} {U A : List Nat} {c : Nat} (hs : SysAll cfg w U A) (hcU : c ∈ U) (hcA : c ∉ A)
    (a : Nat) (checked : Bool) (srcs : List (Src α))
    (hk : checked = false → srcs.length ≤ cfg.maxSize) (hsrc : CtorSrcs cfg w c srcs) :
    (ctorFill cfg c a checked srcs w).sat
      (fun _ w' => SysAll cfg w' U (c :: A) ∧ Holds w' c (srcs.map (srcVal w)) ∧ (w'.hdr c).alloc = a ∧
                   ∀ d ∈ A, w'.hdr d = w.hdr d ∧ w'.mem (w.hdr d).data = w.mem (w.hdr d).data)
      (fun _ w' => SysAll cfg w' U A ∧ w'.live = w.live ∧
                   ∀ d ∈ A, w'.hdr d = w.hdr d ∧ w'.mem (w.hdr d).data = w.mem (w.hdr d).data) := by
  have hu := hs.unborn c hcU hcA
  have hl := hs.ok.led
  have hn5 := hl.next_ok.2
  have hci5 := hu.inl_lt
  have hneA : ∀ d ∈ A, d ≠ c := fun d hd h => hcA (h ▸ hd)
  have hdataEq : ∀ {w' : World α}, CFrame w w' c → (∀ d ∈ A, VecOK cfg w' d ∧ w'.hdr d = w.hdr d) →
      ∀ d ∈ A, w'.hdr d = w.hdr d ∧ w'.mem (w.hdr d).data = w.mem (w.hdr d).data := by
    intro w' hf hall d hd
    refine ⟨(hall d hd).2, ?_⟩
    have hvd := hs.ok.vec d hd
    by_cases hdh : (w.hdr d).data = (w.hdr d).inl
    · rw [hdh]
      rcases hs.inlsep d (hs.sub d hd) c hcU (hneA d hd) with hne | ⟨hN1, hN2⟩
      · exact hf.mem_other _ hne (by have := hvd.inl_lt; omega)
      · by_cases hii : (w.hdr d).inl = (w.hdr c).inl
        · have e1 := hvd.inl_nil hN1
          have e2 := (hall d hd).1.inl_nil (by rw [(hall d hd).2]; exact hN1)
          rw [(hall d hd).2] at e2
          rw [e1, e2]
        · exact hf.mem_other _ hii (by have := hvd.inl_lt; omega)
    · have hodd := hvd.data_odd hl hdh
      exact hf.mem_other _ (by omega) hodd.2.2
  refine Res.sat_mono (ctorFill_sat cfg c a checked srcs w hu hl (hs.nmaxU c hcU) hk hsrc) ?_ ?_
  · -- normal return
    intro _ w' ⟨hvc, hl', hholds, halloc, hlive, hN, hcap, hdata, hf⟩
    have hnil : (w.hdr c).N = 0 → w'.mem (w.hdr c).inl = [] ∧ w.mem (w.hdr c).inl = [] := by
      intro hN0
      have := hvc.inl_nil (by rw [hN]; exact hN0)
      rw [hf.hdr_inl] at this
      exact ⟨this, hu.inl_nil hN0⟩
    have hlsub : ∀ b, b ∈ w.live → b ∈ w'.live := by
      intro b hb; rw [hlive]; split <;> simp [hb]
    have hall : ∀ d ∈ A, VecOK cfg w' d ∧ w'.hdr d = w.hdr d := fun d hd =>
      (hs.ok.vec d hd).of_cframe hl hf (hneA d hd) (hs.inlsep d (hs.sub d hd) c hcU (hneA d hd)) hci5 hnil hlsub
    have hhdrN : ∀ d, (w'.hdr d).N = (w.hdr d).N ∧ (w'.hdr d).inl = (w.hdr d).inl := by
      intro d
      by_cases hdc : d = c
      · subst hdc; exact ⟨hf.hdr_N, hf.hdr_inl⟩
      · rw [hf.hdr_other d hdc]; exact ⟨rfl, rfl⟩
    have hcdata : (w'.hdr c).data = w.next ∨ (w'.hdr c).data = (w'.hdr c).inl := by
      rw [hdata]; split
      · exact Or.inl rfl
      · exact Or.inr hf.hdr_inl.symm
    refine ⟨⟨?_, ⟨?_, ?_, hl', by rw [hf.ub]; exact hs.ok.ub, ?_, ?_⟩, ?_, fun d hd => by rw [(hhdrN d).1]; exact hs.nmaxU d hd, ?_⟩,
            hholds, halloc, hdataEq hf hall⟩
    · intro d hd
      rcases List.mem_cons.mp hd with hdc | hd'
      · rw [hdc]; exact hcU
      · exact hs.sub d hd'
    · intro d hd
      rcases List.mem_cons.mp hd with hdc | hd'
      · rw [hdc]; exact hvc
      · exact (hall d hd').1
    · intro d hd
      rw [(hhdrN d).1]
      rcases List.mem_cons.mp hd with hdc | hd'
      · rw [hdc]; exact hs.nmaxU c hcU
      · exact hs.ok.nmax d hd'
    · -- separation
      have key : ∀ d ∈ A, Sep w' c d ∧ Sep w' d c := by
        intro d hd
        have hvd := hs.ok.vec d hd
        have hdlt := hvd.data_lt_next hl
        have hh := (hall d hd).2
        have isep := hs.inlsep c hcU d (hs.sub d hd) (Ne.symm (hneA d hd))
        have isep' := hs.inlsep d (hs.sub d hd) c hcU (hneA d hd)
        refine ⟨⟨?_, ?_⟩, ⟨?_, ?_⟩⟩
        · rw [(hhdrN c).1, (hhdrN c).2, hh]; exact isep
        · intro hne
          rw [hh]
          rcases hcdata with h | h
          · rw [h]; omega
          · exact absurd h hne
        · rw [(hhdrN c).1, (hhdrN c).2, hh]; exact isep'
        · intro hne
          rw [hh] at hne ⊢
          have hodd := hvd.data_odd hl hne
          rcases hcdata with h | h
          · rw [h]; omega
          · rw [h, (hhdrN c).2]; omega
      intro x hx y hy hxy
      rcases List.mem_cons.mp hx with hxc | hx'
      · rcases List.mem_cons.mp hy with hyc | hy'
        · exact absurd (hxc.trans hyc.symm) hxy
        · rw [hxc]; exact (key y hy').1
      · rcases List.mem_cons.mp hy with hyc | hy'
        · rw [hyc]; exact (key x hx').2
        · have s := hs.ok.sep x hx' y hy' hxy
          exact ⟨by rw [(hall x hx').2, (hall y hy').2]; exact s.inl, by rw [(hall x hx').2, (hall y hy').2]; exact s.data⟩
    · -- no leak
      intro b hb
      rw [hlive] at hb
      have : b = w.next ∧ (w.hdr c).N < srcs.length ∨ b ∈ w.live := by
        by_cases hbig : (w.hdr c).N < srcs.length
        · simp only [hbig, if_true, List.mem_cons] at hb
          rcases hb with h | h
          · exact Or.inl ⟨h, hbig⟩
          · exact Or.inr h
        · simp only [hbig, if_false] at hb; exact Or.inr hb
      rcases this with ⟨h1, h2⟩ | h
      · exact ⟨c, by simp, by rw [hdata, if_pos h2, h1]⟩
      · obtain ⟨d, hd, hdd⟩ := hs.ok.noleak b h
        exact ⟨d, by simp [hd], by rw [(hall d hd).2]; exact hdd⟩
    · intro d hdU hdA
      have hdc : d ≠ c := fun h => hdA (by rw [h]; simp)
      have hdA' : d ∉ A := fun h => hdA (by simp [h])
      exact (hs.unborn d hdU hdA').of_cframe hl hf hdc (hs.inlsep d hdU c hcU hdc) hnil
    · intro x hx y hy hxy
      unfold InlSep
      rw [(hhdrN x).1, (hhdrN x).2, (hhdrN y).1, (hhdrN y).2]
      exact hs.inlsep x hx y hy hxy
  · -- the constructor threw
    intro e w' ⟨hu', hl', hlive, _, hf⟩
    have hnil : (w.hdr c).N = 0 → w'.mem (w.hdr c).inl = [] ∧ w.mem (w.hdr c).inl = [] := by
      intro hN0
      have := hu'.inl_nil (by rw [hf.hdr_N]; exact hN0)
      rw [hf.hdr_inl] at this
      exact ⟨this, hu.inl_nil hN0⟩
    have hall : ∀ d ∈ A, VecOK cfg w' d ∧ w'.hdr d = w.hdr d := fun d hd =>
      (hs.ok.vec d hd).of_cframe hl hf (hneA d hd) (hs.inlsep d (hs.sub d hd) c hcU (hneA d hd)) hci5 hnil (fun b hb => by rw [hlive]; exact hb)
    have hhdrN : ∀ d, (w'.hdr d).N = (w.hdr d).N ∧ (w'.hdr d).inl = (w.hdr d).inl := by
      intro d
      by_cases hdc : d = c
      · subst hdc; exact ⟨hf.hdr_N, hf.hdr_inl⟩
      · rw [hf.hdr_other d hdc]; exact ⟨rfl, rfl⟩
    refine ⟨⟨hs.sub, ⟨fun d hd => (hall d hd).1, fun d hd => by rw [(hhdrN d).1]; exact hs.ok.nmax d hd, hl', by rw [hf.ub]; exact hs.ok.ub, ?_, ?_⟩,
             ?_, fun d hd => by rw [(hhdrN d).1]; exact hs.nmaxU d hd, ?_⟩, hlive, hdataEq hf hall⟩
    · intro x hx y hy hxy
      have s := hs.ok.sep x hx y hy hxy
      exact ⟨by rw [(hall x hx).2, (hall y hy).2]; exact s.inl, by rw [(hall x hx).2, (hall y hy).2]; exact s.data⟩
    · intro b hb
      rw [hlive] at hb
      obtain ⟨d, hd, hdd⟩ := hs.ok.noleak b hb
      exact ⟨d, hd, by rw [(hall d hd).2]; exact hdd⟩
    · intro d hdU hdA
      by_cases hdc : d = c
      · subst hdc; exact hu'
      · exact (hs.unborn d hdU hdA).of_cframe hl hf hdc (hs.inlsep d hdU c hcU hdc) hnil
    · intro x hx y hy hxy
      unfold InlSep
      rw [(hhdrN x).1, (hhdrN x).2, (hhdrN y).1, (hhdrN y).2]
      exact hs.inlsep x hx y hy hxy

/-- DESTRUCTION of a constructed container: it leaves the system, its block (if any) is returned, every other
    container is untouched, and its storage is unborn again -/
theorem SysAll.dtor {cfg : Cfg} {w : World α} {U A : List Nat} {c : Nat} (hs : SysAll cfg w U A) (hc : c ∈ A) :
    (dtor cfg c w).sat
      (fun _ w' => SysAll cfg w' U (A.filter (· ≠ c)) ∧ w'.hdr = w.hdr ∧
                   ∀ d ∈ A, d ≠ c → w'.mem (w.hdr d).data = w.mem (w.hdr d).data)
      (fun _ _ => False) := by
  have hvc := hs.ok.vec c hc
  have hl := hs.ok.led
  have hn5 := hl.next_ok.2
  refine Res.sat_mono (dtor_sat cfg c w hvc hl) ?_ (fun _ _ h => h)
  intro _ w' ⟨hu', hl', hub, hh, hlive, hmem, hown⟩
  have hmemA : ∀ {b : Nat}, b ∈ A → b ≠ c → b ∈ A.filter (· ≠ c) := fun hb hne => List.mem_filter.mpr ⟨hb, by simpa using hne⟩
  have hfilt : ∀ {b : Nat}, b ∈ A.filter (· ≠ c) → b ∈ A ∧ b ≠ c := fun hb => by
    have := List.mem_filter.mp hb; exact ⟨this.1, by simpa using this.2⟩
  -- memory of the other containers' buffers
  have hother : ∀ d ∈ A, d ≠ c → w'.mem (w.hdr d).data = w.mem (w.hdr d).data ∧ w'.mem (w.hdr d).inl = w.mem (w.hdr d).inl := by
    intro d hd hdc
    have hvd := hs.ok.vec d hd
    have hsep := hs.ok.sep d hd c hc hdc
    have hdi5 := hvd.inl_lt
    have hci5 := hvc.inl_lt
    have hinl : w'.mem (w.hdr d).inl = w.mem (w.hdr d).inl := by
      by_cases hid : (w.hdr d).inl = (w.hdr c).data
      · -- then c sits in its in-object buffer, which is the shared null block
        have hch : (w.hdr c).data = (w.hdr c).inl := by
          by_cases hch : (w.hdr c).data = (w.hdr c).inl
          · exact hch
          · have := (hvc.data_odd hl hch).1; omega
        rcases hsep.inl with hne | ⟨hN1, hN2⟩
        · exact absurd (hid.trans hch) hne
        · have e1 := hvd.inl_nil hN1
          have e2 := hu'.inl_nil (by rw [hh]; exact hN2)
          rw [hh] at e2
          rw [e1, hid, hch, e2]
      · exact hmem _ hid
    refine ⟨?_, hinl⟩
    by_cases hdh : (w.hdr d).data = (w.hdr d).inl
    · rw [hdh]; exact hinl
    · exact hmem _ (hsep.data hdh)
  have hlive_keep : ∀ d ∈ A, d ≠ c → (w.hdr d).data ≠ (w.hdr d).inl → (w.hdr d).data ∈ w'.live := by
    intro d hd hdc hne
    have h1 := ((hs.ok.vec d hd).heap hne).1
    rw [hlive]
    split
    · exact (List.mem_erase_of_ne ((hs.ok.sep d hd c hc hdc).data hne)).mpr h1
    · exact h1
  have hvec : ∀ d ∈ A, d ≠ c → VecOK cfg w' d := by
    intro d hd hdc
    have hvd := hs.ok.vec d hd
    obtain ⟨hmd, hmi⟩ := hother d hd hdc
    refine hvd.transfer (by rw [hh]) (by rw [hmd]) (fun i hi => by unfold IsObj; rw [hmd]; exact hvd.objs i hi)
      (fun i h1 h2 => by unfold IsRaw; rw [hmd]; exact hvd.raws i h1 h2) ?_ ?_
    · intro hne
      exact ⟨hlive_keep d hd hdc hne, by rw [hown]; exact (hvd.heap hne).2⟩
    · intro hne
      obtain ⟨h1, h2⟩ := hvd.idle hne
      exact ⟨by rw [hmi]; exact h1, fun i hi => by unfold IsRaw; rw [hmi]; exact h2 i hi⟩
  refine ⟨⟨fun d hd => hs.sub d (hfilt hd).1, ⟨fun d hd => hvec d (hfilt hd).1 (hfilt hd).2, fun d hd => by rw [hh]; exact hs.ok.nmax d (hfilt hd).1,
            hl', by rw [hub]; exact hs.ok.ub, ?_, ?_⟩, ?_, fun d hd => by rw [hh]; exact hs.nmaxU d hd, ?_⟩, hh,
          fun d hd hdc => (hother d hd hdc).1⟩
  · intro x hx y hy hxy
    have s := hs.ok.sep x (hfilt hx).1 y (hfilt hy).1 hxy
    exact ⟨by rw [hh]; exact s.inl, by rw [hh]; exact s.data⟩
  · intro b hb
    have hb' : b ∈ w.live ∧ ((w.hdr c).N < (w.hdr c).cap → b ≠ (w.hdr c).data) := by
      rw [hlive] at hb
      by_cases hcap : (w.hdr c).N < (w.hdr c).cap
      · simp only [hcap, if_true] at hb
        exact ⟨List.mem_of_mem_erase hb, fun _ => ((hl.nodup.mem_erase_iff).mp hb).1⟩
      · simp only [hcap, if_false] at hb
        exact ⟨hb, fun h => absurd h hcap⟩
    obtain ⟨d, hd, hdd⟩ := hs.ok.noleak b hb'.1
    by_cases hdc : d = c
    · exfalso
      rw [hdc] at hdd
      have hb5 := (hl.live_ok b hb'.1).1
      have hne : (w.hdr c).data ≠ (w.hdr c).inl := by have := hvc.inl_lt; omega
      exact hb'.2 ((hvc.heap_iff).mpr hne) hdd.symm
    · exact ⟨d, hmemA hd hdc, by rw [hh]; exact hdd⟩
  · intro d hdU hdA
    by_cases hdc : d = c
    · rw [hdc]; exact hu'
    · have hdA' : d ∉ A := fun h => hdA (hmemA h hdc)
      have hud := hs.unborn d hdU hdA'
      have hdi5 := hud.inl_lt
      have hm : w'.mem (w.hdr d).inl = w.mem (w.hdr d).inl := by
        by_cases hid : (w.hdr d).inl = (w.hdr c).data
        · have hch : (w.hdr c).data = (w.hdr c).inl := by
            by_cases hch : (w.hdr c).data = (w.hdr c).inl
            · exact hch
            · have := (hvc.data_odd hl hch).1; omega
          rcases hs.inlsep d hdU c (hs.sub c hc) hdc with hne | ⟨hN1, hN2⟩
          · exact absurd (hid.trans hch) hne
          · have e1 := hud.inl_nil hN1
            have e2 := hu'.inl_nil (by rw [hh]; exact hN2)
            rw [hh] at e2
            rw [e1, hid, hch, e2]
        · exact hmem _ hid
      exact ⟨by rw [hh]; exact hdi5, by rw [hh, hm]; exact hud.len, fun i hi => by rw [hh] at hi ⊢; unfold IsRaw; rw [hm]; exact hud.raws i hi⟩
  · intro x hx y hy hxy
    unfold InlSep
    rw [hh]
    exact hs.inlsep x hx y hy hxy

end SvModel
