/-
C10 / C14: "a growing call that knows its element count up front moves the contents to a new buffer at most once".

Like the iterator protocol (Trace.lean) this is a property of the event trace alone, so it is proved for EVERY world and
every fault list, with no invariant: `AB k m` — the computation `m` adds at most `k` allocation events to the trace,
whether it returns or throws.  It is closed under the monad combinators; `allocate` is the only primitive that adds
one; every operation of the growing families is shown to be `AB 1` (and the shrinking ones `AB 0`).
-/
import SvModel.Ops
import SvModel.Proofs.Hoare

namespace SvModel
open Gen
variable {α β γ : Type}

def Ev.isAlloc : Ev → Bool
  | .alloc _ _ _ => true
  | _ => false

def nAlloc (t : List Ev) : Nat := t.countP Ev.isAlloc

theorem nAlloc_append (a b : List Ev) : nAlloc (a ++ b) = nAlloc a + nAlloc b := by simp [nAlloc, List.countP_append]
theorem nAlloc_snoc (t : List Ev) (e : Ev) (h : e.isAlloc = false) : nAlloc (t ++ [e]) = nAlloc t := by
  rw [nAlloc_append]; simp [nAlloc, h]
theorem nAlloc_snoc_alloc (t : List Ev) (b n a : Nat) : nAlloc (t ++ [.alloc b n a]) = nAlloc t + 1 := by
  rw [nAlloc_append]; simp [nAlloc, List.countP_cons, Ev.isAlloc]

/-- `m` adds at most `k` allocation events, whether it returns or throws -/
def AB (k : Nat) (m : M α β) : Prop := ∀ w, nAlloc (m w).world.trace ≤ nAlloc w.trace + k

theorem AB.mono {k k' : Nat} {m : M α β} (h : AB k m) (hk : k ≤ k') : AB k' m := fun w => Nat.le_trans (h w) (by omega)
theorem AB.pure (b : β) : AB 0 (pure b : M α β) := fun _ => Nat.le_refl _
theorem AB.throwE (e : Exc) : AB 0 (throwE e : M α β) := fun _ => Nat.le_refl _

theorem AB.bind {m : M α β} {f : β → M α γ} {k1 k2 : Nat} (h1 : AB k1 m) (h2 : ∀ b, AB k2 (f b)) : AB (k1 + k2) (m >>= f) := by
  intro w
  have a := h1 w
  rw [bind_run]
  cases hm : m w with
  | ok b w' => rw [hm] at a; simp only [Res.world] at a; simp only []; have := h2 b w'; omega
  | thrown e w' => rw [hm] at a; simp only [Res.world] at a ⊢; omega

/-- the allocation, if any, happens in the continuation -/
theorem AB.bind0 {m : M α β} {f : β → M α γ} {k : Nat} (h1 : AB 0 m) (h2 : ∀ b, AB k (f b)) : AB k (m >>= f) :=
  (AB.bind h1 h2).mono (by omega)
/-- the allocation, if any, happens in the first computation -/
theorem AB.bindL {m : M α β} {f : β → M α γ} {k : Nat} (h1 : AB k m) (h2 : ∀ b, AB 0 (f b)) : AB k (m >>= f) :=
  (AB.bind h1 h2).mono (by omega)

theorem AB.tryCatch {m : M α β} {h : Exc → M α β} {k1 k2 : Nat} (h1 : AB k1 m) (h2 : ∀ e, AB k2 (h e)) : AB (k1 + k2) (tryCatch m h) := by
  intro w
  have a := h1 w
  rw [tryCatch_run]
  cases hm : m w with
  | ok b w' => rw [hm] at a; simp only [Res.world] at a ⊢; omega
  | thrown e w' => rw [hm] at a; simp only [Res.world] at a; simp only []; have := h2 e w'; omega

theorem AB.tryCatchL {m : M α β} {h : Exc → M α β} {k : Nat} (h1 : AB k m) (h2 : ∀ e, AB 0 (h e)) : AB k (SvModel.tryCatch m h) :=
  (AB.tryCatch h1 h2).mono (by omega)

theorem AB.finally {m : M α β} {fin : M α Unit} {k : Nat} (h1 : AB k m) (h2 : AB 0 fin) : AB k (finally_ m fin) := by
  intro w
  have a := h1 w
  rw [finally_run]
  cases hm : m w with
  | ok b w' =>
    rw [hm] at a; simp only [Res.world] at a
    have c := h2 w'
    simp only []
    cases hf : fin w' with
    | ok u w'' => rw [hf] at c; simp only [Res.world] at c ⊢; omega
    | thrown e w'' => rw [hf] at c; simp only [Res.world] at c ⊢; omega
  | thrown e w' =>
    rw [hm] at a; simp only [Res.world] at a
    have c := h2 w'
    simp only []
    cases hf : fin w' with
    | ok u w'' => rw [hf] at c; simp only [Res.world] at c ⊢; omega
    | thrown e' w'' => rw [hf] at c; simp only [Res.world] at c ⊢; omega

theorem AB.ite {c : Prop} [Decidable c] {m n : M α β} {k : Nat} (h1 : AB k m) (h2 : AB k n) : AB k (if c then m else n) := by
  split <;> assumption

/-! ### primitives -/
theorem AB.tick (on : Bool) (e : Exc) : AB 0 (tick on e : M α Unit) := by
  intro w; unfold SvModel.tick
  cases on
  · exact Nat.le_refl _
  · match w.faults with
    | [] => exact Nat.le_refl _
    | 0 :: _ => exact Nat.le_refl _
    | (_+1) :: _ => exact Nat.le_refl _

theorem AB.getV (c : Nat) : AB 0 (getV c : M α Vec) := fun _ => Nat.le_refl _
theorem AB.modV (c : Nat) (f : Vec → Vec) : AB 0 (modV c f : M α Unit) := fun _ => Nat.le_refl _
theorem AB.setSize (c n : Nat) : AB 0 (setSize c n : M α Unit) := AB.modV _ _
theorem AB.setDataPtr (c n : Nat) : AB 0 (setDataPtr c n : M α Unit) := AB.modV _ _
theorem AB.setCapacity (c n : Nat) : AB 0 (setCapacity c n : M α Unit) := AB.modV _ _
theorem AB.setData (c b n s : Nat) : AB 0 (setData c b n s : M α Unit) := AB.modV _ _
theorem AB.allocTemp : AB 0 (allocTemp : M α Nat) := fun _ => Nat.le_refl _
theorem AB.readSlot (b i : Nat) : AB 0 (readSlot b i : M α (Val α)) := by
  intro w; unfold SvModel.readSlot; split <;> exact Nat.le_refl _

theorem AB.putObj (c : Cfg) (b i : Nat) (v : Val α) (e : Ev) (he : e.isAlloc = false) : AB 0 (putObj c b i v e : M α Unit) := by
  intro w; unfold SvModel.putObj
  split
  · show nAlloc (if c.trivial then w.trace else w.trace ++ [e]) ≤ _
    split
    · exact Nat.le_refl _
    · rw [nAlloc_snoc _ _ he]; exact Nat.le_refl _
  · exact Nat.le_refl _
theorem AB.setObj (c : Cfg) (b i : Nat) (v : Val α) (e : Ev) (he : e.isAlloc = false) : AB 0 (setObj c b i v e : M α Unit) := by
  intro w; unfold SvModel.setObj
  split
  · show nAlloc (if c.trivial then w.trace else w.trace ++ [e]) ≤ _
    split
    · exact Nat.le_refl _
    · rw [nAlloc_snoc _ _ he]; exact Nat.le_refl _
  · exact Nat.le_refl _
theorem AB.huskSlot (c : Cfg) (b i : Nat) : AB 0 (huskSlot c b i : M α Unit) := by
  intro w; unfold SvModel.huskSlot
  split
  · split <;> exact Nat.le_refl _
  · exact Nat.le_refl _
theorem AB.destroyAt (c : Cfg) (b i : Nat) : AB 0 (destroyAt c b i : M α Unit) := by
  intro w; unfold SvModel.destroyAt
  split
  · show nAlloc (if c.trivial then w.trace else w.trace ++ [Ev.dtor b i]) ≤ _
    split
    · exact Nat.le_refl _
    · rw [nAlloc_snoc _ _ rfl]; exact Nat.le_refl _
  · exact Nat.le_refl _
theorem AB.deallocate (a b n : Nat) : AB 0 (deallocate a b n : M α Unit) := by
  intro w; unfold SvModel.deallocate
  split
  · show nAlloc (w.trace ++ [Ev.dealloc b n a]) ≤ _
    rw [nAlloc_snoc _ _ rfl]; exact Nat.le_refl _
  · exact Nat.le_refl _

/-- the one primitive that allocates -/
theorem AB.allocate (c : Cfg) (a n : Nat) : AB 1 (allocate c a n : M α Nat) := by
  unfold SvModel.allocate
  refine AB.bind0 (AB.tick _ _) (fun _ => ?_)
  intro w
  show nAlloc (w.trace ++ [Ev.alloc w.next n a]) ≤ _
  rw [nAlloc_snoc_alloc]; exact Nat.le_refl _

theorem ev_ite_noalloc (p : Bool) (a b : Ev) (ha : a.isAlloc = false) (hb : b.isAlloc = false) : (if p then a else b).isAlloc = false := by
  cases p <;> simp [ha, hb]

theorem AB.constructSrc (c : Cfg) (b i : Nat) (s : Src α) : AB 0 (constructSrc c b i s) := by
  cases s <;> unfold SvModel.constructSrc
  · exact AB.bind0 (AB.tick _ _) (fun _ => AB.putObj _ _ _ _ _ rfl)
  · exact AB.bind0 (AB.tick _ _) (fun _ => AB.putObj _ _ _ _ _ (ev_ite_noalloc _ _ _ rfl rfl))
  · exact AB.bind0 (AB.tick _ _) (fun _ => AB.bind0 (AB.readSlot _ _) (fun _ => AB.putObj _ _ _ _ _ rfl))
  · exact AB.bind0 (AB.tick _ _) (fun _ => AB.bind0 (AB.readSlot _ _) (fun _ =>
      AB.bind0 (AB.putObj _ _ _ _ _ (ev_ite_noalloc _ _ _ rfl rfl)) (fun _ => AB.huskSlot _ _ _)))
  · exact AB.bind0 (AB.tick _ _) (fun _ => AB.putObj _ _ _ _ _ rfl)

theorem AB.assignSrc (c : Cfg) (b i : Nat) (s : Src α) : AB 0 (assignSrc c b i s) := by
  cases s <;> unfold SvModel.assignSrc
  · exact AB.bind0 (AB.tick _ _) (fun _ => AB.setObj _ _ _ _ _ rfl)
  · exact AB.bind0 (AB.tick _ _) (fun _ => AB.setObj _ _ _ _ _ (ev_ite_noalloc _ _ _ rfl rfl))
  · exact AB.bind0 (AB.tick _ _) (fun _ => AB.bind0 (AB.readSlot _ _) (fun _ => AB.setObj _ _ _ _ _ rfl))
  · exact AB.bind0 (AB.tick _ _) (fun _ => AB.bind0 (AB.readSlot _ _) (fun _ =>
      AB.bind0 (AB.setObj _ _ _ _ _ (ev_ite_noalloc _ _ _ rfl rfl)) (fun _ => AB.huskSlot _ _ _)))
  · exact AB.bind0 (AB.tick _ _) (fun _ => AB.setObj _ _ _ _ _ rfl)

theorem AB.destroyRange (c : Cfg) (b : Nat) : ∀ (n first : Nat), AB 0 (destroyRange c b first n : M α Unit)
  | 0, _ => AB.pure ()
  | n+1, first => AB.bind0 (AB.destroyAt _ _ _) (fun _ => AB.destroyRange c b n (first+1))

theorem AB.uninitGen (c : Cfg) (b d : Nat) : ∀ (srcs : List (Src α)) (done : Nat), AB 0 (uninitGen c b d done srcs)
  | [], _ => AB.pure ()
  | s :: rest, done =>
    AB.bind0 (AB.tryCatchL (AB.constructSrc _ _ _ s)
      (fun e => AB.bind0 (AB.destroyRange _ _ _ _) (fun _ => AB.throwE e)))
      (fun _ => AB.uninitGen c b d rest (done + 1))

theorem AB.assignGen (c : Cfg) (b : Nat) : ∀ (srcs : List (Src α)) (d : Nat), AB 0 (assignGen c b d srcs)
  | [], _ => AB.pure ()
  | s :: rest, d => AB.bind0 (AB.assignSrc _ _ _ s) (fun _ => AB.assignGen c b rest (d + 1))

theorem AB.moveBackward (c : Cfg) (b a k : Nat) : ∀ n, AB 0 (moveBackward c b a k n : M α Unit)
  | 0 => AB.pure ()
  | n+1 => AB.bind0 (AB.assignSrc _ _ _ _) (fun _ => AB.moveBackward c b a k n)

/-! ### operations that never allocate -/
theorem AB.wipe (cfg : Cfg) (c : Nat) : AB 0 (wipe cfg c : M α Unit) := by
  unfold SvModel.wipe
  exact AB.bind0 (AB.getV _) (fun v => AB.bind0 (AB.destroyRange _ _ _ _) (fun _ => AB.ite (AB.deallocate _ _ _) (AB.pure ())))

theorem AB.resetData (cfg : Cfg) (c nb ncap n : Nat) : AB 0 (resetData cfg c nb ncap n : M α Unit) := by
  unfold SvModel.resetData
  exact AB.bind0 (AB.wipe _ _) (fun _ => AB.setData _ _ _ _)

theorem AB.uninitializedMove (cfg : Cfg) (strong : Bool) (sb si n db di : Nat) :
    AB 0 (uninitializedMove cfg strong sb si n db di : M α Unit) := by
  unfold SvModel.uninitializedMove; exact AB.uninitGen _ _ _ _ _

theorem AB.moveLeft (cfg : Cfg) (b f n d : Nat) : AB 0 (moveLeft cfg b f n d : M α Unit) := by
  unfold SvModel.moveLeft; exact AB.assignGen _ _ _ _

theorem AB.shiftIntoUninitialized (cfg : Cfg) (c pos n : Nat) : AB 0 (shiftIntoUninitialized cfg c pos n : M α Nat) := by
  unfold SvModel.shiftIntoUninitialized
  exact AB.bind0 (AB.getV _) (fun v => AB.bind0 (AB.uninitializedMove _ _ _ _ _ _ _) (fun _ =>
    AB.bind0 (AB.setSize _ _) (fun _ => AB.bind0 (AB.moveBackward _ _ _ _ _) (fun _ => AB.pure _))))

theorem AB.rollbackShift (cfg : Cfg) (c pos ie d : Nat) (e : Exc) : AB 0 (rollbackShift cfg c pos ie d e : M α Unit) := by
  unfold SvModel.rollbackShift
  exact AB.bind0 (AB.getV _) (fun v => AB.bind0 (AB.moveLeft _ _ _ _ _) (fun _ =>
    AB.bind0 (AB.destroyRange _ _ _ _) (fun _ => AB.bind0 (AB.setSize _ _) (fun _ => AB.throwE _))))

theorem AB.eraseLast (cfg : Cfg) (c : Nat) : AB 0 (eraseLast cfg c : M α Unit) := by
  unfold SvModel.eraseLast
  exact AB.bind0 (AB.getV _) (fun v => AB.bind0 (AB.setSize _ _) (fun _ => AB.destroyAt _ _ _))

theorem AB.eraseAt (cfg : Cfg) (c pos : Nat) : AB 0 (eraseAt cfg c pos : M α Nat) := by
  unfold SvModel.eraseAt
  exact AB.bind0 (AB.getV _) (fun v => AB.bind0 (AB.moveLeft _ _ _ _ _) (fun _ => AB.bind0 (AB.eraseLast _ _) (fun _ => AB.pure _)))

theorem AB.eraseToEnd (cfg : Cfg) (c pos : Nat) : AB 0 (eraseToEnd cfg c pos : M α Unit) := by
  unfold SvModel.eraseToEnd
  exact AB.bind0 (AB.getV _) (fun v => AB.ite (AB.bind0 (AB.setSize _ _) (fun _ => AB.destroyRange _ _ _ _)) (AB.pure _))

theorem AB.eraseRange (cfg : Cfg) (c f l : Nat) : AB 0 (eraseRange cfg c f l : M α Nat) := by
  unfold SvModel.eraseRange
  exact AB.bind0 (AB.getV _) (fun v => AB.ite
    (AB.bind0 (AB.moveLeft _ _ _ _ _) (fun _ => AB.bind0 (AB.eraseToEnd _ _ _) (fun _ => AB.pure _))) (AB.pure _))

theorem AB.eraseAll (cfg : Cfg) (c : Nat) : AB 0 (eraseAll cfg c : M α Unit) := by
  unfold SvModel.eraseAll
  exact AB.bind0 (AB.getV _) (fun v => AB.bind0 (AB.setSize _ _) (fun _ => AB.destroyRange _ _ _ _))

theorem AB.emplaceIntoCurrentEnd (cfg : Cfg) (c : Nat) (s : Src α) : AB 0 (emplaceIntoCurrentEnd cfg c s) := by
  unfold SvModel.emplaceIntoCurrentEnd
  exact AB.bind0 (AB.getV _) (fun v => AB.bind0 (AB.constructSrc _ _ _ _) (fun _ => AB.bind0 (AB.setSize _ _) (fun _ => AB.pure _)))

theorem AB.insertInPlaceSmall (cfg : Cfg) (c pos k : Nat) (fill : M α Unit) (hf : AB 0 fill) :
    AB 0 (insertInPlaceSmall cfg c pos k fill) := by
  unfold SvModel.insertInPlaceSmall
  exact AB.bind0 (AB.shiftIntoUninitialized _ _ _ _) (fun _ => AB.tryCatchL hf (fun e => AB.rollbackShift _ _ _ _ _ e))

theorem AB.insertInPlaceLarge (cfg : Cfg) (c pos : Nat) (tailSrcs : List (Src α)) (withTmp : Option (Src α)) (headFill : Nat → M α Unit)
    (hf : ∀ t, AB 0 (headFill t)) : AB 0 (insertInPlaceLarge cfg c pos tailSrcs withTmp headFill) := by
  unfold SvModel.insertInPlaceLarge
  refine AB.bind0 (AB.getV _) (fun v => AB.bind0 (AB.uninitGen _ _ _ _ _) (fun _ =>
    AB.bind0 (AB.setSize _ _) (fun _ => AB.tryCatchL ?_ (fun e => ?_))))
  · have body : ∀ t, AB 0 (SvModel.uninitializedMove cfg false v.data pos (v.size - pos) v.data (v.size + tailSrcs.length) >>= fun _ =>
        SvModel.setSize c (v.size + tailSrcs.length + (v.size - pos)) >>= fun _ =>
        SvModel.tryCatch (headFill t) (fun e => SvModel.rollbackShift cfg c pos (v.size + tailSrcs.length) (v.size - pos) e) : M α Unit) :=
      fun t => AB.bind0 (AB.uninitializedMove _ _ _ _ _ _ _) (fun _ => AB.bind0 (AB.setSize _ _) (fun _ =>
        AB.tryCatchL (hf t) (fun e => AB.rollbackShift _ _ _ _ _ e)))
    cases withTmp with
    | none => exact body 0
    | some s => exact AB.bind0 AB.allocTemp (fun t => AB.bind0 (AB.constructSrc _ _ _ _) (fun _ => AB.finally (body t) (AB.destroyAt _ _ _)))
  · exact AB.bind0 (AB.getV _) (fun v' => AB.bind0 (AB.destroyRange _ _ _ _) (fun _ =>
      AB.bind0 (AB.setSize _ _) (fun _ => AB.throwE _)))

theorem AB.emplaceIntoCurrent (cfg : Cfg) (c pos : Nat) (s : Src α) : AB 0 (emplaceIntoCurrent cfg c pos s) := by
  unfold SvModel.emplaceIntoCurrent
  refine AB.bind0 (AB.getV _) (fun v => AB.ite (AB.emplaceIntoCurrentEnd _ _ _) ?_)
  exact AB.bind0 AB.allocTemp (fun t => AB.bind0 (AB.constructSrc _ _ _ _) (fun _ =>
    AB.bind0 (AB.finally (AB.bind0 (AB.shiftIntoUninitialized _ _ _ _) (fun _ => AB.assignSrc _ _ _ _)) (AB.destroyAt _ _ _)) (fun _ => AB.pure _)))

theorem AB.emplaceIntoCurrentRv (cfg : Cfg) (c pos : Nat) (s : Src α) : AB 0 (emplaceIntoCurrentRv cfg c pos s) := by
  unfold SvModel.emplaceIntoCurrentRv
  refine AB.bind0 (AB.getV _) (fun v => AB.ite (AB.emplaceIntoCurrentEnd _ _ _) ?_)
  exact AB.bind0 (AB.shiftIntoUninitialized _ _ _ _) (fun _ => AB.bind0 (AB.destroyAt _ _ _) (fun _ =>
    AB.bind0 (AB.constructSrc _ _ _ _) (fun _ => AB.pure _)))

/-! ### the growing operations: at most one allocation -/
theorem AB.checkedAllocate (cfg : Cfg) (a n : Nat) : AB 1 (checkedAllocate cfg a n : M α Nat) := by
  unfold SvModel.checkedAllocate
  exact AB.ite ((AB.throwE _).mono (Nat.zero_le _)) (AB.allocate _ _ _)

theorem AB.allocateBy (cfg : Cfg) (ch : Bool) (a n : Nat) : AB 1 (allocateBy cfg ch a n : M α Nat) := by
  unfold SvModel.allocateBy
  exact AB.ite (AB.checkedAllocate _ _ _) (AB.allocate _ _ _)

theorem AB.calcNewCapacity (cfg : Cfg) (ch : Bool) (v : Vec) (req : Nat) : AB 0 (calcNewCapacity cfg ch v req : M α Nat) := by
  unfold SvModel.calcNewCapacity checkedCalcNewCapacity
  refine AB.ite ?_ (AB.pure _)
  split
  · exact AB.throwE _
  · exact AB.pure _

theorem AB.emplaceIntoReallocationEnd (cfg : Cfg) (c : Nat) (s : Src α) : AB 1 (emplaceIntoReallocationEnd cfg c s) := by
  unfold SvModel.emplaceIntoReallocationEnd emplaceReallocEndTry
  refine AB.bind0 (AB.getV _) (fun v => AB.ite ((AB.throwE _).mono (Nat.zero_le _)) ?_)
  refine AB.bindL (AB.allocate _ _ _) (fun nb => AB.bind0 ?_ (fun _ => AB.bind0 (AB.resetData _ _ _ _ _) (fun _ => AB.pure _)))
  exact AB.tryCatchL
    (AB.bind0 (AB.constructSrc _ _ _ _) (fun _ =>
      AB.tryCatchL (AB.uninitializedMove _ _ _ _ _ _ _) (fun e => AB.bind0 (AB.destroyAt _ _ _) (fun _ => AB.throwE e))))
    (fun e => AB.bind0 (AB.deallocate _ _ _) (fun _ => AB.throwE e))

/-- push_back / emplace_back -/
theorem AB.appendElement (cfg : Cfg) (c : Nat) (s : Src α) : AB 1 (appendElement cfg c s) := by
  unfold SvModel.appendElement
  exact AB.bind0 (AB.getV _) (fun v => AB.ite ((AB.emplaceIntoCurrentEnd _ _ _).mono (Nat.zero_le _)) (AB.emplaceIntoReallocationEnd _ _ _))

theorem AB.appendRealloc (cfg : Cfg) (c : Nat) (strong : Bool) (srcs : List (Src α)) : AB 1 (appendRealloc cfg c strong srcs) := by
  unfold SvModel.appendRealloc
  refine AB.bind0 (AB.getV _) (fun v => AB.bindL (AB.allocate _ _ _) (fun nb => ?_))
  refine AB.bind0 (AB.tryCatchL (AB.uninitGen _ _ _ _ _) (fun e => AB.bind0 (AB.deallocate _ _ _) (fun _ => AB.throwE e))) (fun _ => ?_)
  refine AB.bind0 (AB.tryCatchL (AB.uninitializedMove _ _ _ _ _ _ _)
    (fun e => AB.bind0 (AB.destroyRange _ _ _ _) (fun _ => AB.bind0 (AB.deallocate _ _ _) (fun _ => AB.throwE e)))) (fun _ => ?_)
  exact AB.bind0 (AB.resetData _ _ _ _ _) (fun _ => AB.pure _)

theorem AB.appendCopies (cfg : Cfg) (c count : Nat) (s : Src α) : AB 1 (appendCopies cfg c count s) := by
  unfold SvModel.appendCopies
  refine AB.bind0 (AB.getV _) (fun v => AB.ite (AB.ite ((AB.throwE _).mono (Nat.zero_le _)) (AB.appendRealloc _ _ _ _)) ?_)
  exact (AB.bind0 (AB.uninitGen _ _ _ _ _) (fun _ => AB.bind0 (AB.setSize _ _) (fun _ => AB.pure _))).mono (Nat.zero_le _)

/-- append (first, last) for forward / random-access ranges -/
theorem AB.appendRangeFwd (cfg : Cfg) (c : Nat) (strong : Bool) (srcs : List (Src α)) : AB 1 (appendRangeFwd cfg c strong srcs) := by
  unfold SvModel.appendRangeFwd
  refine AB.bind0 (AB.getV _) (fun v => AB.ite (AB.ite ((AB.throwE _).mono (Nat.zero_le _)) (AB.appendRealloc _ _ _ _)) ?_)
  exact (AB.bind0 (AB.uninitGen _ _ _ _ _) (fun _ => AB.bind0 (AB.setSize _ _) (fun _ => AB.pure _))).mono (Nat.zero_le _)

theorem AB.insertRealloc (cfg : Cfg) (c pos : Nat) (srcs : List (Src α)) : AB 1 (insertRealloc cfg c pos srcs) := by
  unfold SvModel.insertRealloc
  refine AB.bind0 (AB.getV _) (fun v => AB.bindL (AB.allocate _ _ _) (fun nb => ?_))
  refine AB.bind0 (AB.tryCatchL (AB.uninitGen _ _ _ _ _) (fun e => AB.bind0 (AB.deallocate _ _ _) (fun _ => AB.throwE e))) (fun _ => ?_)
  refine AB.bind0 (AB.tryCatchL (AB.uninitializedMove _ _ _ _ _ _ _)
    (fun e => AB.bind0 (AB.destroyRange _ _ _ _) (fun _ => AB.bind0 (AB.deallocate _ _ _) (fun _ => AB.throwE e)))) (fun _ => ?_)
  refine AB.bind0 (AB.tryCatchL (AB.uninitializedMove _ _ _ _ _ _ _)
    (fun e => AB.bind0 (AB.destroyRange _ _ _ _) (fun _ => AB.bind0 (AB.deallocate _ _ _) (fun _ => AB.throwE e)))) (fun _ => ?_)
  exact AB.bind0 (AB.resetData _ _ _ _ _) (fun _ => AB.pure _)

theorem AB.emplaceIntoReallocation (cfg : Cfg) (c pos : Nat) (s : Src α) : AB 1 (emplaceIntoReallocation cfg c pos s) := by
  unfold SvModel.emplaceIntoReallocation
  exact AB.bind0 (AB.getV _) (fun v => AB.ite (AB.emplaceIntoReallocationEnd _ _ _)
    (AB.ite ((AB.throwE _).mono (Nat.zero_le _)) (AB.insertRealloc _ _ _ _)))

/-- insert (pos, x) / emplace (pos, args) -/
theorem AB.emplaceAt (cfg : Cfg) (c pos : Nat) (s : Src α) (rv : Bool) : AB 1 (emplaceAt cfg c pos s rv) := by
  unfold SvModel.emplaceAt
  exact AB.bind0 (AB.getV _) (fun v => AB.ite
    (AB.ite ((AB.emplaceIntoCurrentRv _ _ _ _).mono (Nat.zero_le _)) ((AB.emplaceIntoCurrent _ _ _ _).mono (Nat.zero_le _)))
    (AB.emplaceIntoReallocation _ _ _ _))

/-- insert (pos, n, x) -/
theorem AB.insertCopies (cfg : Cfg) (c pos count : Nat) (s : Src α) : AB 1 (insertCopies cfg c pos count s) := by
  unfold SvModel.insertCopies
  refine AB.bind0 (AB.getV _) (fun v => AB.ite ((AB.pure _).mono (Nat.zero_le _)) (AB.ite
    (AB.ite (AB.appendElement _ _ _) (AB.appendCopies _ _ _ _)) (AB.ite
    (AB.ite ((AB.throwE _).mono (Nat.zero_le _)) (AB.insertRealloc _ _ _ _)) (AB.ite ?_ ?_))))
  · exact (AB.bind0 (AB.insertInPlaceLarge _ _ _ _ _ _ (fun _ => AB.assignGen _ _ _ _)) (fun _ => AB.pure _)).mono (Nat.zero_le _)
  · exact (AB.bind0 AB.allocTemp (fun t => AB.bind0 (AB.constructSrc _ _ _ _) (fun _ =>
      AB.bind0 (AB.finally (AB.insertInPlaceSmall _ _ _ _ _ (AB.assignGen _ _ _ _)) (AB.destroyAt _ _ _)) (fun _ => AB.pure _)))).mono (Nat.zero_le _)

theorem AB.insertRangeHelper (cfg : Cfg) (c pos : Nat) (srcs : List (Src α)) : AB 1 (insertRangeHelper cfg c pos srcs) := by
  unfold SvModel.insertRangeHelper
  refine AB.bind0 (AB.getV _) (fun v => AB.ite (AB.ite ((AB.throwE _).mono (Nat.zero_le _)) (AB.insertRealloc _ _ _ _)) (AB.ite ?_ ?_))
  · exact (AB.bind0 (AB.insertInPlaceLarge _ _ _ _ _ _ (fun _ => AB.assignGen _ _ _ _)) (fun _ => AB.pure _)).mono (Nat.zero_le _)
  · exact (AB.bind0 (AB.insertInPlaceSmall _ _ _ _ _ (AB.assignGen _ _ _ _)) (fun _ => AB.pure _)).mono (Nat.zero_le _)

/-- insert (pos, first, last) for forward / random-access ranges -/
theorem AB.insertRangeFwd (cfg : Cfg) (c pos : Nat) (srcs : List (Src α)) : AB 1 (insertRangeFwd cfg c pos srcs) := by
  unfold SvModel.insertRangeFwd
  refine AB.bind0 (AB.getV _) (fun v => AB.ite (AB.insertRangeHelper _ _ _ _) (AB.ite ?_ (AB.appendRangeFwd _ _ _ _)))
  cases srcs with
  | nil => exact (AB.pure _).mono (Nat.zero_le _)
  | cons s _ => exact AB.appendElement _ _ _

/-- reserve -/
theorem AB.requestCapacity (cfg : Cfg) (c request : Nat) : AB 1 (requestCapacity cfg c request : M α Unit) := by
  unfold SvModel.requestCapacity
  refine AB.bind0 (AB.getV _) (fun v => AB.ite ((AB.pure _).mono (Nat.zero_le _)) ?_)
  refine AB.bind0 (AB.calcNewCapacity _ _ _ _) (fun ncap => AB.bindL (AB.allocateBy _ _ _ _) (fun nb => ?_))
  exact AB.bind0 (AB.tryCatchL (AB.uninitializedMove _ _ _ _ _ _ _) (fun e => AB.bind0 (AB.deallocate _ _ _) (fun _ => AB.throwE e)))
    (fun _ => AB.bind0 (AB.wipe _ _) (fun _ => AB.bind0 (AB.setDataPtr _ _) (fun _ => AB.setCapacity _ _)))

/-- shrink_to_fit -/
theorem AB.shrinkToSize (cfg : Cfg) (c : Nat) : AB 1 (shrinkToSize cfg c : M α Unit) := by
  unfold SvModel.shrinkToSize
  refine AB.bind0 (AB.getV _) (fun v => AB.ite ((AB.pure _).mono (Nat.zero_le _)) ?_)
  refine AB.bindL (AB.ite (AB.bindL (AB.allocate _ _ _) (fun nb => AB.pure _)) ((AB.pure _).mono (Nat.zero_le _))) (fun p => ?_)
  exact AB.bind0 (AB.tryCatchL (AB.uninitializedMove _ _ _ _ _ _ _)
      (fun e => AB.bind0 (AB.ite (AB.deallocate _ _ _) (AB.pure _)) (fun _ => AB.throwE e)))
    (fun _ => AB.bind0 (AB.destroyRange _ _ _ _) (fun _ => AB.bind0 (AB.deallocate _ _ _) (fun _ =>
      AB.bind0 (AB.setDataPtr _ _) (fun _ => AB.setCapacity _ _))))

/-- resize (n) / resize (n, x) -/
theorem AB.resizeWith (cfg : Cfg) (c newSize : Nat) (s : Src α) : AB 1 (resizeWith cfg c newSize s : M α Unit) := by
  unfold SvModel.resizeWith
  refine AB.bind0 (AB.ite (AB.eraseAll _ _) (AB.pure _)) (fun _ => AB.bind0 (AB.getV _) (fun v => AB.ite
    (AB.ite ((AB.throwE _).mono (Nat.zero_le _)) (AB.bindL (AB.appendRealloc _ _ _ _) (fun _ => AB.pure _)))
    (AB.ite ?_ ((AB.eraseToEnd _ _ _).mono (Nat.zero_le _)))))
  exact (AB.bind0 (AB.uninitGen _ _ _ _ _) (fun _ => AB.setSize _ _)).mono (Nat.zero_le _)

/-- assign (n, x) -/
theorem AB.assignWithCopies (cfg : Cfg) (c count : Nat) (s : Src α) : AB 1 (assignWithCopies cfg c count s : M α Unit) := by
  unfold SvModel.assignWithCopies
  refine AB.bind0 (AB.getV _) (fun v => AB.ite ?_ (AB.ite ?_ ?_))
  · exact AB.bind0 (AB.calcNewCapacity _ _ _ _) (fun ncap => AB.bindL (AB.allocateBy _ _ _ _) (fun nb =>
      AB.bind0 (AB.tryCatchL (AB.uninitGen _ _ _ _ _) (fun e => AB.bind0 (AB.deallocate _ _ _) (fun _ => AB.throwE e)))
        (fun _ => AB.resetData _ _ _ _ _)))
  · exact (AB.bind0 (AB.assignGen _ _ _ _) (fun _ => AB.bind0 (AB.uninitGen _ _ _ _ _) (fun _ => AB.setSize _ _))).mono (Nat.zero_le _)
  · exact (AB.bind0 (AB.assignGen _ _ _ _) (fun _ => AB.bind0 (AB.eraseRange _ _ _ _) (fun _ => AB.pure _))).mono (Nat.zero_le _)

/-- assign (first, last) for forward / random-access ranges -/
theorem AB.assignWithRangeFwd (cfg : Cfg) (c : Nat) (srcs : List (Src α)) : AB 1 (assignWithRangeFwd cfg c srcs : M α Unit) := by
  unfold SvModel.assignWithRangeFwd
  refine AB.bind0 (AB.getV _) (fun v => AB.ite ?_ (AB.ite ?_ ?_))
  · exact AB.bind0 (AB.calcNewCapacity _ _ _ _) (fun ncap => AB.bindL (AB.allocateBy _ _ _ _) (fun nb =>
      AB.bind0 (AB.tryCatchL (AB.uninitGen _ _ _ _ _) (fun e => AB.bind0 (AB.deallocate _ _ _) (fun _ => AB.throwE e)))
        (fun _ => AB.resetData _ _ _ _ _)))
  · exact (AB.bind0 (AB.assignGen _ _ _ _) (fun _ => AB.bind0 (AB.uninitGen _ _ _ _ _) (fun _ => AB.setSize _ _))).mono (Nat.zero_le _)
  · exact (AB.bind0 (AB.assignGen _ _ _ _) (fun _ => AB.bind0 (AB.eraseRange _ _ _ _) (fun _ => AB.pure _))).mono (Nat.zero_le _)

end SvModel
