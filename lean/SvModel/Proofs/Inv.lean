/-
Invariants of the L2 model.

`VecOK`  — the storage invariants of one container (property C02's clauses, plus the lifetime split of C03).
`Ledger` — allocator-ledger / block-id facts that every primitive preserves.
`Holds`  — the abstraction to L0: container `c` holds the list `xs`.
`Frame1` — what an operation on container `c` leaves alone.
-/
import SvModel.Proofs.RangeSpec

namespace SvModel
variable {α : Type}

/-- storage invariants of container `c` in world `w` -/
structure VecOK (cfg : Cfg) (w : World α) (c : Nat) : Prop where
  size_le : (w.hdr c).size ≤ (w.hdr c).cap
  cap_ge  : (w.hdr c).N ≤ (w.hdr c).cap
  cap_max : (w.hdr c).cap ≤ max cfg.maxSize (w.hdr c).N
  inl_iff : (w.hdr c).cap = (w.hdr c).N ↔ (w.hdr c).data = (w.hdr c).inl
  inl_lt  : (w.hdr c).inl < 5
  len     : (w.mem (w.hdr c).data).length = (w.hdr c).cap
  objs    : ∀ i, i < (w.hdr c).size → IsObj w (w.hdr c).data i
  raws    : ∀ i, (w.hdr c).size ≤ i → i < (w.hdr c).cap → IsRaw w (w.hdr c).data i
  heap    : (w.hdr c).data ≠ (w.hdr c).inl →
              (w.hdr c).data ∈ w.live ∧ w.owner (w.hdr c).data = (w.hdr c).alloc
  idle    : (w.hdr c).data ≠ (w.hdr c).inl →
              (w.mem (w.hdr c).inl).length = (w.hdr c).N ∧ ∀ i, i < (w.hdr c).N → IsRaw w (w.hdr c).inl i

/-- ledger and block-id facts, preserved by every primitive -/
structure Ledger (w : World α) : Prop where
  next_ok  : w.next % 2 = 1 ∧ 5 ≤ w.next
  ntmp_ok  : w.ntmp % 2 = 0 ∧ 6 ≤ w.ntmp
  live_ok  : ∀ b, b ∈ w.live → 5 ≤ b ∧ b % 2 = 1 ∧ b < w.next
  nodup    : w.live.Nodup
  freed    : ∀ b, 5 ≤ b → b % 2 = 1 → b ∉ w.live → w.mem b = []
  tmpfresh : ∀ b, w.ntmp ≤ b → b % 2 = 0 → w.mem b = []

/-- container `c` holds exactly the values `xs` -/
def Holds (w : World α) (c : Nat) (xs : List (Val α)) : Prop :=
  xs.length = (w.hdr c).size ∧ ∀ i (h : i < xs.length), (w.mem (w.hdr c).data)[i]? = some (.obj xs[i])

/-- live-block accounting of an operation on container `c` (the allocator-ledger side of C04): a heap block that
    existed before the operation is live afterwards iff it was live and it is not a buffer that `c` moved away from;
    a block created during the operation is live afterwards iff it is `c`'s buffer now.  So nothing allocated on behalf
    of `c` outlives the operation except its buffer, and nothing that belongs to anybody else is released. -/
structure LiveAcc (w w' : World α) (c : Nat) : Prop where
  old   : ∀ b, b < w.next → (b ∈ w'.live ↔ b ∈ w.live ∧ (b = (w.hdr c).data → (w'.hdr c).data = b))
  fresh : ∀ b, w.next ≤ b → (b ∈ w'.live ↔ b = (w'.hdr c).data)

theorem VecOK.data_lt_next {cfg : Cfg} {w : World α} {c : Nat} (hv : VecOK cfg w c) (hl : Ledger w) : (w.hdr c).data < w.next := by
  by_cases hne : (w.hdr c).data = (w.hdr c).inl
  · rw [hne]; have := hv.inl_lt; have := hl.next_ok; omega
  · exact (hl.live_ok _ (hv.heap hne).1).2.2

/-- an operation that neither allocated nor released anything and left `c` in its buffer -/
theorem LiveAcc.of_same {cfg : Cfg} {w w' : World α} {c : Nat} (hl : Ledger w) (hv : VecOK cfg w c) (hlive : w'.live = w.live)
    (hdata : (w'.hdr c).data = (w.hdr c).data) : LiveAcc w w' c := by
  refine ⟨fun b _ => ?_, fun b hb => ?_⟩
  · rw [hlive]
    exact ⟨fun h => ⟨h, fun hb => by rw [hdata, hb]⟩, fun h => h.1⟩
  · rw [hlive]
    constructor
    · intro h; have := (hl.live_ok b h).2.2; omega
    · intro h
      have := hv.data_lt_next hl
      rw [hdata] at h; omega

theorem LiveAcc.trans {cfg : Cfg} {a b d : World α} {c : Nat} (hl : Ledger a) (hv : VecOK cfg a c)
    (h1 : LiveAcc a b c) (h2 : LiveAcc b d c) (hn1 : a.next ≤ b.next)
    (hinl : (b.hdr c).inl = (a.hdr c).inl)
    (hd1 : (b.hdr c).data = (a.hdr c).data ∨ (b.hdr c).data = (a.hdr c).inl ∨ a.next ≤ (b.hdr c).data)
    (hd2 : (d.hdr c).data = (b.hdr c).data ∨ (d.hdr c).data = (b.hdr c).inl ∨ b.next ≤ (d.hdr c).data) : LiveAcc a d c := by
  have hi5 := hv.inl_lt
  have hn5 := hl.next_ok.2
  refine ⟨fun x hx => ?_, fun x hx => ?_⟩
  · rw [h2.old x (by omega), h1.old x hx]
    constructor
    · rintro ⟨⟨hxa, h3⟩, h4⟩
      refine ⟨hxa, fun hxd => ?_⟩
      exact h4 (h3 hxd).symm
    · rintro ⟨hxa, h3⟩
      have hx5 := (hl.live_ok x hxa).1
      refine ⟨⟨hxa, fun hxd => ?_⟩, fun hxb => ?_⟩
      · have hdd := h3 hxd
        rcases hd2 with h | h | h
        · rw [← h]; exact hdd
        · rw [hinl] at h; omega
        · omega
      · rcases hd1 with h | h | h
        · exact h3 (by rw [hxb, h])
        · omega
        · omega
  · by_cases hxb : x < b.next
    · rw [h2.old x hxb, h1.fresh x hx]
      constructor
      · rintro ⟨h3, h4⟩; exact (h4 h3).symm
      · intro h3
        rcases hd2 with h | h | h
        · exact ⟨by rw [h3, h], fun _ => h3.symm⟩
        · rw [hinl] at h; omega
        · omega
    · exact h2.fresh x (by omega)

/-- an operation on container `c`: the other headers, the blocks that are neither `c`'s buffers nor fresh, and their
    ownership are untouched -/
structure Frame1 (w w' : World α) (c : Nat) : Prop where
  hdr_other : ∀ d, d ≠ c → w'.hdr d = w.hdr d
  hdr_N     : (w'.hdr c).N = (w.hdr c).N
  hdr_inl   : (w'.hdr c).inl = (w.hdr c).inl
  mem_other : ∀ b, b ≠ (w.hdr c).data → b ≠ (w.hdr c).inl → b < w.next → b % 2 = 1 ∨ b < 5 → w'.mem b = w.mem b
  owner_old : ∀ b, b < w.next → w'.owner b = w.owner b
  next_mono : w.next ≤ w'.next
  data_new  : (w'.hdr c).data = (w.hdr c).data ∨ (w'.hdr c).data = (w.hdr c).inl ∨ w.next ≤ (w'.hdr c).data
  live      : LiveAcc w w' c

theorem Frame1.trans {cfg : Cfg} {a b d : World α} {c : Nat} (hl : Ledger a) (hv : VecOK cfg a c)
    (h1 : Frame1 a b c) (h2 : Frame1 b d c) : Frame1 a d c := by
  refine ⟨fun x hx => (h2.hdr_other x hx).trans (h1.hdr_other x hx), h2.hdr_N.trans h1.hdr_N, h2.hdr_inl.trans h1.hdr_inl, ?_,
          fun x hx => (h2.owner_old x (Nat.lt_of_lt_of_le hx h1.next_mono)).trans (h1.owner_old x hx),
          Nat.le_trans h1.next_mono h2.next_mono, ?_,
          LiveAcc.trans hl hv h1.live h2.live h1.next_mono h1.hdr_inl h1.data_new h2.data_new⟩
  · intro x hx1 hx2 hx3 hx4
    rw [h2.mem_other x ?_ (by rw [h1.hdr_inl]; exact hx2) (Nat.lt_of_lt_of_le hx3 h1.next_mono) hx4]
    · exact h1.mem_other x hx1 hx2 hx3 hx4
    · rcases h1.data_new with h | h | h
      · rw [h]; exact hx1
      · rw [h]; exact hx2
      · omega
  · rcases h2.data_new with h | h | h
    · rw [h]; exact h1.data_new
    · rw [h, h1.hdr_inl]; exact Or.inr (Or.inl rfl)
    · exact Or.inr (Or.inr (Nat.le_trans h1.next_mono h))

theorem Holds.unique {w : World α} {c : Nat} {xs ys : List (Val α)} (h1 : Holds w c xs) (h2 : Holds w c ys) : xs = ys := by
  apply List.ext_getElem (by rw [h1.1, h2.1])
  intro i hi1 hi2
  have a := h1.2 i hi1
  have b := h2.2 i hi2
  rw [a] at b
  injection b with b; injection b with b

/-- control state without the headers, tolerant of temporaries having been created -/
structure Ctl0 (w w' : World α) : Prop where
  owner : w'.owner = w.owner
  live  : w'.live = w.live
  next  : w'.next = w.next
  ub    : w'.ub = w.ub
  ntmp  : w.ntmp ≤ w'.ntmp ∧ w'.ntmp % 2 = w.ntmp % 2
  len   : ∀ b, (b % 2 = 1 ∨ b < 6 ∨ w'.ntmp ≤ b) → (w'.mem b).length = (w.mem b).length

theorem Ctl.to0 {w w' : World α} (h : Ctl w w') : Ctl0 w w' :=
  ⟨h.owner, h.live, h.next, h.ub, by rw [h.ntmp]; exact ⟨Nat.le_refl _, rfl⟩, fun b _ => h.len b⟩

theorem Ctl0.refl (w : World α) : Ctl0 w w := (Ctl.refl w).to0

theorem Ctl0.trans {a b c : World α} (h1 : Ctl0 a b) (h2 : Ctl0 b c) : Ctl0 a c :=
  ⟨h2.owner.trans h1.owner, h2.live.trans h1.live, h2.next.trans h1.next, h2.ub.trans h1.ub,
   ⟨Nat.le_trans h1.ntmp.1 h2.ntmp.1, h2.ntmp.2.trans h1.ntmp.2⟩,
   fun x hx => (h2.len x hx).trans (h1.len x (by
     rcases hx with h | h | h
     · exact Or.inl h
     · exact Or.inr (Or.inl h)
     · exact Or.inr (Or.inr (Nat.le_trans h2.ntmp.1 h))))⟩

theorem Ledger.of_ctl0 {w w' : World α} (h : Ledger w) (hc : Ctl0 w w') : Ledger w' := by
  refine ⟨by rw [hc.next]; exact h.next_ok, ⟨by rw [hc.ntmp.2]; exact h.ntmp_ok.1, Nat.le_trans h.ntmp_ok.2 hc.ntmp.1⟩, ?_,
          by rw [hc.live]; exact h.nodup, ?_, ?_⟩
  · intro b hb; rw [hc.live] at hb; rw [hc.next]; exact h.live_ok b hb
  · intro b h1 h2 h3
    rw [hc.live] at h3
    have := h.freed b h1 h2 h3
    have hl := hc.len b (Or.inl h2)
    rw [this] at hl
    exact List.eq_nil_of_length_eq_zero (by simpa using hl)
  · intro b h1 h2
    have := h.tmpfresh b (Nat.le_trans hc.ntmp.1 h1) h2
    have hl := hc.len b (Or.inr (Or.inr h1))
    rw [this] at hl
    exact List.eq_nil_of_length_eq_zero (by simpa using hl)

/-- the Ledger only depends on the control part of the world and on which blocks are empty -/
theorem Ledger.of_ctl {w w' : World α} (h : Ledger w) (hc : Ctl w w') : Ledger w' := by
  refine ⟨by rw [hc.next]; exact h.next_ok, by rw [hc.ntmp]; exact h.ntmp_ok, ?_, by rw [hc.live]; exact h.nodup, ?_, ?_⟩
  · intro b hb; rw [hc.live] at hb; rw [hc.next]; exact h.live_ok b hb
  · intro b h1 h2 h3
    rw [hc.live] at h3
    have := h.freed b h1 h2 h3
    have hl := hc.len b
    rw [this] at hl
    exact List.eq_nil_of_length_eq_zero (by simpa using hl)
  · intro b h1 h2
    rw [hc.ntmp] at h1
    have := h.tmpfresh b h1 h2
    have hl := hc.len b
    rw [this] at hl
    exact List.eq_nil_of_length_eq_zero (by simpa using hl)

end SvModel
