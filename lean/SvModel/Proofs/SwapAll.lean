/-
swap, every path, inside a system of containers: `swap_unequal_no_propagate` (allocators unequal and not propagating on
swap: always element by element, reallocating the smaller-capacity container when the other's elements do not fit) and
the member `swap` for every allocator relation.
-/
import SvModel.Proofs.SwapSys
import SvModel.Proofs.SwapUnequal
import SvModel.Proofs.MoveAssignAll

namespace SvModel
open Gen
variable {α : Type}

/-- outcome of a swap that may allocate: as `SwapPost` without the claim that the set of live blocks is unchanged -/
def SwapPostW (cfg : Cfg) (w : World α) (U A : List Nat) (c o : Nat) (w' : World α) : Prop :=
  SysAll cfg w' U A ∧ (∀ xs, Holds w o xs → Holds w' c xs) ∧ (∀ xs, Holds w c xs → Holds w' o xs) ∧
    (∀ d ∈ A, d ≠ c → d ≠ o → ∀ xs, Holds w d xs → Holds w' d xs)

/-- … and after a throw (an element operation or the allocator) -/
def SwapFailA (cfg : Cfg) (w : World α) (U A : List Nat) (c o : Nat) (e : Exc) (w' : World α) : Prop :=
  (e = .alloc ∨ e = .elem) ∧ SysAll cfg w' U A ∧ (∃ ys, Holds w' c ys) ∧ (∃ ys, Holds w' o ys) ∧
    (∀ d ∈ A, d ≠ c → d ≠ o → ∀ xs, Holds w d xs → Holds w' d xs) ∧ w'.live = w.live

theorem SwapPostW.symm {cfg : Cfg} {w w' : World α} {U A : List Nat} {c o : Nat} (h : SwapPostW cfg w U A o c w') : SwapPostW cfg w U A c o w' :=
  ⟨h.1, h.2.2.1, h.2.1, fun d hd h1 h2 => h.2.2.2 d hd h2 h1⟩

theorem SwapFailA.symm {cfg : Cfg} {w w' : World α} {U A : List Nat} {c o : Nat} {e : Exc} (h : SwapFailA cfg w U A o c e w') : SwapFailA cfg w U A c o e w' :=
  ⟨h.1, h.2.1, h.2.2.2.1, h.2.2.1, fun d hd h1 h2 => h.2.2.2.2.1 d hd h2 h1, h.2.2.2.2.2⟩

theorem SwapPost.toW {cfg : Cfg} {w w' : World α} {U A : List Nat} {c o : Nat} (h : SwapPost cfg w U A c o w') : SwapPostW cfg w U A c o w' :=
  ⟨h.1, h.2.1, h.2.2.1, h.2.2.2.1⟩
theorem SwapFail.toA {cfg : Cfg} {w w' : World α} {U A : List Nat} {c o : Nat} {e : Exc} (h : SwapFail cfg w U A c o e w') : SwapFailA cfg w U A c o e w' :=
  ⟨Or.inr h.1, h.2⟩

/-- returning the value a computation was started with -/
theorem bind_pure_ret {β γ : Type} (m : M α β) (T : β → M α Unit) (R : β → M α γ) :
    (m >>= fun b => T b >>= fun _ => R b) = ((m >>= fun b => T b >>= fun _ => pure b) >>= R) := by
  funext w
  rw [bind_run, bind_run, bind_run]
  cases m w with
  | thrown e w1 => rfl
  | ok b w1 =>
    simp only []
    rw [bind_run, bind_run]
    cases T b w1 <;> rfl

/-- a chain of three single-container steps (on `o`, on `c`, unobservable) keeps the system -/
theorem SysAll.of_abort {cfg : Cfg} {w w' : World α} {U A : List Nat} {c o : Nat} (hs : SysAll cfg w U A) (hc : c ∈ A) (ho : o ∈ A)
    (hoc : o ≠ c) (h : SwapAbort cfg w w' c o) :
    SysAll cfg w' U A ∧ (∃ ys, Holds w' c ys) ∧ (∃ ys, Holds w' o ys) ∧
      (∀ d ∈ A, d ≠ c → d ≠ o → ∀ xs, Holds w d xs → Holds w' d xs) ∧ w'.live = w.live := by
  obtain ⟨wh, wh2, hb1, hb2, hst, hl1, hl2⟩ := h
  have hs1 := hs.step ho hb1
  have hs2 := hs1.step hc hb2
  have hb3 : Basic cfg wh2 w' c := hst.basic hb2.led hb2.vec
  have hs3 := hs2.step hc hb3
  refine ⟨hs3, (hs3.ok.vec c hc).holds_exists, (hs3.ok.vec o ho).holds_exists, ?_, ?_⟩
  · intro d hd hdc hdo xs hx
    exact hs2.ok.holds_other hc hb3 hd hdc (hs1.ok.holds_other hc hb2 hd hdc (hs.ok.holds_other ho hb1 hd hdo hx))
  · rw [hst.live, hl2]

/-- `swap_unequal_no_propagate (c, o)`, `capacity c ≤ capacity o`, allocators not propagating on swap -/
theorem SysAll.swapUnequalNoPropagate {cfg : Cfg} {w : World α} {U A : List Nat} {c o : Nat} (hs : SysAll cfg w U A)
    (hc : c ∈ A) (ho : o ∈ A) (hco : c ≠ o) (hcap : (w.hdr c).cap ≤ (w.hdr o).cap) (hp : cfg.policy.pocs = false) :
    (SvModel.swapUnequalNoPropagate cfg c o w).sat (fun _ w' => SwapPostW cfg w U A c o w') (fun e w' => SwapFailA cfg w U A c o e w') := by
  have hoc : o ≠ c := fun e => hco e.symm
  have hvc := hs.ok.vec c hc
  have hvo := hs.ok.vec o ho
  have hl := hs.ok.led
  have hNo := hs.ok.nmax o ho
  have hocapmax : (w.hdr o).cap ≤ cfg.maxSize := by have := hvo.cap_max; omega
  have hosz := hvo.size_le
  have hcsz := hvc.size_le
  unfold SvModel.swapUnequalNoPropagate
  rw [bind_run, getV_run]; simp only []
  rw [bind_run, getV_run]; simp only []
  have e0 : guard_swapUnequalNoPropagate_0 (genv2 cfg (w.hdr c) (w.hdr o)) = decide ((w.hdr c).cap < (w.hdr o).size) := rfl
  have e1 : guard_swapUnequalNoPropagate_1 (genv2 cfg (w.hdr c) (w.hdr o)) = decide ((w.hdr c).N < (w.hdr c).cap) := by
    unfold guard_swapUnequalNoPropagate_1 hasAllocation genv2 genv; simp only [Bool.false_eq_true, if_false]
  have e2 : guard_swapUnequalNoPropagate_2 (genv2 cfg (w.hdr c) (w.hdr o)) = decide ((w.hdr c).size < (w.hdr o).size) := rfl
  rw [e0, e1, e2]
  -- the allocator exchange at the end changes nothing
  have tailAlloc : ∀ (w1 : World α) (P : World α → Prop), SysAll cfg w1 U A →
      (∀ w2, SysAll cfg w2 U A → w2.mem = w1.mem → w2.live = w1.live →
        (∀ d, (w2.hdr d).data = (w1.hdr d).data ∧ (w2.hdr d).size = (w1.hdr d).size ∧ (w2.hdr d).cap = (w1.hdr d).cap) → P w2) →
      (maybeSwapAlloc cfg c o w1).sat (fun _ w2 => P w2) (fun _ _ => False) := by
    intro w1 P hs1 hP
    obtain ⟨w2, hrun, hs2, hm, hlv, hh⟩ := hs1.maybeSwapAlloc_inline hc ho hco (Or.inr hp)
    rw [hrun]; exact hP w2 hs2 hm hlv hh
  by_cases hgrow : (w.hdr c).cap < (w.hdr o).size
  · rw [if_pos (decide_eq_true hgrow)]
    obtain ⟨hd, hi⟩ := hs.ok.apart hc ho hoc (by omega)
    obtain ⟨hb1, hb2⟩ := newCapacity_bounds cfg.maxSize (w.hdr c).cap (w.hdr o).size hgrow (by omega)
    generalize hncap : newCapacity cfg.maxSize (w.hdr c).cap (w.hdr o).size = ncap at hb1 hb2
    have hle : (w.hdr c).size ≤ (w.hdr o).size := by omega
    have hN : (w.hdr c).N < ncap := by have := hvc.cap_ge; omega
    try simp only []
    try rw [hncap]
    rw [bind_pure_ret (allocate cfg (w.hdr c).alloc ncap)]
    have hbuild := swapUneq_build_sat cfg c o w ncap hvc hl hvo hco hle hb1 hd hi
    refine sat_bind (Q := fun _ w' => ∃ wh, Basic cfg w wh o ∧ Basic cfg wh w' c ∧
          w'.hdr c = { w.hdr c with data := w.next, cap := ncap, size := (w.hdr o).size } ∧
          w'.hdr o = { w.hdr o with size := (w.hdr c).size } ∧
          (∀ k, k < (w.hdr o).size → (w'.mem w.next)[k]? = (w.mem (w.hdr o).data)[k]?) ∧
          (∀ k, k < (w.hdr c).size → (w'.mem (w.hdr o).data)[k]? = (w.mem (w.hdr c).data)[k]?))
        (E1 := fun e w' => (e = .alloc ∨ e = .elem) ∧ SwapAbort cfg w w' c o)
        (sat_bind hbuild (fun nb w5 hb' => ?_) (fun e w' h => h)) (fun _ w1 hpost => ?_) (fun e w' hab' => ?_)
    · obtain ⟨hnb, hbt⟩ := hb'
      subst hnb
      exact Res.sat_mono (swapUneq_finish_sat cfg c o w w5 ncap hvc hl hvo hco hbt hN hb2 hle hb1 hd hi) (fun _ _ h => h) (fun _ _ h => h.elim)
    · obtain ⟨wh, hbo, hbc, hhc, hho, hvn, hvo'⟩ := hpost
      obtain ⟨hs1, _, _, hoth⟩ := hs.two_steps hc ho hoc hbo hbc
      refine Res.sat_mono (tailAlloc w1 (fun w2 => SwapPostW cfg w U A c o w2) hs1 ?_) (fun _ _ h => h) (fun _ _ h => h.elim)
      intro w2 hs2 hm _ hh
      refine ⟨hs2, ?_, ?_, ?_⟩
      · intro xs hx
        refine ⟨by rw [(hh c).2.1, hhc]; exact hx.1, fun i hi' => ?_⟩
        rw [(hh c).1, hhc, hm]; simp only []
        rw [hvn i (by rw [← hx.1]; exact hi')]; exact hx.2 i hi'
      · intro xs hx
        refine ⟨by rw [(hh o).2.1, hho]; exact hx.1, fun i hi' => ?_⟩
        rw [(hh o).1, hho, hm]; simp only []
        rw [hvo' i (by rw [← hx.1]; exact hi')]; exact hx.2 i hi'
      · intro d hd' hdc hdo xs hx
        exact (hoth d hd' hdc hdo xs hx).of_same (by rw [hm]) (hh d).1 (hh d).2.1
    · obtain ⟨he, hab⟩ := hab'
      obtain ⟨a, b, c', d, e'⟩ := hs.of_abort hc ho hoc hab
      exact ⟨he, a, b, c', d, e'⟩
  · rw [if_neg (by simpa using hgrow)]
    by_cases hlt : (w.hdr c).size < (w.hdr o).size
    · rw [if_pos (decide_eq_true hlt)]
      refine Res.sat_mono (SysAll.swapElements hs hc ho hco (Or.inr hp) (Nat.le_of_lt hlt) (by omega)) ?_ ?_
      · intro _ w' ⟨a, b, c', d, _, _⟩; exact ⟨a, b, c', d⟩
      · intro e w' h; exact ⟨Or.inr h.1, h.2⟩
    · rw [if_neg (by simpa using hlt)]
      have hcomm : (SvModel.swapElements cfg o c >>= fun _ => maybeSwapAlloc cfg c o) w = (SvModel.swapElements cfg o c >>= fun _ => maybeSwapAlloc cfg o c) w := by
        rw [bind_run, bind_run]
        cases SvModel.swapElements cfg o c w with
        | ok u w1 => exact maybeSwapAlloc_comm cfg c o hco w1
        | thrown e w1 => rfl
      rw [hcomm]
      refine Res.sat_mono (SysAll.swapElements hs ho hc hoc (Or.inr hp) (by omega) (by omega)) ?_ ?_
      · intro _ w' ⟨a, b, c', d, _, _⟩; exact SwapPostW.symm ⟨a, b, c', d⟩
      · intro e w' h; exact SwapFailA.symm ⟨Or.inr h.1, h.2⟩

/-- SWAP (member `swap`) of two constructed containers of the same type, EVERY path and every allocator relation.
    `hal`: allocators that the traits declare interchangeable without propagation really are equal. -/
theorem SysAll.swapAny {cfg : Cfg} {w : World α} {U A : List Nat} {c o : Nat} (hs : SysAll cfg w U A)
    (hc : c ∈ A) (ho : o ∈ A) (hco : c ≠ o) (hN : (w.hdr c).N = (w.hdr o).N)
    (hnull : (w.hdr c).N = 0 → (w.hdr c).inl = (w.hdr o).inl)
    (hal : allocationsAreSwappable cfg.policy = true → SwapAllocOK cfg w c o) :
    (SvModel.swap cfg c o w).sat (fun _ w' => SwapPostW cfg w U A c o w') (fun e w' => SwapFailA cfg w U A c o e w') := by
  have hoc : o ≠ c := fun e => hco e.symm
  by_cases hok : SwapAllocOK cfg w c o
  · exact Res.sat_mono (SysAll.swap hs hc ho hco hN hnull hok) (fun _ _ h => h.toW) (fun _ _ h => h.toA)
  · have hsw : ¬ allocationsAreSwappable cfg.policy = true := fun h => hok (hal h)
    have hp : cfg.policy.pocs = false := by
      cases h : cfg.policy.pocs
      · rfl
      · exact absurd (Or.inl h) hok
    have hneq : ¬ (w.hdr o).alloc = (w.hdr c).alloc := fun h => hok (Or.inr h.symm)
    have e20 : guard_swap2_0 (genv2 cfg (w.hdr c) (w.hdr o)) = decide ((w.hdr c).cap < (w.hdr o).cap) := rfl
    have e21 : guard_swap2_1 (genv2 cfg (w.hdr c) (w.hdr o)) = ((w.hdr o).alloc == (w.hdr c).alloc) := rfl
    have e22 : guard_swap2_2 (genv2 cfg (w.hdr c) (w.hdr o)) = ((w.hdr o).alloc == (w.hdr c).alloc) := rfl
    unfold SvModel.swap
    rw [bind_run, getV_run]; simp only []
    rw [bind_run, getV_run]; simp only []
    rw [if_neg hsw, e20, e21, e22]
    have hb : ((w.hdr o).alloc == (w.hdr c).alloc) = false := by simpa using hneq
    rw [hb]
    simp only [Bool.false_eq_true, if_false]
    by_cases hlt : (w.hdr c).cap < (w.hdr o).cap
    · rw [if_pos (decide_eq_true hlt)]
      exact SysAll.swapUnequalNoPropagate hs hc ho hco (Nat.le_of_lt hlt) hp
    · rw [if_neg (by simpa using hlt)]
      exact Res.sat_mono (SysAll.swapUnequalNoPropagate hs ho hc hoc (by omega) hp) (fun _ _ h => h.symm) (fun _ _ h => h.symm)

end SvModel
