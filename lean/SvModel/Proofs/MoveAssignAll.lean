/-
Move assignment, every path, inside a system of containers.

The paths of `move_assign` (`move_assign_default` for its three inline-capacity relations, `move_assign_unequal_no_propagate`):
  * steal the source's buffer                                   — C09Sys.move_assign_steals_sys
  * element-wise into the destination's current buffer          — SysAll.moveAssignInPlace
  * element-wise into a freshly allocated buffer                — moveAssignRealloc_sat
  * element-wise into the in-object buffer of a heap destination — moveAssignToInline_sat
  * both inline capacities 0, source empty and unallocated       — SysAll.moveAssignNull
are combined into one statement about `moveAssign`.
-/
import SvModel.Proofs.MoveAssignSys
import SvModel.Proofs.MoveAssignRealloc
import SvModel.Proofs.MoveAssignToInline
import SvModel.Proofs.MoveCtorAll

namespace SvModel
open Gen
variable {α : Type}

/-- what a move assignment `c = std::move (o)` guarantees on return … -/
def MovePost (cfg : Cfg) (w : World α) (U A : List Nat) (c o : Nat) (w' : World α) : Prop :=
  SysAll cfg w' U A ∧ (∀ xs, Holds w o xs → Holds w' c xs) ∧ (∃ ys, Holds w' o ys) ∧
    (∀ d ∈ A, d ≠ c → d ≠ o → ∀ xs, Holds w d xs → Holds w' d xs)

/-- … and after a throw -/
def MoveFail (cfg : Cfg) (w : World α) (U A : List Nat) (c o : Nat) (w' : World α) : Prop :=
  SysAll cfg w' U A ∧ (∃ zs, Holds w' c zs) ∧ (∃ ys, Holds w' o ys) ∧
    (∀ d ∈ A, d ≠ c → d ≠ o → ∀ xs, Holds w d xs → Holds w' d xs)

/-- the source's buffer is none of the destination's buffers, unless both inline capacities are 0 -/
theorem SysAll.apart2 {cfg : Cfg} {w : World α} {U A : List Nat} {c o : Nat} (hs : SysAll cfg w U A) (hc : c ∈ A) (ho : o ∈ A) (hoc : o ≠ c)
    (hnz : ¬ ((w.hdr c).N = 0 ∧ (w.hdr o).N = 0)) :
    (w.hdr o).data ≠ (w.hdr c).data ∧ (w.hdr o).data ≠ (w.hdr c).inl := by
  have hvc := hs.ok.vec c hc
  have hvo := hs.ok.vec o ho
  have hl := hs.ok.led
  have hii : (w.hdr o).inl ≠ (w.hdr c).inl := by
    rcases (hs.ok.sep o ho c hc hoc).inl with h | ⟨h1, h2⟩
    · exact h
    · exact absurd ⟨h2, h1⟩ hnz
  have hc5 := hvc.inl_lt
  have ho5 := hvo.inl_lt
  by_cases hoh : (w.hdr o).data = (w.hdr o).inl
  · rw [hoh]
    refine ⟨?_, hii⟩
    by_cases hch : (w.hdr c).data = (w.hdr c).inl
    · rw [hch]; exact hii
    · have := (hvc.data_odd hl hch).1; omega
  · have := (hvo.data_odd hl hoh).1
    exact ⟨(hs.ok.sep o ho c hc hoc).data hoh, by omega⟩

/-- a change of `o` followed by a change of `c` -/
theorem SysAll.two_steps {cfg : Cfg} {w wh w' : World α} {U A : List Nat} {c o : Nat} (hs : SysAll cfg w U A) (hc : c ∈ A) (ho : o ∈ A)
    (hoc : o ≠ c) (hb1 : Basic cfg w wh o) (hb2 : Basic cfg wh w' c) :
    SysAll cfg w' U A ∧ (∃ zs, Holds w' c zs) ∧ (∃ ys, Holds w' o ys) ∧
      (∀ d ∈ A, d ≠ c → d ≠ o → ∀ xs, Holds w d xs → Holds w' d xs) := by
  have hs_h := hs.step ho hb1
  have hs1 := hs_h.step hc hb2
  refine ⟨hs1, (hs1.ok.vec c hc).holds_exists, (hs1.ok.vec o ho).holds_exists, ?_⟩
  intro d hd hdc hdo xs hx
  exact hs_h.ok.holds_other hc hb2 hd hdc (hs.ok.holds_other ho hb1 hd hdo hx)

theorem MovePost.of_two {cfg : Cfg} {w wh w' : World α} {U A : List Nat} {c o : Nat} (hs : SysAll cfg w U A) (hc : c ∈ A) (ho : o ∈ A)
    (hoc : o ≠ c) (hb1 : Basic cfg w wh o) (hb2 : Basic cfg wh w' c) {D : Nat}
    (hdata : (w'.hdr c).data = D) (hsize : (w'.hdr c).size = (w.hdr o).size)
    (hval : ∀ k, k < (w.hdr o).size → (w'.mem D)[k]? = (w.mem (w.hdr o).data)[k]?) : MovePost cfg w U A c o w' := by
  obtain ⟨a, _, b, d⟩ := hs.two_steps hc ho hoc hb1 hb2
  refine ⟨a, ?_, b, d⟩
  intro xs hx
  refine ⟨by rw [hsize]; exact hx.1, fun i hi' => ?_⟩
  rw [hdata, hval i (by rw [← hx.1]; exact hi')]; exact hx.2 i hi'

/-- REALLOCATING element-wise move assignment in a system -/
theorem SysAll.moveAssignRealloc {cfg : Cfg} {w : World α} {U A : List Nat} {c o : Nat} (hs : SysAll cfg w U A)
    (hc : c ∈ A) (ho : o ∈ A) (hoc : o ≠ c)
    (hd : (w.hdr o).data ≠ (w.hdr c).data) (hi : (w.hdr o).data ≠ (w.hdr c).inl) (Al ncap : Nat)
    (hN : (w.hdr c).N < ncap) (hmax : ncap ≤ cfg.maxSize) (hfit : (w.hdr o).size ≤ ncap) :
    ((allocate cfg Al ncap >>= fun nb =>
      tryCatch (uninitializedMove cfg false (w.hdr o).data 0 (w.hdr o).size nb 0)
        (fun ex => deallocate Al nb ncap >>= fun _ => throwE ex) >>= fun _ =>
      resetData cfg c nb ncap (w.hdr o).size >>= fun _ => SvModel.setAlloc c Al) w).sat
      (fun _ w' => MovePost cfg w U A c o w') (fun _ w' => MoveFail cfg w U A c o w') := by
  have hvc := hs.ok.vec c hc
  have hl := hs.ok.led
  refine Res.sat_mono (moveAssignRealloc_sat cfg c o w Al ncap hvc hl (hs.ok.vec o ho) hN hmax hfit hd hi) ?_ ?_
  · intro _ w' ⟨wh, hb1, hb2, hhc, hval⟩
    exact MovePost.of_two hs hc ho hoc hb1 hb2 (by rw [hhc]) (by rw [hhc]) hval
  · intro e w' h
    rcases h with ⟨_, hq⟩ | ⟨_, wh, hb1, hst⟩
    · have hb := (Strong.of_quiet hl hq).basic hl hvc
      have hs1 := hs.step hc hb
      exact ⟨hs1, (hs1.ok.vec c hc).holds_exists, (hs1.ok.vec o ho).holds_exists,
             fun d hd' hdc _ xs hx => hs.ok.holds_other hc hb hd' hdc hx⟩
    · have hvh : VecOK cfg wh c := (hs.step ho hb1).ok.vec c hc
      exact hs.two_steps hc ho hoc hb1 (hst.basic hb1.led hvh)

/-- element-wise move assignment INTO THE IN-OBJECT BUFFER of a heap destination, in a system -/
theorem SysAll.moveAssignToInline {cfg : Cfg} {w : World α} {U A : List Nat} {c o : Nat} (hs : SysAll cfg w U A)
    (hc : c ∈ A) (ho : o ∈ A) (hoc : o ≠ c)
    (hd : (w.hdr o).data ≠ (w.hdr c).data) (hi : (w.hdr o).data ≠ (w.hdr c).inl) (a' : Nat)
    (hheap : (w.hdr c).N < (w.hdr c).cap) (hfit : (w.hdr o).size ≤ (w.hdr c).N) :
    (((uninitializedMove cfg false (w.hdr o).data 0 (w.hdr o).size (w.hdr c).inl 0 >>= fun _ =>
        destroyRange cfg (w.hdr c).data 0 (w.hdr c).size >>= fun _ =>
        deallocate (w.hdr c).alloc (w.hdr c).data (w.hdr c).cap >>= fun _ =>
        setDataPtr c (w.hdr c).inl >>= fun _ => setCapacity c (w.hdr c).N) >>= fun _ =>
      setSize c (w.hdr o).size >>= fun _ => SvModel.setAlloc c a') w).sat
      (fun _ w' => MovePost cfg w U A c o w') (fun _ w' => MoveFail cfg w U A c o w') := by
  have hvc := hs.ok.vec c hc
  have hl := hs.ok.led
  refine Res.sat_mono (moveAssignToInline_sat cfg c o w a' hvc hl (hs.ok.vec o ho) hheap hfit hd hi) ?_ ?_
  · intro _ w' ⟨wh, hb1, hb2, hhc, hval⟩
    exact MovePost.of_two hs hc ho hoc hb1 hb2 (by rw [hhc]) (by rw [hhc]) hval
  · intro e w' ⟨_, wh, hb1, hst⟩
    have hvh : VecOK cfg wh c := (hs.step ho hb1).ok.vec c hc
    exact hs.two_steps hc ho hoc hb1 (hst.basic hb1.led hvh)

/-- both inline capacities 0 and the source empty and unallocated: "stealing" the null buffer is destroying the
    destination and constructing it again empty -/
theorem SysAll.moveAssignNull {cfg : Cfg} {w : World α} {U A : List Nat} {c o : Nat} (hs : SysAll cfg w U A)
    (hc : c ∈ A) (ho : o ∈ A) (hne : c ≠ o) (hcN : (w.hdr c).N = 0) (hoN : (w.hdr o).N = 0) (hocap : (w.hdr o).cap = 0)
    (hnull : (w.hdr c).inl = (w.hdr o).inl) (a' : Nat) :
    ∃ w', (moveAllocationPointer cfg c o >>= fun _ => SvModel.setAlloc c a') w = .ok () w' ∧ MovePost cfg w U A c o w' := by
  have hoc : o ≠ c := fun e => hne e.symm
  have hvo := hs.ok.vec o ho
  have hosz : (w.hdr o).size = 0 := by have := hvo.size_le; omega
  have hod : (w.hdr o).data = (w.hdr o).inl := (hvo.inl_iff).mp (by rw [hocap, hoN])
  have hself : ({ w.hdr o with cap := (w.hdr o).N, data := (w.hdr o).inl, size := 0 } : Vec) = w.hdr o := by
    cases h : w.hdr o with
    | mk N inl cap size data alloc =>
      rw [h] at hoN hocap hosz hod
      simp only [] at hoN hocap hosz hod ⊢
      rw [hocap, hosz, hod, hoN]
  have hd := SysAll.dtor hs hc
  unfold SvModel.dtor at hd
  rw [bind_run, C09.moveAllocationPointer_run, bind_run]
  cases hr : wipe cfg c w with
  | thrown e w1 => rw [hr] at hd; exact hd.elim
  | ok u w1 =>
    rw [hr] at hd
    obtain ⟨hs1, hh1, hmem1⟩ := hd
    simp only []
    -- the rest of the program is the construction of an empty container
    have htail : ((setData c (w.hdr o).data (w.hdr o).cap (w.hdr o).size >>= fun _ => setDefault o) w1) =
        .ok () { w1 with hdr := upd (upd w1.hdr c { w1.hdr c with data := (w.hdr o).data, cap := (w.hdr o).cap, size := (w.hdr o).size }) o { w1.hdr o with cap := (w1.hdr o).N, data := (w1.hdr o).inl, size := 0 } } := by
      show Res.ok () _ = Res.ok () _
      congr 1
      apply world_hdr_ext
      intro x
      by_cases hxo : x = o
      · subst hxo; simp [upd_other _ _ _ _ hoc]
      · by_cases hxc : x = c
        · subst hxc; simp [upd_other _ _ _ _ hxo]
        · simp [upd_other _ _ _ _ hxo, upd_other _ _ _ _ hxc]
    rw [htail]
    simp only []
    have hfillrun : SvModel.ctorFill cfg c a' false ([] : List (Src α)) w1 = .ok () { w1 with hdr := upd w1.hdr c { w1.hdr c with alloc := a', cap := (w1.hdr c).N, data := (w1.hdr c).inl, size := 0 } } := by
      unfold SvModel.ctorFill
      rw [bind_run]
      show (getV c >>= _) _ = _
      rw [bind_run, getV_run]; simp only []
      rw [if_neg (by simp)]
      show Res.ok () _ = Res.ok () _
      congr 1
      apply world_hdr_ext
      intro x
      by_cases hxc : x = c
      · subst hxc; simp
      · simp [upd_other _ _ _ _ hxc]
    have hsame : SvModel.setAlloc c a' ({ w1 with hdr := upd (upd w1.hdr c { w1.hdr c with data := (w.hdr o).data, cap := (w.hdr o).cap, size := (w.hdr o).size }) o { w1.hdr o with cap := (w1.hdr o).N, data := (w1.hdr o).inl, size := 0 } } : World α) =
        SvModel.ctorFill cfg c a' false ([] : List (Src α)) w1 := by
      rw [hfillrun]
      show Res.ok () _ = Res.ok () _
      congr 1
      apply world_hdr_ext
      intro x
      rw [hh1]
      by_cases hxo : x = o
      · subst hxo; simp [upd_other _ _ _ _ hoc]; exact hself
      · by_cases hxc : x = c
        · subst hxc; simp [upd_other _ _ _ _ hxo, hocap, hosz, hod, hcN, hnull]
        · simp [upd_other _ _ _ _ hxo, upd_other _ _ _ _ hxc]
    rw [hsame]
    have hcA1 : c ∉ A.filter (· ≠ c) := fun hm => by simpa using (List.mem_filter.mp hm).2
    have hext : External ([] : List (Src α)) := fun s hs => by cases hs
    have hfill := SysAll.ctorFill hs1 (hs.sub c hc) hcA1 a' false ([] : List (Src α)) (fun _ => Nat.zero_le _)
      ⟨hext.nonmoving, hext.live w1, fun s hs => by cases hs⟩
    rw [hfillrun] at hfill ⊢
    obtain ⟨hsf, hcf, _, hof⟩ := hfill
    refine ⟨_, rfl, hsf.congr (fun x => ?_), ?_, ?_, ?_⟩
    · constructor
      · intro hx
        by_cases hxc : x = c
        · rw [hxc]; simp
        · exact List.mem_cons_of_mem _ (List.mem_filter.mpr ⟨hx, by simpa using hxc⟩)
      · intro hx
        rcases List.mem_cons.mp hx with e | hm
        · rw [e]; exact hc
        · exact (List.mem_filter.mp hm).1
    · intro xs hx
      have : xs = [] := List.eq_nil_of_length_eq_zero (by rw [hx.1, hosz])
      rw [this]; simpa using hcf
    · have ho1 : o ∈ A.filter (· ≠ c) := List.mem_filter.mpr ⟨ho, by simpa using hoc⟩
      obtain ⟨h1, h2⟩ := hof o ho1
      exact ⟨[], ⟨by rw [h1, hh1, hosz]; rfl, fun i hi' => by simp at hi'⟩⟩
    · intro d hd' hdc hdo xs hx
      have hd1 : d ∈ A.filter (· ≠ c) := List.mem_filter.mpr ⟨hd', by simpa using hdc⟩
      obtain ⟨h1, h2⟩ := hof d hd1
      refine ⟨by rw [h1, hh1]; exact hx.1, fun i hi' => ?_⟩
      rw [h1, hh1]
      rw [hh1] at h2
      rw [h2, hmem1 d hd' hdc]; exact hx.2 i hi'

theorem M_bind_assoc {β γ δ : Type} (m : M α β) (g : β → M α γ) (f : γ → M α δ) : (m >>= g) >>= f = m >>= fun b => g b >>= f :=
  funext (bind_assoc_run m g f)

/-- `move_assign_default` (allocators interchangeable; `hfinal`: the destination ends up with the allocator that owns
    whatever block it ends up with) -/
theorem SysAll.moveAssignDefault {cfg : Cfg} {w : World α} {U A : List Nat} {c o : Nat} (hs : SysAll cfg w U A)
    (hc : c ∈ A) (ho : o ∈ A) (hne : c ≠ o)
    (hnull : (w.hdr c).N = 0 → (w.hdr o).N = 0 → (w.hdr c).inl = (w.hdr o).inl)
    (hfinal : maybeMove cfg.policy (w.hdr c).alloc (w.hdr o).alloc = (w.hdr o).alloc) :
    (SvModel.moveAssignDefault cfg c o w).sat (fun _ w' => MovePost cfg w U A c o w') (fun _ w' => MoveFail cfg w U A c o w') := by
  have hoc : o ≠ c := fun e => hne e.symm
  have hvc := hs.ok.vec c hc
  have hvo := hs.ok.vec o ho
  have hl := hs.ok.led
  have hNc := hs.ok.nmax c hc
  have hNo := hs.ok.nmax o ho
  have hocapmax : (w.hdr o).cap ≤ cfg.maxSize := by have := hvo.cap_max; omega
  have hccapmax : (w.hdr c).cap ≤ cfg.maxSize := by have := hvc.cap_max; omega
  have hosz := hvo.size_le
  by_cases hst : C09.StealAllowed (w.hdr c) (w.hdr o)
  · -- steal
    rw [C09.moveAssignDefault_steals cfg c o w hst]
    obtain ⟨w', hrun, hs', hco, hoe, _, hoth⟩ := C09.stealAssign_sys cfg w U A c o hs hc ho hne hst hfinal
    rw [hrun]
    refine ⟨hs', hco, ⟨[], hoe⟩, fun d hd hdc hdo xs hx => ?_⟩
    obtain ⟨h1, h2⟩ := hoth d hd hdo hdc
    exact ⟨by rw [h1]; exact hx.1, fun i hi' => by rw [h1, h2]; exact hx.2 i hi'⟩
  have hdec := steal_trichotomy (w.hdr c) (w.hdr o) hvo.cap_ge
  unfold SvModel.moveAssignDefault
  rw [bind_run, getV_run]; simp only []
  rw [bind_run, getV_run]; simp only []
  rw [hfinal]
  rcases hdec with h | hns | ⟨hcN, hoN, hocap⟩
  · exact absurd h hst
  · -- element-wise
    obtain ⟨hnz, hns1, hns2⟩ := hns
    obtain ⟨hd, hi⟩ := hs.apart2 hc ho hoc hnz
    rw [if_neg hnz]
    by_cases hle : (w.hdr o).N ≤ (w.hdr c).N
    · rw [if_pos hle]
      have hnb := hns1 hle
      have e10 : guard_moveAssignDefault1_0 (genv2 cfg (w.hdr c) (w.hdr o)) = decide ((w.hdr c).N < (w.hdr o).cap) := rfl
      have e11 : guard_moveAssignDefault1_1 (genv2 cfg (w.hdr c) (w.hdr o)) = decide ((w.hdr c).N < (w.hdr c).cap) := rfl
      have e12 : guard_moveAssignDefault1_2 (genv2 cfg (w.hdr c) (w.hdr o)) = decide ((w.hdr c).size < (w.hdr o).size) := rfl
      rw [e10, e11, e12, if_neg (by simpa using hnb)]
      have hfitN : (w.hdr o).size ≤ (w.hdr c).N := by omega
      by_cases hch : (w.hdr c).N < (w.hdr c).cap
      · rw [if_pos (decide_eq_true hch)]
        simp only [M_bind_assoc]
        have := SysAll.moveAssignToInline hs hc ho hoc hd hi (w.hdr o).alloc hch hfitN
        simp only [M_bind_assoc] at this
        exact this
      · rw [if_neg (by simpa using hch)]
        have hcin : (w.hdr c).data = (w.hdr c).inl := (hvc.inl_iff).mp (by have := hvc.cap_ge; omega)
        simp only [M_bind_assoc]
        have := SysAll.moveAssignInPlace hs hc ho hoc (by have := hvc.cap_ge; omega) (w.hdr o).alloc (Or.inl hcin)
        refine Res.sat_mono this ?_ ?_
        · intro _ w' ⟨a, b, c', _, _, _, _, _, f⟩; exact ⟨a, b, c', f⟩
        · intro _ w' ⟨a, b, c', _, f⟩; exact ⟨a, c', b, f⟩
    · rw [if_neg hle]
      have hlt : (w.hdr c).N < (w.hdr o).N := by omega
      have hnb := hns2 hlt
      have e20 : guard_moveAssignDefault2_0 (genv2 cfg (w.hdr c) (w.hdr o)) = decide ((w.hdr o).N < (w.hdr o).cap) := by
        unfold guard_moveAssignDefault2_0 hasAllocation genv2 genv; simp only [Bool.false_eq_true, if_false]
      have e21 : guard_moveAssignDefault2_1 (genv2 cfg (w.hdr c) (w.hdr o)) =
          (decide ((w.hdr c).cap < (w.hdr o).size) || (decide ((w.hdr c).N < (w.hdr c).cap) && !((w.hdr o).alloc == (w.hdr c).alloc))) := by
        unfold guard_moveAssignDefault2_1 hasAllocation genv2 genv; simp only [Bool.false_eq_true, if_false]
      have e22 : guard_moveAssignDefault2_2 (genv2 cfg (w.hdr c) (w.hdr o)) = decide ((w.hdr c).size < (w.hdr o).size) := rfl
      rw [e20, e21, e22, if_neg (by simpa using hnb)]
      by_cases hre : (decide ((w.hdr c).cap < (w.hdr o).size) || (decide ((w.hdr c).N < (w.hdr c).cap) && !((w.hdr o).alloc == (w.hdr c).alloc))) = true
      · rw [if_pos hre]
        simp only [M_bind_assoc]
        generalize hncap : (if (w.hdr c).cap < (w.hdr o).size then newCapacity cfg.maxSize (w.hdr c).cap (w.hdr o).size else (w.hdr c).cap) = ncap
        have hbounds : (w.hdr c).N < ncap ∧ ncap ≤ cfg.maxSize ∧ (w.hdr o).size ≤ ncap := by
          by_cases hgrow : (w.hdr c).cap < (w.hdr o).size
          · rw [if_pos hgrow] at hncap
            obtain ⟨h1, h2⟩ := newCapacity_bounds cfg.maxSize (w.hdr c).cap (w.hdr o).size hgrow (by omega)
            rw [hncap] at h1 h2
            have := hvc.cap_ge
            exact ⟨by omega, h2, h1⟩
          · rw [if_neg hgrow] at hncap
            have hheap : (w.hdr c).N < (w.hdr c).cap := by
              simp only [Bool.or_eq_true, Bool.and_eq_true, decide_eq_true_eq] at hre
              rcases hre with h | ⟨h, _⟩
              · exact absurd h hgrow
              · exact h
            rw [← hncap]; exact ⟨hheap, hccapmax, by omega⟩
        exact SysAll.moveAssignRealloc hs hc ho hoc hd hi (w.hdr o).alloc ncap hbounds.1 hbounds.2.1 hbounds.2.2
      · rw [if_neg hre]
        simp only [M_bind_assoc]
        have hre' : ¬ (w.hdr c).cap < (w.hdr o).size ∧ ((w.hdr c).N < (w.hdr c).cap → (w.hdr o).alloc = (w.hdr c).alloc) := by
          simp only [Bool.or_eq_true, Bool.and_eq_true, decide_eq_true_eq, not_or, not_and, Bool.not_eq_true', Bool.not_eq_false', beq_iff_eq] at hre
          exact ⟨hre.1, fun h => by simpa using hre.2 h⟩
        have hok : (w.hdr c).data = (w.hdr c).inl ∨ (w.hdr o).alloc = (w.hdr c).alloc := by
          by_cases hch : (w.hdr c).N < (w.hdr c).cap
          · exact Or.inr (hre'.2 hch)
          · exact Or.inl ((hvc.inl_iff).mp (by have := hvc.cap_ge; omega))
        have := SysAll.moveAssignInPlace hs hc ho hoc (by omega) (w.hdr o).alloc hok
        refine Res.sat_mono this ?_ ?_
        · intro _ w' ⟨a, b, c', _, _, _, _, _, f⟩; exact ⟨a, b, c', f⟩
        · intro _ w' ⟨a, b, c', _, f⟩; exact ⟨a, c', b, f⟩
  · -- both inline capacities 0, source empty and unallocated
    rw [if_pos ⟨hcN, hoN⟩]
    obtain ⟨w', hrun, hp⟩ := SysAll.moveAssignNull hs hc ho hne hcN hoN hocap (hnull hcN hoN) (w.hdr o).alloc
    rw [hrun]; exact hp

/-- `move_assign_unequal_no_propagate`: the allocator does not propagate, so the destination keeps its own allocator
    and the elements are always moved one by one -/
theorem SysAll.moveAssignUnequalNoPropagate {cfg : Cfg} {w : World α} {U A : List Nat} {c o : Nat} (hs : SysAll cfg w U A)
    (hc : c ∈ A) (ho : o ∈ A) (hne : c ≠ o) (hp : cfg.policy.pocma = false) :
    (SvModel.moveAssignUnequalNoPropagate cfg c o w).sat (fun _ w' => MovePost cfg w U A c o w') (fun _ w' => MoveFail cfg w U A c o w') := by
  have hoc : o ≠ c := fun e => hne e.symm
  have hvc := hs.ok.vec c hc
  have hvo := hs.ok.vec o ho
  have hNc := hs.ok.nmax c hc
  have hNo := hs.ok.nmax o ho
  have hocapmax : (w.hdr o).cap ≤ cfg.maxSize := by have := hvo.cap_max; omega
  have hosz := hvo.size_le
  have hmm : maybeMove cfg.policy (w.hdr c).alloc (w.hdr o).alloc = (w.hdr c).alloc := by unfold maybeMove; simp [hp]
  unfold SvModel.moveAssignUnequalNoPropagate
  rw [bind_run, getV_run]; simp only []
  rw [bind_run, getV_run]; simp only []
  rw [hmm]
  have e0 : guard_moveAssignUnequalNoPropagate_0 (genv2 cfg (w.hdr c) (w.hdr o)) = decide ((w.hdr c).cap < (w.hdr o).size) := rfl
  have e1 : guard_moveAssignUnequalNoPropagate_1 (genv2 cfg (w.hdr c) (w.hdr o)) = decide ((w.hdr c).size < (w.hdr o).size) := rfl
  rw [e0, e1]
  by_cases hgrow : (w.hdr c).cap < (w.hdr o).size
  · rw [if_pos (decide_eq_true hgrow)]
    simp only [M_bind_assoc]
    obtain ⟨hd, hi⟩ := hs.ok.apart hc ho hoc (by omega)
    obtain ⟨h1, h2⟩ := newCapacity_bounds cfg.maxSize (w.hdr c).cap (w.hdr o).size hgrow (by omega)
    have := hvc.cap_ge
    exact SysAll.moveAssignRealloc hs hc ho hoc hd hi (w.hdr c).alloc _ (by omega) h2 h1
  · rw [if_neg (by simpa using hgrow)]
    simp only [M_bind_assoc]
    have := SysAll.moveAssignInPlace hs hc ho hoc (by omega) (w.hdr c).alloc (Or.inr rfl)
    refine Res.sat_mono this ?_ ?_
    · intro _ w' ⟨a, b, c', _, _, _, _, _, f⟩; exact ⟨a, b, c', f⟩
    · intro _ w' ⟨a, b, c', _, f⟩; exact ⟨a, c', b, f⟩

/-- MOVE ASSIGNMENT `c = std::move (o)` in a system, every path.  `hal`: allocators that the traits declare
    interchangeable without propagation really are equal (std::allocator, is_always_equal). -/
theorem SysAll.moveAssign {cfg : Cfg} {w : World α} {U A : List Nat} {c o : Nat} (hs : SysAll cfg w U A)
    (hc : c ∈ A) (ho : o ∈ A) (hne : c ≠ o)
    (hnull : (w.hdr c).N = 0 → (w.hdr o).N = 0 → (w.hdr c).inl = (w.hdr o).inl)
    (hal : allocationsAreMovable cfg.policy = true → cfg.policy.pocma = true ∨ (w.hdr c).alloc = (w.hdr o).alloc) :
    (SvModel.moveAssign cfg c o w).sat (fun _ w' => MovePost cfg w U A c o w') (fun _ w' => MoveFail cfg w U A c o w') := by
  unfold SvModel.moveAssign
  by_cases hm : allocationsAreMovable cfg.policy = true
  · rw [if_pos hm]
    refine SysAll.moveAssignDefault hs hc ho hne hnull ?_
    unfold maybeMove
    rcases hal hm with h | h
    · simp [h]
    · by_cases hp : cfg.policy.pocma = true <;> simp [hp, h]
  · rw [if_neg hm, bind_run, getV_run]; simp only []
    rw [bind_run, getV_run]; simp only []
    have hp : cfg.policy.pocma = false := by
      unfold allocationsAreMovable at hm
      cases h : cfg.policy.pocma
      · rfl
      · rw [h] at hm; simp at hm
    have e : guard_moveAssign1_0 (genv2 cfg (w.hdr c) (w.hdr o)) = ((w.hdr o).alloc == (w.hdr c).alloc) := rfl
    rw [e]
    by_cases heq : (w.hdr o).alloc = (w.hdr c).alloc
    · rw [if_pos (by simpa using heq)]
      refine SysAll.moveAssignDefault hs hc ho hne hnull ?_
      unfold maybeMove; simp [hp, heq]
    · rw [if_neg (by simpa using heq)]
      exact SysAll.moveAssignUnequalNoPropagate hs hc ho hne hp

end SvModel
