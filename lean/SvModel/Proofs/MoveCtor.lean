/-
Element-wise move construction (the paths of `move_initialize` that cannot steal, and the allocator-extended move
constructor with an unequal allocator): the new container is filled by RELOCATING the source's elements
(`uninitialized_move`: each element is move-constructed into the new storage; the sources stay alive, moved-from).

`ctorFill` over the moving sources `srcsMove b 0 n` is exactly that code (`ctorMove_eq_fill`), so one specification
serves: on return the new container is valid and holds the values the source slots held, the source slots are still
objects (husks when the type really moves, unchanged when "move" is a copy); when a move constructor or the allocator
throws, everything built so far is destroyed again, the block is returned, the storage is unborn, and the source slots
are still live objects — nothing leaks (C03, C04, C06).
-/
import SvModel.Proofs.Ctor

namespace SvModel
open Gen
variable {α : Type}

/-- the frame of a constructor of `c` that moves from block `b`: like `CFrame`, but block `b` may change -/
structure CFrameX (w w' : World α) (c b : Nat) : Prop where
  hdr_other : ∀ d, d ≠ c → w'.hdr d = w.hdr d
  hdr_N     : (w'.hdr c).N = (w.hdr c).N
  hdr_inl   : (w'.hdr c).inl = (w.hdr c).inl
  mem_other : ∀ b', b' ≠ (w.hdr c).inl → b' ≠ b → b' < w.next → w'.mem b' = w.mem b'
  owner_old : ∀ b', b' < w.next → w'.owner b' = w.owner b'
  ub        : w'.ub = w.ub
  ntmp      : w'.ntmp = w.ntmp

/-- what happened to the `n` source slots of block `b`: all still objects, same block length, slots beyond untouched;
    unchanged when the relocation copies, husks when it really moved (only after a complete relocation) -/
structure SrcAfter (cfg : Cfg) (w w' : World α) (b n : Nat) (complete : Bool) : Prop where
  objs : ∀ k, k < n → IsObj w' b k
  len  : (w'.mem b).length = (w.mem b).length
  rest : ∀ i, n ≤ i → (w'.mem b)[i]? = (w.mem b)[i]?
  kept : movesFor cfg false = false → ∀ k, k < n → (w'.mem b)[k]? = (w.mem b)[k]?
  husk : complete = true → movesFor cfg false = true → ∀ k, k < n → (w'.mem b)[k]? = some (.obj .husk)

theorem uninitializedMove_false (cfg : Cfg) (sblk sidx n dblk didx : Nat) :
    (uninitializedMove cfg false sblk sidx n dblk didx : M α Unit) = uninitGen cfg dblk didx 0 (srcsMove sblk sidx n) := by
  unfold uninitializedMove; simp

theorem ledger_of_eqs {w w' : World α} (hl : Ledger w) (hn : w'.next = w.next) (ht : w'.ntmp = w.ntmp) (hlv : w'.live = w.live)
    (hlen : ∀ b, (w'.mem b).length = (w.mem b).length) : Ledger w' := by
  refine ⟨by rw [hn]; exact hl.next_ok, by rw [ht]; exact hl.ntmp_ok, fun b hb => by rw [hlv] at hb; rw [hn]; exact hl.live_ok b hb,
          by rw [hlv]; exact hl.nodup, ?_, ?_⟩
  · intro b h1 h2 h3
    have := hl.freed b h1 h2 (by rw [← hlv]; exact h3)
    have hh := hlen b; rw [this] at hh
    exact List.eq_nil_of_length_eq_zero (by simpa using hh)
  · intro b h1 h2
    have := hl.tmpfresh b (by rw [← ht]; exact h1) h2
    have hh := hlen b; rw [this] at hh
    exact List.eq_nil_of_length_eq_zero (by simpa using hh)

/-- CONSTRUCTION BY RELOCATION from the `n` live slots of a foreign block `b` -/
theorem ctorReloc_sat (cfg : Cfg) (c a b n : Nat) (w : World α)
    (hu : Unborn w c) (hl : Ledger w) (hn : n ≤ cfg.maxSize)
    (hsrc : ∀ k, k < n → IsObj w b k) (hbi : b ≠ (w.hdr c).inl) (hbn : b < w.next) :
    (ctorFill cfg c a false (srcsMove b 0 n) w).sat
      (fun _ w' => VecOK cfg w' c ∧ Ledger w' ∧
          (w'.hdr c).size = n ∧ (∀ k, k < n → (w'.mem (w'.hdr c).data)[k]? = (w.mem b)[k]?) ∧ (w'.hdr c).alloc = a ∧
          (w'.live = if (w.hdr c).N < n then w.next :: w.live else w.live) ∧
          (w'.hdr c).data = (if (w.hdr c).N < n then w.next else (w.hdr c).inl) ∧
          CFrameX w w' c b ∧ SrcAfter cfg w w' b n true)
      (fun _ w' => Unborn w' c ∧ Ledger w' ∧ w'.live = w.live ∧ CFrameX w w' c b ∧ SrcAfter cfg w w' b n false) := by
  unfold ctorFill
  have hsa : SvModel.setAlloc c a w = .ok () { w with hdr := upd w.hdr c { w.hdr c with alloc := a } } := rfl
  rw [bind_run, hsa]
  simp only []
  generalize hw1 : ({ w with hdr := upd w.hdr c { w.hdr c with alloc := a } } : World α) = w1
  have hmem1 : w1.mem = w.mem := by subst hw1; rfl
  have hhc1 : w1.hdr c = { w.hdr c with alloc := a } := by subst hw1; simp
  have hho1 : ∀ d, d ≠ c → w1.hdr d = w.hdr d := by
    intro d hd; subst hw1; show (upd w.hdr c _) d = _; rw [upd_other _ _ _ _ hd]
  have hq1 : w1.owner = w.owner ∧ w1.live = w.live ∧ w1.next = w.next ∧ w1.ntmp = w.ntmp ∧ w1.ub = w.ub := by subst hw1; exact ⟨rfl, rfl, rfl, rfl, rfl⟩
  obtain ⟨ho1, hlv1, hn1, ht1, hub1⟩ := hq1
  rw [bind_run, getV_run]
  simp only []
  rw [hhc1]
  simp only [srcsMove_length]
  have hnext := hl.next_ok
  have hI5 : (w.hdr c).inl < 5 := hu.inl_lt
  have hnI : w.next ≠ (w.hdr c).inl := by omega
  have hbnx : b ≠ w.next := by omega
  by_cases hbig : (w.hdr c).N < n
  · ------------------------------------------------------------------ heap
    rw [if_pos hbig]
    simp only [Bool.false_eq_true, if_false]
    refine sat_bind (allocate_sat cfg a n w1) (fun nb w2 h2 => ?_) (fun e w2 hth => ?_)
    rotate_left
    · -- the allocation threw: nothing happened
      obtain ⟨_, hq⟩ := hth
      refine ⟨⟨by rw [hq.2.hdr, hhc1]; exact hu.inl_lt, by rw [hq.2.hdr, hhc1, hq.1, hmem1]; exact hu.len,
               fun i hi => by rw [hq.2.hdr, hhc1] at hi ⊢; unfold IsRaw; rw [hq.1, hmem1]; exact hu.raws i hi⟩,
              ledger_of_eqs hl (by rw [hq.2.next, hn1]) (by rw [hq.2.ntmp, ht1]) (by rw [hq.2.live, hlv1]) (fun b' => by rw [hq.1, hmem1]),
              by rw [hq.2.live, hlv1],
              ⟨fun d hd => by rw [hq.2.hdr]; exact hho1 d hd, by rw [hq.2.hdr, hhc1], by rw [hq.2.hdr, hhc1],
               fun b' _ _ _ => by rw [hq.1, hmem1], fun b' _ => by rw [hq.2.owner, ho1], by rw [hq.2.ub, hub1], by rw [hq.2.ntmp, ht1]⟩,
              ⟨fun k hk => by unfold IsObj; rw [hq.1, hmem1]; exact hsrc k hk, by rw [hq.1, hmem1], fun i _ => by rw [hq.1, hmem1],
               fun _ k _ => by rw [hq.1, hmem1], fun h => by cases h⟩⟩
    obtain ⟨hnb, hm2, ho2, hlv2, hn2, hh2, ht2, hub2⟩ := h2
    rw [hn1] at hnb hm2 ho2 hlv2 hn2
    subst hnb
    have hnotlive : w.next ∉ w.live := fun h => by have := (hl.live_ok _ h).2.2; omega
    have hoth2 : ∀ b', b' ≠ w.next → w2.mem b' = w.mem b' := fun b' hb => by rw [hm2, upd_other _ _ _ _ hb, hmem1]
    have hraw2 : ∀ i, i < n → IsRaw w2 w.next i := fun i hi => by unfold IsRaw; rw [hm2]; simp [hi]
    have hlen2 : (w2.mem w.next).length = n := by rw [hm2]; simp
    have hsd : setDataPtr c w.next w2 = .ok () { w2 with hdr := upd w2.hdr c { w2.hdr c with data := w.next } } := rfl
    rw [bind_run, hsd]
    simp only []
    generalize hw3 : ({ w2 with hdr := upd w2.hdr c { w2.hdr c with data := w.next } } : World α) = w3
    have hsc : setCapacity c n w3 = .ok () { w3 with hdr := upd w3.hdr c { w3.hdr c with cap := n } } := rfl
    rw [bind_run, hsc]
    simp only []
    generalize hw4 : ({ w3 with hdr := upd w3.hdr c { w3.hdr c with cap := n } } : World α) = w4
    have hmem4 : w4.mem = w2.mem := by subst hw4; subst hw3; rfl
    have hhc4 : w4.hdr c = { w.hdr c with alloc := a, data := w.next, cap := n } := by
      subst hw4; subst hw3
      show (upd (upd w2.hdr c _) c _) c = _
      simp only [upd_same]
      rw [hh2, hhc1]
    have hho4 : ∀ d, d ≠ c → w4.hdr d = w.hdr d := by
      intro d hd
      subst hw4; subst hw3
      show (upd (upd w2.hdr c _) c _) d = _
      rw [upd_other _ _ _ _ hd, upd_other _ _ _ _ hd, hh2]
      exact hho1 d hd
    have hq4 : w4.owner = w2.owner ∧ w4.live = w2.live ∧ w4.next = w2.next ∧ w4.ntmp = w2.ntmp ∧ w4.ub = w2.ub := by
      subst hw4; subst hw3; exact ⟨rfl, rfl, rfl, rfl, rfl⟩
    obtain ⟨ho4, hlv4, hn4, ht4, hub4⟩ := hq4
    have hsrc4 : ∀ k, k < n → IsObj w4 b (0 + k) := fun k hk => by
      rw [Nat.zero_add]; exact isObj_of_eq (by rw [hmem4, hoth2 b hbnx]) (hsrc k hk)
    have hraw4 : ∀ k, k < n → IsRaw w4 w.next (0 + k) := fun k hk => by
      rw [Nat.zero_add]; exact isRaw_of_eq (by rw [hmem4]) (hraw2 k hk)
    have hmv := uninitializedMove_sat cfg false b 0 n w.next 0 w4 hsrc4 hraw4
    rw [uninitializedMove_false] at hmv
    refine sat_bind (sat_tryCatch (Q := fun _ w5 => Relocated cfg false w4 w5 b 0 n w.next 0)
        (E := fun _ w' => Unborn w' c ∧ Ledger w' ∧ w'.live = w.live ∧ CFrameX w w' c b ∧ SrcAfter cfg w w' b n false)
        hmv ?_) ?_ (fun _ _ h => h)
    · -- a move constructor threw: the block goes back
      intro e w5 ⟨_, hf⟩
      have hc5 := hf.ctl
      have hin : w.next ∈ w5.live := by rw [hc5.live, hlv4, hlv2]; simp
      have hl5 : (w5.mem w.next).length = n := by rw [hc5.len, hmem4]; exact hlen2
      have hraw5 : ∀ i, i < n → IsRaw w5 w.next i := fun i hi => by simpa using hf.dst i hi
      have hown5 : w5.owner w.next = a := by rw [hc5.owner, ho4, ho2]; simp
      rw [bind_run, deallocate_run a w.next n w5 hin hl5 hraw5 hown5]
      generalize hw6 : ({ w5 with mem := upd w5.mem w.next [], live := w5.live.erase w.next,
                                    trace := w5.trace ++ [Ev.dealloc w.next n a] } : World α) = w6
      have hmem6 : ∀ b', b' ≠ w.next → b' ≠ b → w6.mem b' = w.mem b' := by
        intro b' hb hbb
        subst hw6
        show upd w5.mem w.next [] b' = _
        rw [upd_other _ _ _ _ hb]
        apply List.ext_getElem?
        intro i
        rw [hf.rest b' i (by intro ⟨h, _, _⟩; exact hb h) (by intro ⟨h, _, _⟩; exact hbb h), hmem4, hoth2 b' hb]
      have hmem6b : w6.mem b = w5.mem b := by subst hw6; show upd w5.mem w.next [] b = _; rw [upd_other _ _ _ _ hbnx]
      have hh6 : w6.hdr = w4.hdr := by subst hw6; exact hc5.hdr
      have hlv6 : w6.live = w.live := by
        subst hw6; show w5.live.erase w.next = _
        rw [hc5.live, hlv4, hlv2, List.erase_cons_head, hlv1]
      have hinl6 : w6.mem (w.hdr c).inl = w.mem (w.hdr c).inl := hmem6 _ (Ne.symm hnI) (Ne.symm hbi)
      show Unborn w6 c ∧ _
      refine ⟨⟨by rw [hh6, hhc4]; exact hu.inl_lt, by rw [hh6, hhc4]; show (w6.mem (w.hdr c).inl).length = (w.hdr c).N; rw [hinl6]; exact hu.len,
               fun i hi => by
                 rw [hh6, hhc4] at hi ⊢
                 show IsRaw w6 (w.hdr c).inl i
                 unfold IsRaw; rw [hinl6]; exact hu.raws i hi⟩, ?_, hlv6, ?_, ?_⟩
      · refine ⟨by subst hw6; show w5.next % 2 = 1 ∧ _; rw [hc5.next, hn4, hn2]; omega,
                by subst hw6; show w5.ntmp % 2 = 0 ∧ _; rw [hc5.ntmp, ht4, ht2, ht1]; exact hl.ntmp_ok, ?_, by rw [hlv6]; exact hl.nodup, ?_, ?_⟩
        · intro b' hb'; rw [hlv6] at hb'
          have := hl.live_ok b' hb'
          have hn6 : w6.next = w.next + 2 := by subst hw6; show w5.next = _; rw [hc5.next, hn4, hn2]
          rw [hn6]; omega
        · intro b' h1 h2 h3
          by_cases hbn' : b' = w.next
          · rw [hbn']; subst hw6; show upd w5.mem _ [] _ = []; simp
          · by_cases hbb : b' = b
            · -- the source block is live or an in-object buffer; a freed heap block cannot hold live objects
              rw [hbb] at h1 h2 h3 ⊢
              have hfr := hl.freed b h1 h2 (by rw [← hlv6]; exact h3)
              have hlen : (w6.mem b).length = (w.mem b).length := by rw [hmem6b, hc5.len, hmem4, hoth2 b hbnx]
              rw [hfr] at hlen
              exact List.eq_nil_of_length_eq_zero (by simpa using hlen)
            · rw [hmem6 b' hbn' hbb]; exact hl.freed b' h1 h2 (by rw [← hlv6]; exact h3)
        · intro b' h1 h2
          have hnt : w6.ntmp = w.ntmp := by subst hw6; show w5.ntmp = _; rw [hc5.ntmp, ht4, ht2, ht1]
          rw [hnt] at h1
          have hfr := hl.tmpfresh b' h1 h2
          by_cases hbb : b' = b
          · rw [hbb] at hfr ⊢
            have hlen : (w6.mem b).length = (w.mem b).length := by rw [hmem6b, hc5.len, hmem4, hoth2 b hbnx]
            rw [hfr] at hlen
            exact List.eq_nil_of_length_eq_zero (by simpa using hlen)
          · rw [hmem6 b' (by omega) hbb]; exact hfr
      · refine ⟨fun d hd => by rw [hh6]; exact hho4 d hd, by rw [hh6, hhc4], by rw [hh6, hhc4], fun b' hb1 hb2 hb3 => hmem6 b' (by omega) hb2,
                fun b' hb => ?_, ?_, ?_⟩
        · subst hw6; show w5.owner b' = _; rw [hc5.owner, ho4, ho2, upd_other _ _ _ _ (by omega), ho1]
        · subst hw6; show w5.ub = _; rw [hc5.ub, hub4, hub2, hub1]
        · subst hw6; show w5.ntmp = _; rw [hc5.ntmp, ht4, ht2, ht1]
      · refine ⟨fun k hk => ?_, by rw [hmem6b, hc5.len, hmem4, hoth2 b hbnx], fun i hi => ?_, fun hk k hkn => ?_, fun h => by cases h⟩
        · have := hf.src k hk; simp only [Nat.zero_add] at this; unfold IsObj; rw [hmem6b]; exact this
        · rw [hmem6b, hf.rest b i (by intro ⟨h, _, _⟩; exact hbnx h) (by intro ⟨_, _, h⟩; omega), hmem4, hoth2 b hbnx]
        · have := hf.kept hk k hkn; simp only [Nat.zero_add] at this; rw [hmem6b, this, hmem4, hoth2 b hbnx]
    · -- all elements relocated: set_size
      intro _ w5 hr
      have hc5 := hr.ctl
      have hss : setSize c n w5 = .ok () { w5 with hdr := upd w5.hdr c { w5.hdr c with size := n } } := rfl
      rw [hss]
      generalize hw6 : ({ w5 with hdr := upd w5.hdr c { w5.hdr c with size := n } } : World α) = w6
      have hmem6 : w6.mem = w5.mem := by subst hw6; rfl
      have hhc6 : w6.hdr c = { w.hdr c with alloc := a, data := w.next, cap := n, size := n } := by
        subst hw6; show (upd w5.hdr c _) c = _; simp only [upd_same]; rw [hc5.hdr, hhc4]
      have hq6 : w6.owner = w5.owner ∧ w6.live = w5.live ∧ w6.next = w5.next ∧ w6.ntmp = w5.ntmp := by subst hw6; exact ⟨rfl, rfl, rfl, rfl⟩
      obtain ⟨ho6, hlv6, hn6, ht6⟩ := hq6
      have hmemo : ∀ b', b' ≠ w.next → b' ≠ b → w6.mem b' = w.mem b' := by
        intro b' hb hbb
        rw [hmem6]
        apply List.ext_getElem?
        intro i
        rw [hr.rest b' i (by intro ⟨h, _, _⟩; exact hb h) (by intro ⟨h, _, _⟩; exact hbb h), hmem4, hoth2 b' hb]
      have hlive6 : w6.live = w.next :: w.live := by rw [hlv6, hc5.live, hlv4, hlv2, hlv1]
      have hval6 : ∀ k, k < n → (w6.mem w.next)[k]? = (w.mem b)[k]? := by
        intro k hk
        have := hr.dst k hk
        simp only [Nat.zero_add] at this
        rw [hmem6, this, hmem4, hoth2 b hbnx]
      have hlenb : (w6.mem b).length = (w.mem b).length := by rw [hmem6, hc5.len, hmem4, hoth2 b hbnx]
      have hinl6 : w6.mem (w.hdr c).inl = w.mem (w.hdr c).inl := hmemo _ (Ne.symm hnI) (Ne.symm hbi)
      show VecOK cfg w6 c ∧ _
      refine ⟨?_, ?_, by rw [hhc6], ?_, by rw [hhc6], by rw [hlive6, if_pos hbig], by rw [hhc6, if_pos hbig], ?_, ?_⟩
      · exact {
          size_le := by rw [hhc6]; exact Nat.le_refl _
          cap_ge := by rw [hhc6]; show (w.hdr c).N ≤ n; omega
          cap_max := by rw [hhc6]; exact Nat.le_trans hn (Nat.le_max_left _ _)
          inl_iff := by
            rw [hhc6]
            show n = (w.hdr c).N ↔ w.next = (w.hdr c).inl
            exact ⟨fun h => by omega, fun h => absurd h hnI⟩
          inl_lt := by rw [hhc6]; exact hI5
          len := by rw [hhc6]; show (w6.mem w.next).length = n; rw [hmem6, hc5.len, hmem4]; exact hlen2
          objs := by
            rw [hhc6]; intro i hi
            obtain ⟨v, hv⟩ := hsrc i hi
            exact ⟨v, by rw [hval6 i hi]; exact hv⟩
          raws := by rw [hhc6]; intro i h1 h2; exact absurd h2 (Nat.not_lt.mpr h1)
          heap := by
            rw [hhc6]
            intro _
            refine ⟨by rw [hlive6]; simp, ?_⟩
            show w6.owner w.next = a
            rw [ho6, hc5.owner, ho4, ho2]; simp
          idle := by
            rw [hhc6]
            intro _
            show (w6.mem (w.hdr c).inl).length = (w.hdr c).N ∧ ∀ i, i < (w.hdr c).N → IsRaw w6 (w.hdr c).inl i
            exact ⟨by rw [hinl6]; exact hu.len, fun i hi => by unfold IsRaw; rw [hinl6]; exact hu.raws i hi⟩ }
      · refine ⟨by rw [hn6, hc5.next, hn4, hn2]; omega, by rw [ht6, hc5.ntmp, ht4, ht2, ht1]; exact hl.ntmp_ok, ?_, ?_, ?_, ?_⟩
        · intro b' hb'
          rw [hlive6] at hb'
          rw [hn6, hc5.next, hn4, hn2]
          rcases List.mem_cons.mp hb' with h | h
          · rw [h]; omega
          · have := hl.live_ok b' h; omega
        · rw [hlive6]; exact List.nodup_cons.mpr ⟨hnotlive, hl.nodup⟩
        · intro b' h1 h2 h3
          have hbn' : b' ≠ w.next := fun h => h3 (by rw [hlive6, h]; simp)
          have hnl : b' ∉ w.live := fun h => h3 (by rw [hlive6]; simp [h])
          by_cases hbb : b' = b
          · rw [hbb] at h1 h2 hnl ⊢
            have hfr := hl.freed b h1 h2 hnl
            rw [hfr] at hlenb
            exact List.eq_nil_of_length_eq_zero (by simpa using hlenb)
          · rw [hmemo b' hbn' hbb]; exact hl.freed b' h1 h2 hnl
        · intro b' h1 h2
          rw [ht6, hc5.ntmp, ht4, ht2, ht1] at h1
          have hfr := hl.tmpfresh b' h1 h2
          by_cases hbb : b' = b
          · rw [hbb] at hfr ⊢; rw [hfr] at hlenb
            exact List.eq_nil_of_length_eq_zero (by simpa using hlenb)
          · rw [hmemo b' (by omega) hbb]; exact hfr
      · intro k hk; rw [hhc6]; exact hval6 k hk
      · refine ⟨fun d hd => ?_, by rw [hhc6], by rw [hhc6], fun b' _ hb2 hb3 => hmemo b' (by omega) hb2, fun b' hb => ?_, ?_, ?_⟩
        · have : w6.hdr d = w5.hdr d := by subst hw6; show (upd w5.hdr c _) d = _; rw [upd_other _ _ _ _ hd]
          rw [this, hc5.hdr]; exact hho4 d hd
        · rw [ho6, hc5.owner, ho4, ho2, upd_other _ _ _ _ (by omega), ho1]
        · have : w6.ub = w5.ub := by subst hw6; rfl
          rw [this, hc5.ub, hub4, hub2, hub1]
        · rw [ht6, hc5.ntmp, ht4, ht2, ht1]
      · refine ⟨fun k hk => ?_, hlenb, fun i hi => ?_, fun hk k hkn => ?_, fun _ hm k hkn => ?_⟩
        · have := hr.src k hk; simp only [Nat.zero_add] at this; unfold IsObj; rw [hmem6]; exact this
        · rw [hmem6, hr.rest b i (by intro ⟨h, _, _⟩; exact hbnx h) (by intro ⟨_, _, h⟩; omega), hmem4, hoth2 b hbnx]
        · have := hr.kept hk k hkn; simp only [Nat.zero_add] at this; rw [hmem6, this, hmem4, hoth2 b hbnx]
        · have := hr.husk hm k hkn; simp only [Nat.zero_add] at this; rw [hmem6]; exact this
  · ------------------------------------------------------------------ in-object buffer
    rw [if_neg hbig]
    have hsi : setToInlineStorage c w1 = .ok () { w1 with hdr := upd w1.hdr c { w1.hdr c with cap := (w1.hdr c).N, data := (w1.hdr c).inl } } := rfl
    rw [bind_run, hsi]
    simp only []
    generalize hw2 : ({ w1 with hdr := upd w1.hdr c { w1.hdr c with cap := (w1.hdr c).N, data := (w1.hdr c).inl } } : World α) = w2
    have hmem2 : w2.mem = w.mem := by subst hw2; exact hmem1
    have hhc2 : w2.hdr c = { w.hdr c with alloc := a, cap := (w.hdr c).N, data := (w.hdr c).inl } := by
      subst hw2; show (upd w1.hdr c _) c = _; simp only [upd_same]; rw [hhc1]
    have hho2 : ∀ d, d ≠ c → w2.hdr d = w.hdr d := by
      intro d hd; subst hw2; show (upd w1.hdr c _) d = _; rw [upd_other _ _ _ _ hd]; exact hho1 d hd
    have hq2 : w2.owner = w.owner ∧ w2.live = w.live ∧ w2.next = w.next ∧ w2.ntmp = w.ntmp ∧ w2.ub = w.ub := by
      subst hw2; exact ⟨ho1, hlv1, hn1, ht1, hub1⟩
    obtain ⟨ho2, hlv2, hn2, ht2, hub2⟩ := hq2
    have hsrc2 : ∀ k, k < n → IsObj w2 b (0 + k) := fun k hk => by
      rw [Nat.zero_add]; exact isObj_of_eq (by rw [hmem2]) (hsrc k hk)
    have hraw2 : ∀ k, k < n → IsRaw w2 (w.hdr c).inl (0 + k) := fun k hk => by
      rw [Nat.zero_add]; exact isRaw_of_eq (by rw [hmem2]) (hu.raws k (by omega))
    have hmv := uninitializedMove_sat cfg false b 0 n (w.hdr c).inl 0 w2 hsrc2 hraw2
    rw [uninitializedMove_false] at hmv
    have hlen_all : ∀ {w3 : World α}, Ctl w2 w3 → ∀ b', (w3.mem b').length = (w.mem b').length := fun hc b' => by rw [hc.len, hmem2]
    refine sat_bind hmv (fun _ w3 hr => ?_) ?_
    · have hc3 := hr.ctl
      have hss : setSize c n w3 = .ok () { w3 with hdr := upd w3.hdr c { w3.hdr c with size := n } } := rfl
      rw [hss]
      generalize hw4 : ({ w3 with hdr := upd w3.hdr c { w3.hdr c with size := n } } : World α) = w4
      have hmem4 : w4.mem = w3.mem := by subst hw4; rfl
      have hhc4 : w4.hdr c = { w.hdr c with alloc := a, cap := (w.hdr c).N, data := (w.hdr c).inl, size := n } := by
        subst hw4; show (upd w3.hdr c _) c = _; simp only [upd_same]; rw [hc3.hdr, hhc2]
      have hq4 : w4.owner = w3.owner ∧ w4.live = w3.live ∧ w4.next = w3.next ∧ w4.ntmp = w3.ntmp := by subst hw4; exact ⟨rfl, rfl, rfl, rfl⟩
      obtain ⟨ho4, hlv4, hn4, ht4⟩ := hq4
      have hval4 : ∀ k, k < n → (w4.mem (w.hdr c).inl)[k]? = (w.mem b)[k]? := by
        intro k hk
        have := hr.dst k hk
        simp only [Nat.zero_add] at this
        rw [hmem4, this, hmem2]
      show VecOK cfg w4 c ∧ _
      refine ⟨?_, ledger_of_eqs hl (by rw [hn4, hc3.next, hn2]) (by rw [ht4, hc3.ntmp, ht2]) (by rw [hlv4, hc3.live, hlv2])
                (fun b' => by rw [hmem4]; exact hlen_all hc3 b'),
              by rw [hhc4], ?_, by rw [hhc4], by rw [hlv4, hc3.live, hlv2, if_neg hbig], by rw [hhc4, if_neg hbig], ?_, ?_⟩
      · exact {
          size_le := by rw [hhc4]; show n ≤ (w.hdr c).N; omega
          cap_ge := by rw [hhc4]; exact Nat.le_refl _
          cap_max := by rw [hhc4]; exact Nat.le_max_right _ _
          inl_iff := by rw [hhc4]; exact ⟨fun _ => rfl, fun _ => rfl⟩
          inl_lt := by rw [hhc4]; exact hu.inl_lt
          len := by rw [hhc4]; show (w4.mem (w.hdr c).inl).length = (w.hdr c).N; rw [hmem4, hc3.len, hmem2]; exact hu.len
          objs := by
            rw [hhc4]; intro i hi
            obtain ⟨v, hv⟩ := hsrc i hi
            exact ⟨v, by rw [hval4 i hi]; exact hv⟩
          raws := by
            rw [hhc4]
            intro i h1 h2
            show IsRaw w4 (w.hdr c).inl i
            unfold IsRaw
            rw [hmem4, hr.rest (w.hdr c).inl i (by intro ⟨_, _, h⟩; have : n ≤ i := h1; omega) (by intro ⟨h, _, _⟩; exact hbi h.symm), hmem2]
            exact hu.raws i h2
          heap := by rw [hhc4]; intro h; exact absurd rfl h
          idle := by rw [hhc4]; intro h; exact absurd rfl h }
      · intro k hk; rw [hhc4]; exact hval4 k hk
      · refine ⟨fun d hd => ?_, by rw [hhc4], by rw [hhc4], fun b' hb1 hb2 _ => ?_, fun b' _ => by rw [ho4, hc3.owner, ho2], ?_, by rw [ht4, hc3.ntmp, ht2]⟩
        · have : w4.hdr d = w3.hdr d := by subst hw4; show (upd w3.hdr c _) d = _; rw [upd_other _ _ _ _ hd]
          rw [this, hc3.hdr]; exact hho2 d hd
        · rw [hmem4]
          apply List.ext_getElem?
          intro i
          rw [hr.rest b' i (by intro ⟨h, _, _⟩; exact hb1 h) (by intro ⟨h, _, _⟩; exact hb2 h), hmem2]
        · have : w4.ub = w3.ub := by subst hw4; rfl
          rw [this, hc3.ub, hub2]
      · refine ⟨fun k hk => ?_, by rw [hmem4]; exact hlen_all hc3 b, fun i hi => ?_, fun hk k hkn => ?_, fun _ hm k hkn => ?_⟩
        · have := hr.src k hk; simp only [Nat.zero_add] at this; unfold IsObj; rw [hmem4]; exact this
        · rw [hmem4, hr.rest b i (by intro ⟨h, _, _⟩; exact hbi h) (by intro ⟨_, _, h⟩; omega), hmem2]
        · have := hr.kept hk k hkn; simp only [Nat.zero_add] at this; rw [hmem4, this, hmem2]
        · have := hr.husk hm k hkn; simp only [Nat.zero_add] at this; rw [hmem4]; exact this
    · -- a move constructor threw: what was built has been destroyed again
      intro e w3 ⟨_, hf⟩
      have hc3 := hf.ctl
      have hinl3 : ∀ i, (w3.mem (w.hdr c).inl)[i]? = (w.mem (w.hdr c).inl)[i]? ∨ (i < n ∧ IsRaw w3 (w.hdr c).inl i) := by
        intro i
        by_cases hi : i < n
        · right; exact ⟨hi, by simpa using hf.dst i hi⟩
        · left; rw [hf.rest _ i (by intro ⟨_, _, h⟩; omega) (by intro ⟨h, _, _⟩; exact hbi h.symm), hmem2]
      refine ⟨⟨by rw [hc3.hdr, hhc2]; exact hu.inl_lt, by rw [hc3.hdr, hhc2]; show (w3.mem (w.hdr c).inl).length = (w.hdr c).N; rw [hc3.len, hmem2]; exact hu.len,
               fun i hi => ?_⟩,
              ledger_of_eqs hl (by rw [hc3.next, hn2]) (by rw [hc3.ntmp, ht2]) (by rw [hc3.live, hlv2]) (fun b' => hlen_all hc3 b'),
              by rw [hc3.live, hlv2], ?_, ?_⟩
      · rw [hc3.hdr, hhc2] at hi ⊢
        show IsRaw w3 (w.hdr c).inl i
        rcases hinl3 i with h | ⟨_, h⟩
        · unfold IsRaw; rw [h]; exact hu.raws i hi
        · exact h
      · refine ⟨fun d hd => by rw [hc3.hdr]; exact hho2 d hd, by rw [hc3.hdr, hhc2], by rw [hc3.hdr, hhc2], fun b' hb1 hb2 _ => ?_,
                fun b' _ => by rw [hc3.owner, ho2], by rw [hc3.ub, hub2], by rw [hc3.ntmp, ht2]⟩
        apply List.ext_getElem?
        intro i
        rw [hf.rest b' i (by intro ⟨h, _, _⟩; exact hb1 h) (by intro ⟨h, _, _⟩; exact hb2 h), hmem2]
      · refine ⟨fun k hk => by simpa using hf.src k hk, hlen_all hc3 b, fun i hi => ?_, fun hk k hkn => ?_, fun h => by cases h⟩
        · rw [hf.rest b i (by intro ⟨h, _, _⟩; exact hbi h) (by intro ⟨_, _, h⟩; omega), hmem2]
        · have := hf.kept hk k hkn; simp only [Nat.zero_add] at this; rw [this, hmem2]

/-- the source cannot be stolen from: it sits in its in-object buffer, or its buffer is not larger than the new container's
    inline capacity (the complement of C09.StealAllowed, plus the both-zero-capacity case which always "steals") -/
def NoSteal (v ov : Vec) : Prop :=
  ¬ (v.N = 0 ∧ ov.N = 0) ∧ (ov.N ≤ v.N → ¬ v.N < ov.cap) ∧ (v.N < ov.N → ¬ ov.N < ov.cap)

/-- move construction that cannot steal IS construction by relocation of the source's elements with the source's
    allocator: the same model program -/
theorem ctorMove_eq_fill (cfg : Cfg) (c o : Nat) (hne : c ≠ o) (w : World α) (hns : NoSteal (w.hdr c) (w.hdr o))
    (hsz : (w.hdr o).size ≤ (w.hdr o).cap) (hcap : (w.hdr o).N ≤ (w.hdr o).cap) :
    ctorMove cfg c o w = ctorFill cfg c (w.hdr o).alloc false (srcsMove (w.hdr o).data 0 (w.hdr o).size) w := by
  have hne' : o ≠ c := fun h => hne h.symm
  obtain ⟨h0, h1, h2⟩ := hns
  unfold ctorMove ctorFill moveInitialize
  rw [bind_run, getV_run]
  simp only []
  rw [bind_run, bind_run]
  have hsa : SvModel.setAlloc c (w.hdr o).alloc w = .ok () { w with hdr := upd w.hdr c { w.hdr c with alloc := (w.hdr o).alloc } } := rfl
  rw [hsa]
  simp only []
  generalize hw1 : ({ w with hdr := upd w.hdr c { w.hdr c with alloc := (w.hdr o).alloc } } : World α) = w1
  have hc1 : w1.hdr c = { w.hdr c with alloc := (w.hdr o).alloc } := by subst hw1; simp
  have ho1 : w1.hdr o = w.hdr o := by subst hw1; show (upd w.hdr c _) o = _; rw [upd_other _ _ _ _ hne']
  simp only [bind_run, getV_run, hc1, ho1]
  simp only [srcsMove_length, uninitializedMove_false, Bool.false_eq_true, if_false]
  have g1 : guard_moveInitialize1_0 (genv2 cfg { w.hdr c with alloc := (w.hdr o).alloc } (w.hdr o)) = decide ((w.hdr c).N < (w.hdr o).cap) := rfl
  have g2 : guard_moveInitialize2_0 (genv2 cfg { w.hdr c with alloc := (w.hdr o).alloc } (w.hdr o)) = decide ((w.hdr o).N < (w.hdr o).cap) := rfl
  have g3 : guard_moveInitialize2_1 (genv2 cfg { w.hdr c with alloc := (w.hdr o).alloc } (w.hdr o)) = decide ((w.hdr c).N < (w.hdr o).size) := rfl
  rw [g1, g2, g3]
  rw [if_neg h0]
  by_cases hle : (w.hdr o).N ≤ (w.hdr c).N
  · rw [if_pos hle, if_neg (by simpa using h1 hle)]
    have : ¬ (w.hdr c).N < (w.hdr o).size := by have := h1 hle; omega
    rw [if_neg this]
  · rw [if_neg hle, if_neg (by simpa using h2 (by omega))]
    by_cases hbig : (w.hdr c).N < (w.hdr o).size
    · rw [if_pos (decide_eq_true hbig), if_pos hbig]
    · rw [if_neg (by simpa using hbig), if_neg hbig]

end SvModel
