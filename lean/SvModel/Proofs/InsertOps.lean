/-
The public single-element insert: emplace_at = emplace / insert (pos, x) / insert (pos, T&&), composed from the in-place
paths (Proofs/InPlace.lean) and the reallocating paths (Proofs/Insert.lean, Proofs/Append.lean).
-/
import SvModel.Proofs.InPlace

namespace SvModel
open Gen
variable {α : Type}

/-- what every failed insertion guarantees: the basic guarantee, the same buffer, nothing leaked -/
def InsBasic (cfg : Cfg) (w w' : World α) (c : Nat) : Prop :=
  Basic cfg w w' c ∧ (w'.hdr c).data = (w.hdr c).data ∧ (w'.hdr c).cap = (w.hdr c).cap ∧ w'.live = w.live

theorem InsFail.insBasic {cfg : Cfg} {w w' : World α} {c : Nat} (h : InsFail cfg w w' c) : InsBasic cfg w w' c :=
  ⟨h.1, h.2.1, h.2.2.1, h.2.2.2.1⟩

theorem Strong.insBasic {cfg : Cfg} {w w' : World α} {c : Nat} (hs : Strong w w') (hl : Ledger w) (hv : VecOK cfg w c) : InsBasic cfg w w' c :=
  ⟨hs.basic hl hv, by rw [hs.hdr], by rw [hs.hdr], hs.live⟩

theorem Pushed.inserted {cfg : Cfg} {w w' : World α} {c pos : Nat} {x : Val α} (hp : Pushed cfg w w' c x) (hend : pos = (w.hdr c).size) :
    Inserted cfg w w' c pos [x] := by
  refine ⟨⟨hp.vec, hp.led, hp.ub, hp.frame⟩, ?_, by rw [hp.size]; rfl, hp.alloc⟩
  intro xs hx
  have := hp.holds xs hx
  rw [hend, ← hx.1]
  simpa using this

/-- emplace_into_reallocation: size = capacity -/
theorem emplaceIntoReallocation_sat (cfg : Cfg) (c pos : Nat) (s : Src α) (w : World α)
    (hv : VecOK cfg w c) (hl : Ledger w) (hNmax : (w.hdr c).N ≤ cfg.maxSize) (hfull : (w.hdr c).size = (w.hdr c).cap)
    (hpos : pos ≤ (w.hdr c).size) (ha : ArgOK cfg w c s) (hstrong : movesFor cfg true = true → cfg.tMove = false) :
    (emplaceIntoReallocation cfg c pos s w).sat
      (fun r w' => r = pos ∧ Inserted cfg w w' c pos [srcVal w s] ∧ (w'.hdr c).data = w.next ∧
                   (w'.hdr c).cap = newCapacity cfg.maxSize (w.hdr c).cap ((w.hdr c).size + 1))
      (fun _ w' => InsBasic cfg w w' c ∧ w'.hdr c = w.hdr c ∧ (pos = (w.hdr c).size → Strong w w')) := by
  unfold emplaceIntoReallocation
  rw [bind_run, getV_run]
  simp only []
  have e0 : guard_emplaceIntoReallocation_0 { genv cfg (w.hdr c) with offset := pos } = decide (pos = (w.hdr c).size) := rfl
  have e1 : guard_emplaceIntoReallocation_1 (genv cfg (w.hdr c)) = decide (cfg.maxSize = (w.hdr c).size) := rfl
  rw [e0, e1]
  by_cases hend : pos = (w.hdr c).size
  · rw [if_pos (decide_eq_true hend)]
    refine Res.sat_mono (emplaceIntoReallocationEnd_sat cfg c s w hv hl hfull hNmax ha hstrong) ?_ ?_
    · intro r w' ⟨hr, hp⟩
      obtain ⟨g1, g2⟩ := hp.grown (by omega)
      exact ⟨by rw [hr, hend], hp.inserted hend, g1, g2⟩
    · intro e w' hs
      exact ⟨hs.insBasic hl hv, by rw [hs.hdr], fun _ => hs⟩
  rw [if_neg (by simpa using hend)]
  by_cases hmx : cfg.maxSize = (w.hdr c).size
  · rw [if_pos (decide_eq_true hmx)]
    have hs := Strong.refl (w := w) hl
    exact ⟨hs.insBasic hl hv, rfl, fun _ => hs⟩
  rw [if_neg (by simpa using hmx)]
  have hcapmax : (w.hdr c).cap ≤ cfg.maxSize := by
    have := hv.cap_max; rw [Nat.max_eq_left hNmax] at this; exact this
  have haa : ArgsOK cfg w c [s] :=
    ⟨fun s' hs' => by simp at hs'; subst hs'; exact ha.nonmoving,
     fun s' hs' => by simp at hs'; subst hs'; exact ha.live,
     fun s' hs' => by simp at hs'; subst hs'; exact ha.inside⟩
  refine Res.sat_mono (insertRealloc_sat cfg c pos [s] w hv hl hNmax hpos (by simp; omega) (by simp; omega) haa) ?_ ?_
  · intro r w' ⟨hr, hi, h1, h2⟩
    exact ⟨hr, by simpa using hi, h1, by simpa using h2⟩
  · intro e w' ⟨hb, hh, hlv⟩
    exact ⟨⟨hb, by rw [hh], by rw [hh], hlv⟩, hh, fun h => absurd h hend⟩

/-- emplace_at: emplace (pos, args…) / insert (pos, const T&) (`rv = false`, the argument may alias an own element) and
    insert (pos, T&&) (`rv = true`, an rvalue from outside) -/
theorem emplaceAt_sat (cfg : Cfg) (c pos : Nat) (s : Src α) (rv : Bool) (w : World α)
    (hv : VecOK cfg w c) (hl : Ledger w) (hNmax : (w.hdr c).N ≤ cfg.maxSize)
    (hpos : pos ≤ (w.hdr c).size) (ha : ArgOK cfg w c s) (hrv : rv = true → ∃ a, s = .extMove a)
    (hstrong : movesFor cfg true = true → cfg.tMove = false) :
    (emplaceAt cfg c pos s rv w).sat
      (fun r w' => r = pos ∧ Inserted cfg w w' c pos [srcVal w s] ∧
                   ((w.hdr c).size < (w.hdr c).cap → InsKept w w' c) ∧
                   (¬ (w.hdr c).size < (w.hdr c).cap → (w'.hdr c).data = w.next ∧
                      (w'.hdr c).cap = newCapacity cfg.maxSize (w.hdr c).cap ((w.hdr c).size + 1)))
      (fun _ w' => InsBasic cfg w w' c ∧ (pos = (w.hdr c).size → Strong w w')) := by
  unfold emplaceAt
  rw [bind_run, getV_run]
  simp only []
  have e0 : guard_emplaceAt_0 (genv cfg (w.hdr c)) = decide ((w.hdr c).size < (w.hdr c).cap) := rfl
  rw [e0]
  by_cases hroom : (w.hdr c).size < (w.hdr c).cap
  · rw [if_pos (decide_eq_true hroom)]
    -- a throw at the end position can only come from the construction of the new element: nothing happened
    have endStrong : ∀ w', InsFail cfg w w' c → pos = (w.hdr c).size →
        (emplaceIntoCurrentEnd cfg c s w).sat (fun _ _ => True) (fun _ w'' => Strong w w'') :=
      fun _ _ _ => Res.sat_mono (emplaceIntoCurrentEnd_sat cfg c s w hv hl hroom ha) (fun _ _ _ => trivial)
        (fun _ _ h => Strong.of_quiet hl h.2)
    by_cases hsel : (rv && cfg.policy.nothrowMove) = true
    · rw [if_pos hsel]
      simp only [Bool.and_eq_true] at hsel
      obtain ⟨a, rfl⟩ := hrv hsel.1
      have hrun := emplaceIntoCurrentRv_sat cfg c pos a w hv hl hroom hpos hsel.2
      by_cases hend : pos = (w.hdr c).size
      · -- at the end: the whole call is emplace_into_current_end
        have hrw : emplaceIntoCurrentRv cfg c pos (.extMove a) w = emplaceIntoCurrentEnd cfg c (.extMove a) w := by
          unfold emplaceIntoCurrentRv
          rw [bind_run, getV_run]
          simp only []
          have eg : guard_emplaceIntoCurrent0_0 { genv cfg (w.hdr c) with pos := pos } = decide (pos = (w.hdr c).size) := rfl
          rw [eg, if_pos (decide_eq_true hend)]
        rw [hrw]
        refine Res.sat_mono (emplaceIntoCurrentEnd_sat cfg c _ w hv hl hroom ha) ?_ ?_
        · intro r w' ⟨hr, hp⟩
          obtain ⟨i1, i2, i3, i4, _⟩ := hp.inplace hroom
          exact ⟨by rw [hr, hend], hp.inserted hend, fun _ => ⟨i1, i2, i4, i3⟩, fun h => absurd hroom h⟩
        · intro e w' ⟨_, hq⟩
          have hs := Strong.of_quiet hl hq
          exact ⟨hs.insBasic hl hv, fun _ => hs⟩
      · refine Res.sat_mono hrun ?_ ?_
        · intro r w' ⟨hr, hi, hk⟩
          exact ⟨hr, by simpa [srcVal] using hi, fun _ => hk, fun h => absurd hroom h⟩
        · intro e w' hf
          exact ⟨hf.insBasic, fun h => absurd h hend⟩
    · rw [if_neg hsel]
      have hrun := emplaceIntoCurrent_sat cfg c pos s w hv hl hroom hpos ha
      by_cases hend : pos = (w.hdr c).size
      · have hrw : emplaceIntoCurrent cfg c pos s w = emplaceIntoCurrentEnd cfg c s w := by
          unfold emplaceIntoCurrent
          rw [bind_run, getV_run]
          simp only []
          have eg : guard_emplaceIntoCurrent1_0 { genv cfg (w.hdr c) with pos := pos } = decide (pos = (w.hdr c).size) := rfl
          rw [eg, if_pos (decide_eq_true hend)]
        rw [hrw]
        refine Res.sat_mono (emplaceIntoCurrentEnd_sat cfg c _ w hv hl hroom ha) ?_ ?_
        · intro r w' ⟨hr, hp⟩
          obtain ⟨i1, i2, i3, i4, _⟩ := hp.inplace hroom
          exact ⟨by rw [hr, hend], hp.inserted hend, fun _ => ⟨i1, i2, i4, i3⟩, fun h => absurd hroom h⟩
        · intro e w' ⟨_, hq⟩
          have hs := Strong.of_quiet hl hq
          exact ⟨hs.insBasic hl hv, fun _ => hs⟩
      · refine Res.sat_mono hrun ?_ ?_
        · intro r w' ⟨hr, hi, hk⟩
          exact ⟨hr, hi, fun _ => hk, fun h => absurd hroom h⟩
        · intro e w' hf
          exact ⟨hf.insBasic, fun h => absurd h hend⟩
  · rw [if_neg (by simpa using hroom)]
    have hfull : (w.hdr c).size = (w.hdr c).cap := by have := hv.size_le; omega
    refine Res.sat_mono (emplaceIntoReallocation_sat cfg c pos s w hv hl hNmax hfull hpos ha hstrong) ?_ ?_
    · intro r w' ⟨hr, hi, h1, h2⟩
      exact ⟨hr, hi, fun h => absurd h hroom, fun _ => ⟨h1, h2⟩⟩
    · intro e w' ⟨hb, _, hs⟩
      exact ⟨hb, hs⟩

end SvModel
