/-
Concrete worlds used by the non-vacuity examples next to the property theorems: container 0 with inline capacity 2,
full ([1, 2] in its inline buffer), for an element type whose every operation may throw.
-/
import SvModel.Proofs.Erase
import SvModel.Proofs.Append

namespace SvModel.Ex

def cfgT : Cfg := { copyThrows := true, moveThrows := true, casgThrows := true, masgThrows := true }

/-- container 0: N = 2, inline, holds [1, 2] (full) -/
def w0 : World Int :=
  { mem := fun b => if b = 0 then [.obj (.val 1), .obj (.val 2)] else [],
    hdr := fun _ => { N := 2, inl := 0, cap := 2, size := 2, data := 0, alloc := 7 },
    owner := fun _ => 0, live := [], next := 5, ntmp := 6, faults := [], trace := [], ub := [] }

theorem w0_ledger : Ledger w0 := by
  refine ⟨by decide, by decide, fun b hb => by simp [w0] at hb, by simp [w0], ?_, ?_⟩
  · intro b h1 _ _; simp [w0]; omega
  · intro b h1 _; simp [w0]; have : w0.ntmp = 6 := rfl; omega

theorem w0_vec : VecOK cfgT w0 0 := by
  refine ⟨by decide, by decide, by decide, by decide, by decide, by decide, ?_, ?_, fun h => absurd rfl h, fun h => absurd rfl h⟩
  · intro i hi
    have : i < 2 := hi
    match i, this with
    | 0, _ => exact ⟨_, rfl⟩
    | 1, _ => exact ⟨_, rfl⟩
  · intro i h1 h2
    have a : 2 ≤ i := h1
    have b : i < 2 := h2
    omega

theorem w0_holds : Holds w0 0 [.val 1, .val 2] := by
  refine ⟨rfl, ?_⟩
  intro i hi
  have : i < 2 := hi
  match i, this with
  | 0, _ => rfl
  | 1, _ => rfl

theorem argExt (a : Int) (w : World Int) (c : Nat) : ArgOK cfgT w c (.ext a) :=
  ⟨rfl, fun _ _ h => by simp [Src.loc] at h, fun _ _ h => by simp [Src.loc] at h⟩

end SvModel.Ex
