/-
Construction and destruction.  `Unborn w c`: the storage of container `c` before its constructor runs / after its
destructor has run — the in-object buffer is N raw slots and nothing else belongs to it.

 * `ctorFill_sat`   count / count+value / generator / forward-range / copy construction (`ctorFill`): on return the
                    container satisfies `VecOK` and holds the source values; if an element constructor or the allocator
                    throws, every element constructed so far has been destroyed, the block (if any) has been returned,
                    the ledger is intact and the storage is `Unborn` again: nothing leaks, no object outlives the failed
                    constructor (C03, C04, C06).
 * `dtor_sat`       the destructor destroys the size () live elements, returns the heap block, and leaves `Unborn`.
-/
import SvModel.Proofs.Assign

namespace SvModel
open Gen
variable {α : Type}

/-- raw storage of container `c` (before construction / after destruction) -/
structure Unborn (w : World α) (c : Nat) : Prop where
  inl_lt : (w.hdr c).inl < 5
  len    : (w.mem (w.hdr c).inl).length = (w.hdr c).N
  raws   : ∀ i, i < (w.hdr c).N → IsRaw w (w.hdr c).inl i

/-- the frame of a constructor / destructor of `c`: other headers, other container-class blocks, their ownership -/
structure CFrame (w w' : World α) (c : Nat) : Prop where
  hdr_other : ∀ d, d ≠ c → w'.hdr d = w.hdr d
  hdr_N     : (w'.hdr c).N = (w.hdr c).N
  hdr_inl   : (w'.hdr c).inl = (w.hdr c).inl
  mem_other : ∀ b, b ≠ (w.hdr c).inl → b < w.next → w'.mem b = w.mem b
  owner_old : ∀ b, b < w.next → w'.owner b = w.owner b
  ub        : w'.ub = w.ub
  ntmp      : w'.ntmp = w.ntmp

/-- sources of a constructor: values from outside, or copies of live elements of another block (copy construction) -/
structure CtorSrcs (cfg : Cfg) (w : World α) (c : Nat) (srcs : List (Src α)) : Prop where
  nonmoving : NonMoving cfg srcs
  live      : ∀ s ∈ srcs, SrcLive w s
  apart     : ∀ s ∈ srcs, ∀ b i, s.loc = some (b, i) → b ≠ (w.hdr c).inl ∧ b < w.next

theorem ctorFill_sat (cfg : Cfg) (c a : Nat) (checked : Bool) (srcs : List (Src α)) (w : World α)
    (hu : Unborn w c) (hl : Ledger w) (hNmax : (w.hdr c).N ≤ cfg.maxSize)
    (hk : checked = false → srcs.length ≤ cfg.maxSize) (hs : CtorSrcs cfg w c srcs) :
    (ctorFill cfg c a checked srcs w).sat
      (fun _ w' => VecOK cfg w' c ∧ Ledger w' ∧ Holds w' c (srcs.map (srcVal w)) ∧ (w'.hdr c).alloc = a ∧
          (w'.live = if (w.hdr c).N < srcs.length then w.next :: w.live else w.live) ∧
          (w'.hdr c).N = (w.hdr c).N ∧ (w'.hdr c).cap = (if (w.hdr c).N < srcs.length then srcs.length else (w.hdr c).N) ∧
          (w'.hdr c).data = (if (w.hdr c).N < srcs.length then w.next else (w.hdr c).inl) ∧ CFrame w w' c)
      (fun e w' => Unborn w' c ∧ Ledger w' ∧ w'.live = w.live ∧ (e = .length → cfg.maxSize < srcs.length ∧ checked = true) ∧ CFrame w w' c) := by
  unfold ctorFill
  have hsa : SvModel.setAlloc c a w = .ok () { w with hdr := upd w.hdr c { w.hdr c with alloc := a } } := rfl
  rw [bind_run, hsa]
  simp only []
  generalize hw1 : ({ w with hdr := upd w.hdr c { w.hdr c with alloc := a } } : World α) = w1
  have hmem1 : w1.mem = w.mem := by subst hw1; rfl
  have hhc1 : w1.hdr c = { w.hdr c with alloc := a } := by subst hw1; simp
  have hho1 : ∀ d, d ≠ c → w1.hdr d = w.hdr d := by
    intro d hd; subst hw1; show (upd w.hdr c _) d = _; rw [upd_other _ _ _ _ hd]
  have hq1 : w1.owner = w.owner ∧ w1.live = w.live ∧ w1.next = w.next ∧ w1.ntmp = w.ntmp ∧ w1.ub = w.ub := by subst hw1; exact ⟨rfl, rfl, rfl, rfl, rfl⟩
  obtain ⟨ho1, hlv1, hn1, ht1, hub1⟩ := hq1
  have hl1 : Ledger w1 := by
    refine ⟨by rw [hn1]; exact hl.next_ok, by rw [ht1]; exact hl.ntmp_ok, fun b hb => by rw [hlv1] at hb; rw [hn1]; exact hl.live_ok b hb,
            by rw [hlv1]; exact hl.nodup, fun b h1 h2 h3 => by rw [hmem1]; exact hl.freed b h1 h2 (by rw [← hlv1]; exact h3),
            fun b h1 h2 => by rw [hmem1]; exact hl.tmpfresh b (by rw [← ht1]; exact h1) h2⟩
  have hu1 : Unborn w1 c := ⟨by rw [hhc1]; exact hu.inl_lt, by rw [hhc1, hmem1]; exact hu.len,
    fun i hi => by rw [hhc1] at hi ⊢; unfold IsRaw; rw [hmem1]; exact hu.raws i hi⟩
  rw [bind_run, getV_run]
  simp only []
  rw [hhc1]
  simp only []
  have hlive1 : ∀ s ∈ srcs, SrcLive w1 s := fun s hs' b i hl' => by
    obtain ⟨v, hv⟩ := hs.live s hs' b i hl'; exact ⟨v, by rw [hmem1]; exact hv⟩
  have hsv1 : ∀ s ∈ srcs, srcVal w1 s = srcVal w s := fun s _ => srcVal_congr w w1 s (fun b i _ => by rw [hmem1])
  have hml : (srcs.map (srcVal w)).length = srcs.length := by simp
  have hnext := hl.next_ok
  by_cases hbig : (w.hdr c).N < srcs.length
  · ------------------------------------------------------------------ heap
    rw [if_pos hbig]
    have hkmax : checked = true → ¬ cfg.maxSize < srcs.length → srcs.length ≤ cfg.maxSize := fun _ h => by omega
    -- the allocation step, checked or not
    have halloc : ((if checked = true then checkedAllocate cfg a srcs.length else allocate cfg a srcs.length) w1).sat
        (fun nb w2 => srcs.length ≤ cfg.maxSize ∧ nb = w1.next ∧ w2.mem = upd w1.mem w1.next (List.replicate srcs.length .raw) ∧
            w2.owner = upd w1.owner w1.next a ∧ w2.live = w1.next :: w1.live ∧ w2.next = w1.next + 2 ∧ w2.hdr = w1.hdr ∧
            w2.ntmp = w1.ntmp ∧ w2.ub = w1.ub)
        (fun e w2 => Quiet w1 w2 ∧ (e = .length → cfg.maxSize < srcs.length ∧ checked = true)) := by
      cases hch : checked
      · simp only [Bool.false_eq_true, if_false]
        exact Res.sat_mono (allocate_sat cfg a srcs.length w1) (fun _ _ h => ⟨hk hch, h⟩)
          (fun e _ h => ⟨h.2, fun he => by rw [h.1] at he; cases he⟩)
      · simp only [if_true]
        unfold checkedAllocate
        have e : guard_checkedAllocate_0 { maxSize := cfg.maxSize, request := srcs.length } = decide (cfg.maxSize < srcs.length) := rfl
        rw [e]
        by_cases hm : cfg.maxSize < srcs.length
        · rw [if_pos (decide_eq_true hm)]
          exact ⟨Quiet.refl w1, fun _ => ⟨hm, trivial⟩⟩
        · rw [if_neg (by simpa using hm)]
          exact Res.sat_mono (allocate_sat cfg a srcs.length w1) (fun _ _ h => ⟨by omega, h⟩)
            (fun e _ h => ⟨h.2, fun he => by rw [h.1] at he; cases he⟩)
    refine sat_bind halloc (fun nb w2 h2 => ?_) (fun e w2 hth => ?_)
    rotate_left
    · -- the allocation threw (or length_error): nothing happened
      obtain ⟨hq, hlen⟩ := hth
      refine ⟨⟨by rw [hq.2.hdr, hhc1]; exact hu.inl_lt, by rw [hq.2.hdr, hhc1, hq.1, hmem1]; exact hu.len,
               fun i hi => by rw [hq.2.hdr, hhc1] at hi ⊢; unfold IsRaw; rw [hq.1, hmem1]; exact hu.raws i hi⟩,
              hl1.of_ctl hq.2, by rw [hq.2.live, hlv1], hlen,
              ⟨fun d hd => by rw [hq.2.hdr]; exact hho1 d hd, by rw [hq.2.hdr, hhc1], by rw [hq.2.hdr, hhc1],
               fun b _ _ => by rw [hq.1, hmem1], fun b _ => by rw [hq.2.owner, ho1], by rw [hq.2.ub, hub1], by rw [hq.2.ntmp, ht1]⟩⟩
    obtain ⟨hkm, hnb, hm2, ho2, hlv2, hn2, hh2, ht2, hub2⟩ := h2
    rw [hn1] at hnb hm2 ho2 hlv2 hn2
    subst hnb
    have hI5 : (w.hdr c).inl < 5 := hu.inl_lt
    have hnI : w.next ≠ (w.hdr c).inl := by omega
    have hnotlive : w.next ∉ w.live := fun h => by have := (hl.live_ok _ h).2.2; omega
    have hoth2 : ∀ b, b ≠ w.next → w2.mem b = w.mem b := fun b hb => by rw [hm2, upd_other _ _ _ _ hb, hmem1]
    have hraw2 : ∀ i, i < srcs.length → IsRaw w2 w.next i := fun i hi => by unfold IsRaw; rw [hm2]; simp [hi]
    have hlen2 : (w2.mem w.next).length = srcs.length := by rw [hm2]; simp
    -- set_data_ptr, set_capacity
    have hsd : setDataPtr c w.next w2 = .ok () { w2 with hdr := upd w2.hdr c { w2.hdr c with data := w.next } } := rfl
    rw [bind_run, hsd]
    simp only []
    generalize hw3 : ({ w2 with hdr := upd w2.hdr c { w2.hdr c with data := w.next } } : World α) = w3
    have hsc : setCapacity c srcs.length w3 = .ok () { w3 with hdr := upd w3.hdr c { w3.hdr c with cap := srcs.length } } := rfl
    rw [bind_run, hsc]
    simp only []
    generalize hw4 : ({ w3 with hdr := upd w3.hdr c { w3.hdr c with cap := srcs.length } } : World α) = w4
    have hmem4 : w4.mem = w2.mem := by subst hw4; subst hw3; rfl
    have hhc4 : w4.hdr c = { w.hdr c with alloc := a, data := w.next, cap := srcs.length } := by
      subst hw4; subst hw3
      show (upd (upd w2.hdr c _) c _) c = _
      simp only [upd_same]
      rw [hh2, hhc1]
    have hho4 : ∀ d, d ≠ c → w4.hdr d = w.hdr d := by
      intro d hd
      subst hw4; subst hw3
      show (upd (upd w2.hdr c _) c _) d = _
      rw [upd_other _ _ _ _ hd, upd_other _ _ _ _ hd, hh2]
      subst hw1
      show (upd w.hdr c _) d = _
      rw [upd_other _ _ _ _ hd]
    have hq4 : w4.owner = w2.owner ∧ w4.live = w2.live ∧ w4.next = w2.next ∧ w4.ntmp = w2.ntmp ∧ w4.ub = w2.ub := by
      subst hw4; subst hw3; exact ⟨rfl, rfl, rfl, rfl, rfl⟩
    obtain ⟨ho4, hlv4, hn4, ht4, hub4⟩ := hq4
    have hlive4 : ∀ s ∈ srcs, SrcLive w4 s := fun s hs' b i hl' => by
      obtain ⟨v, hv⟩ := hs.live s hs' b i hl'
      exact ⟨v, by rw [hmem4, hoth2 b (by have := (hs.apart s hs' b i hl').2; omega)]; exact hv⟩
    have hsv4 : ∀ s ∈ srcs, srcVal w4 s = srcVal w s := fun s hs' =>
      srcVal_congr w w4 s (fun b i hl' => by rw [hmem4, hoth2 b (by have := (hs.apart s hs' b i hl').2; omega)])
    have hfill := uninitGen_nonmoving_sat cfg w.next 0 srcs 0 w4 hs.nonmoving hlive4 (fun j h => by omega)
      (fun k hk' => by have := hraw2 k hk'; unfold IsRaw at this ⊢; rw [hmem4]; simpa using this)
    refine sat_bind (sat_tryCatch (Q := fun _ w5 => Ctl w4 w5 ∧
        (∀ k (h : k < srcs.length), (w5.mem w.next)[k]? = some (.obj (srcVal w srcs[k]))) ∧
        (∀ (b i : Nat), b ≠ w.next → (w5.mem b)[i]? = (w4.mem b)[i]?))
        (E := fun e w' => Unborn w' c ∧ Ledger w' ∧ w'.live = w.live ∧ (e = .length → cfg.maxSize < srcs.length ∧ checked = true) ∧ CFrame w w' c)
        (Res.sat_mono hfill ?_ (fun _ _ h => h)) ?_) ?_ (fun _ _ h => h)
    · intro _ w5 ⟨hc5, hv5, hrest5⟩
      refine ⟨hc5, fun k hk' => ?_, fun b i hb => hrest5 b i (by intro ⟨h, _, _⟩; exact hb h)⟩
      have := hv5 k hk'
      simp only [Nat.zero_add] at this
      rw [this, hsv4 _ (List.getElem_mem hk')]
    · -- an element constructor threw: the block goes back
      intro e w5 ⟨⟨he, _⟩, hc5, hr5, hrest5⟩
      have hin : w.next ∈ w5.live := by rw [hc5.live, hlv4, hlv2]; simp
      have hl5 : (w5.mem w.next).length = srcs.length := by rw [hc5.len, hmem4]; exact hlen2
      have hraw5 : ∀ i, i < srcs.length → IsRaw w5 w.next i := fun i hi => hr5 i (Nat.zero_le _) (by omega)
      have hown5 : w5.owner w.next = a := by rw [hc5.owner, ho4, ho2]; simp
      rw [bind_run, deallocate_run a w.next srcs.length w5 hin hl5 hraw5 hown5]
      generalize hw6 : ({ w5 with mem := upd w5.mem w.next [], live := w5.live.erase w.next,
                                    trace := w5.trace ++ [Ev.dealloc w.next srcs.length a] } : World α) = w6
      have hmem6 : ∀ b, b ≠ w.next → w6.mem b = w.mem b := by
        intro b hb
        subst hw6
        show upd w5.mem w.next [] b = _
        rw [upd_other _ _ _ _ hb]
        apply List.ext_getElem?
        intro i
        rw [hrest5 b i (by intro ⟨h, _, _⟩; exact hb h), hmem4, hoth2 b hb]
      have hh6 : w6.hdr = w4.hdr := by subst hw6; exact hc5.hdr
      have hlv6 : w6.live = w.live := by
        subst hw6; show w5.live.erase w.next = _
        rw [hc5.live, hlv4, hlv2, List.erase_cons_head, hlv1]
      show Unborn w6 c ∧ _
      refine ⟨⟨by rw [hh6, hhc4]; exact hu.inl_lt, by rw [hh6, hhc4]; show (w6.mem (w.hdr c).inl).length = (w.hdr c).N; rw [hmem6 (w.hdr c).inl (Ne.symm hnI)]; exact hu.len,
               fun i hi => by
                 rw [hh6, hhc4] at hi ⊢
                 show IsRaw w6 (w.hdr c).inl i
                 unfold IsRaw; rw [hmem6 (w.hdr c).inl (Ne.symm hnI)]; exact hu.raws i hi⟩, ?_, hlv6, (fun h => by rw [he] at h; cases h), ?_⟩
      rotate_left
      · refine ⟨fun d hd => by rw [hh6]; exact hho4 d hd, by rw [hh6, hhc4], by rw [hh6, hhc4], fun b _ hb => hmem6 b (by omega),
                fun b hb => ?_, ?_, ?_⟩
        · subst hw6; show w5.owner b = _; rw [hc5.owner, ho4, ho2, upd_other _ _ _ _ (by omega), ho1]
        · subst hw6; show w5.ub = _; rw [hc5.ub, hub4, hub2, hub1]
        · subst hw6; show w5.ntmp = _; rw [hc5.ntmp, ht4, ht2, ht1]
      refine ⟨by subst hw6; show w5.next % 2 = 1 ∧ _; rw [hc5.next, hn4, hn2]; omega,
              by subst hw6; show w5.ntmp % 2 = 0 ∧ _; rw [hc5.ntmp, ht4, ht2, ht1]; exact hl.ntmp_ok, ?_, by rw [hlv6]; exact hl.nodup, ?_, ?_⟩
      · intro b hb; rw [hlv6] at hb
        have := hl.live_ok b hb
        have hn6 : w6.next = w.next + 2 := by subst hw6; show w5.next = _; rw [hc5.next, hn4, hn2]
        rw [hn6]; omega
      · intro b h1 h2 h3
        by_cases hbn : b = w.next
        · subst hbn; subst hw6; show upd w5.mem _ [] _ = []; simp
        · rw [hmem6 b hbn]; exact hl.freed b h1 h2 (by rw [← hlv6]; exact h3)
      · intro b h1 h2
        have hnt : w6.ntmp = w.ntmp := by subst hw6; show w5.ntmp = _; rw [hc5.ntmp, ht4, ht2, ht1]
        rw [hnt] at h1
        rw [hmem6 b (by omega)]; exact hl.tmpfresh b h1 h2
    · -- all elements constructed: set_size
      intro _ w5 ⟨hc5, hv5, hrest5⟩
      have hss : setSize c srcs.length w5 = .ok () { w5 with hdr := upd w5.hdr c { w5.hdr c with size := srcs.length } } := rfl
      rw [hss]
      generalize hw6 : ({ w5 with hdr := upd w5.hdr c { w5.hdr c with size := srcs.length } } : World α) = w6
      have hmem6 : w6.mem = w5.mem := by subst hw6; rfl
      have hhc6 : w6.hdr c = { w.hdr c with alloc := a, data := w.next, cap := srcs.length, size := srcs.length } := by
        subst hw6; show (upd w5.hdr c _) c = _; simp only [upd_same]; rw [hc5.hdr, hhc4]
      have hq6 : w6.owner = w5.owner ∧ w6.live = w5.live ∧ w6.next = w5.next ∧ w6.ntmp = w5.ntmp := by subst hw6; exact ⟨rfl, rfl, rfl, rfl⟩
      obtain ⟨ho6, hlv6, hn6, ht6⟩ := hq6
      have hmemo : ∀ b, b ≠ w.next → w6.mem b = w.mem b := by
        intro b hb
        rw [hmem6]
        apply List.ext_getElem?
        intro i
        rw [hrest5 b i hb, hmem4, hoth2 b hb]
      have hlive6 : w6.live = w.next :: w.live := by rw [hlv6, hc5.live, hlv4, hlv2, hlv1]
      show VecOK cfg w6 c ∧ _
      have hcf6 : CFrame w w6 c := by
        refine ⟨fun d hd => ?_, by rw [hhc6], by rw [hhc6], fun b _ hb => hmemo b (by omega), fun b hb => ?_, ?_, ?_⟩
        · have : w6.hdr d = w5.hdr d := by subst hw6; show (upd w5.hdr c _) d = _; rw [upd_other _ _ _ _ hd]
          rw [this, hc5.hdr]; exact hho4 d hd
        · rw [ho6, hc5.owner, ho4, ho2, upd_other _ _ _ _ (by omega), ho1]
        · have : w6.ub = w5.ub := by subst hw6; rfl
          rw [this, hc5.ub, hub4, hub2, hub1]
        · rw [ht6, hc5.ntmp, ht4, ht2, ht1]
      refine ⟨?_, ?_, ⟨by rw [hhc6, hml], fun i hi => ?_⟩, by rw [hhc6], by rw [hlive6, if_pos hbig], by rw [hhc6], by rw [hhc6, if_pos hbig], by rw [hhc6, if_pos hbig], hcf6⟩
      · exact {
          size_le := by rw [hhc6]; exact Nat.le_refl _
          cap_ge := by rw [hhc6]; show (w.hdr c).N ≤ srcs.length; omega
          cap_max := by rw [hhc6]; exact Nat.le_trans hkm (Nat.le_max_left _ _)
          inl_iff := by
            rw [hhc6]
            show srcs.length = (w.hdr c).N ↔ w.next = (w.hdr c).inl
            exact ⟨fun h => by omega, fun h => absurd h hnI⟩
          inl_lt := by rw [hhc6]; exact hI5
          len := by rw [hhc6]; show (w6.mem w.next).length = srcs.length; rw [hmem6, hc5.len, hmem4]; exact hlen2
          objs := by rw [hhc6]; intro i hi; exact ⟨_, by rw [hmem6]; exact hv5 i hi⟩
          raws := by rw [hhc6]; intro i h1 h2; exact absurd h2 (Nat.not_lt.mpr h1)
          heap := by
            rw [hhc6]
            intro _
            refine ⟨by rw [hlive6]; simp, ?_⟩
            show w6.owner w.next = a
            rw [ho6, hc5.owner, ho4, ho2]; simp
          idle := by
            rw [hhc6]
            intro _
            show (w6.mem (w.hdr c).inl).length = (w.hdr c).N ∧ ∀ i, i < (w.hdr c).N → IsRaw w6 (w.hdr c).inl i
            refine ⟨by rw [hmemo _ (Ne.symm hnI)]; exact hu.len, fun i hi => ?_⟩
            unfold IsRaw; rw [hmemo _ (Ne.symm hnI)]; exact hu.raws i hi }
      · refine ⟨by rw [hn6, hc5.next, hn4, hn2]; omega, by rw [ht6, hc5.ntmp, ht4, ht2, ht1]; exact hl.ntmp_ok, ?_, ?_, ?_, ?_⟩
        · intro b hb
          rw [hlive6] at hb
          rw [hn6, hc5.next, hn4, hn2]
          rcases List.mem_cons.mp hb with rfl | hb'
          · omega
          · have := hl.live_ok b hb'; omega
        · rw [hlive6]; exact List.nodup_cons.mpr ⟨hnotlive, hl.nodup⟩
        · intro b h1 h2 h3
          have hbn : b ≠ w.next := fun h => h3 (by rw [hlive6, h]; simp)
          rw [hmemo b hbn]
          exact hl.freed b h1 h2 (fun h => h3 (by rw [hlive6]; simp [h]))
        · intro b h1 h2
          rw [ht6, hc5.ntmp, ht4, ht2, ht1] at h1
          rw [hmemo b (by omega)]; exact hl.tmpfresh b h1 h2
      · rw [hhc6]; simp only []
        rw [hmem6, hv5 i (by rw [hml] at hi; exact hi)]
        simp
  · ------------------------------------------------------------------ inline
    rw [if_neg hbig]
    have hsi : setToInlineStorage c w1 = .ok () { w1 with hdr := upd w1.hdr c { w1.hdr c with cap := (w1.hdr c).N, data := (w1.hdr c).inl } } := rfl
    rw [bind_run, hsi]
    simp only []
    generalize hw2 : ({ w1 with hdr := upd w1.hdr c { w1.hdr c with cap := (w1.hdr c).N, data := (w1.hdr c).inl } } : World α) = w2
    have hmem2 : w2.mem = w.mem := by subst hw2; exact hmem1
    have hhc2 : w2.hdr c = { w.hdr c with alloc := a, cap := (w.hdr c).N, data := (w.hdr c).inl } := by
      subst hw2; show (upd w1.hdr c _) c = _; simp only [upd_same]; rw [hhc1]
    have hq2 : w2.owner = w.owner ∧ w2.live = w.live ∧ w2.next = w.next ∧ w2.ntmp = w.ntmp ∧ w2.ub = w.ub := by
      subst hw2; exact ⟨ho1, hlv1, hn1, ht1, hub1⟩
    obtain ⟨ho2, hlv2, hn2, ht2, hub2⟩ := hq2
    have hl2 : Ledger w2 := by
      refine ⟨by rw [hn2]; exact hl.next_ok, by rw [ht2]; exact hl.ntmp_ok, fun b hb => by rw [hlv2] at hb; rw [hn2]; exact hl.live_ok b hb,
              by rw [hlv2]; exact hl.nodup, fun b h1 h2 h3 => by rw [hmem2]; exact hl.freed b h1 h2 (by rw [← hlv2]; exact h3),
              fun b h1 h2 => by rw [hmem2]; exact hl.tmpfresh b (by rw [← ht2]; exact h1) h2⟩
    have hlive2 : ∀ s ∈ srcs, SrcLive w2 s := fun s hs' b i hl' => by
      obtain ⟨v, hv⟩ := hs.live s hs' b i hl'; exact ⟨v, by rw [hmem2]; exact hv⟩
    have hsv2 : ∀ s ∈ srcs, srcVal w2 s = srcVal w s := fun s _ => srcVal_congr w w2 s (fun b i _ => by rw [hmem2])
    have hfill := uninitGen_nonmoving_sat cfg (w.hdr c).inl 0 srcs 0 w2 hs.nonmoving hlive2 (fun j h => by omega)
      (fun k hk' => by have := hu.raws k (by omega); unfold IsRaw at this ⊢; rw [hmem2]; simpa using this)
    refine sat_bind hfill (fun _ w3 ⟨hc3, hv3, hrest3⟩ => ?_) ?_
    · have hss : setSize c srcs.length w3 = .ok () { w3 with hdr := upd w3.hdr c { w3.hdr c with size := srcs.length } } := rfl
      rw [hss]
      generalize hw4 : ({ w3 with hdr := upd w3.hdr c { w3.hdr c with size := srcs.length } } : World α) = w4
      have hmem4 : w4.mem = w3.mem := by subst hw4; rfl
      have hhc4 : w4.hdr c = { w.hdr c with alloc := a, cap := (w.hdr c).N, data := (w.hdr c).inl, size := srcs.length } := by
        subst hw4; show (upd w3.hdr c _) c = _; simp only [upd_same]; rw [hc3.hdr, hhc2]
      have hq4 : w4.owner = w3.owner ∧ w4.live = w3.live ∧ w4.next = w3.next ∧ w4.ntmp = w3.ntmp := by subst hw4; exact ⟨rfl, rfl, rfl, rfl⟩
      obtain ⟨ho4, hlv4, hn4, ht4⟩ := hq4
      have hl4 : Ledger w4 := by
        have h3 := hl2.of_ctl hc3
        refine ⟨by rw [hn4]; exact h3.next_ok, by rw [ht4]; exact h3.ntmp_ok, fun b hb => by rw [hlv4] at hb; rw [hn4]; exact h3.live_ok b hb,
                by rw [hlv4]; exact h3.nodup, fun b h1 h2 h3' => by rw [hmem4]; exact h3.freed b h1 h2 (by rw [← hlv4]; exact h3'),
                fun b h1 h2 => by rw [hmem4]; exact h3.tmpfresh b (by rw [← ht4]; exact h1) h2⟩
      show VecOK cfg w4 c ∧ _
      have hho2 : ∀ d, d ≠ c → w2.hdr d = w.hdr d := by
        intro d hd; subst hw2; show (upd w1.hdr c _) d = _; rw [upd_other _ _ _ _ hd]; exact hho1 d hd
      have hcf4 : CFrame w w4 c := by
        refine ⟨fun d hd => ?_, by rw [hhc4], by rw [hhc4], fun b hb _ => ?_, fun b _ => by rw [ho4, hc3.owner, ho2], ?_, by rw [ht4, hc3.ntmp, ht2]⟩
        · have : w4.hdr d = w3.hdr d := by subst hw4; show (upd w3.hdr c _) d = _; rw [upd_other _ _ _ _ hd]
          rw [this, hc3.hdr]; exact hho2 d hd
        · rw [hmem4]
          apply List.ext_getElem?
          intro i
          rw [hrest3 b i (by intro ⟨h, _, _⟩; exact hb h), hmem2]
        · have : w4.ub = w3.ub := by subst hw4; rfl
          rw [this, hc3.ub, hub2]
      refine ⟨?_, hl4, ⟨by rw [hhc4, hml], fun i hi => ?_⟩, by rw [hhc4], by rw [hlv4, hc3.live, hlv2, if_neg hbig], by rw [hhc4], by rw [hhc4, if_neg hbig], by rw [hhc4, if_neg hbig], hcf4⟩
      · exact {
          size_le := by rw [hhc4]; show srcs.length ≤ (w.hdr c).N; omega
          cap_ge := by rw [hhc4]; exact Nat.le_refl _
          cap_max := by rw [hhc4]; exact Nat.le_max_right _ _
          inl_iff := by rw [hhc4]; exact ⟨fun _ => rfl, fun _ => rfl⟩
          inl_lt := by rw [hhc4]; exact hu.inl_lt
          len := by rw [hhc4]; show (w4.mem (w.hdr c).inl).length = (w.hdr c).N; rw [hmem4, hc3.len, hmem2]; exact hu.len
          objs := by
            rw [hhc4]
            intro i hi
            have := hv3 i hi
            simp only [Nat.zero_add] at this
            exact ⟨_, by rw [hmem4]; exact this⟩
          raws := by
            rw [hhc4]
            intro i h1 h2
            show IsRaw w4 (w.hdr c).inl i
            unfold IsRaw
            rw [hmem4, hrest3 (w.hdr c).inl i (by intro ⟨_, _, h⟩; have : srcs.length ≤ i := h1; omega), hmem2]
            exact hu.raws i h2
          heap := by rw [hhc4]; intro h; exact absurd rfl h
          idle := by rw [hhc4]; intro h; exact absurd rfl h }
      · rw [hhc4]; simp only []
        have := hv3 i (by rw [hml] at hi; exact hi)
        simp only [Nat.zero_add] at this
        rw [hmem4, this, hsv2 _ (List.getElem_mem _)]
        simp
    · -- an element constructor threw: the constructed ones were destroyed again
      intro e w3 ⟨⟨he, _⟩, hc3, hr3, hrest3⟩
      refine ⟨⟨by rw [hc3.hdr, hhc2]; exact hu.inl_lt, by rw [hc3.hdr, hhc2]; show (w3.mem (w.hdr c).inl).length = (w.hdr c).N; rw [hc3.len, hmem2]; exact hu.len,
               fun i hi => ?_⟩, hl2.of_ctl hc3, by rw [hc3.live, hlv2], (fun h => by rw [he] at h; cases h), ?_⟩
      rotate_left
      · have hho2 : ∀ d, d ≠ c → w2.hdr d = w.hdr d := by
          intro d hd; subst hw2; show (upd w1.hdr c _) d = _; rw [upd_other _ _ _ _ hd]; exact hho1 d hd
        refine ⟨fun d hd => by rw [hc3.hdr]; exact hho2 d hd, by rw [hc3.hdr, hhc2], by rw [hc3.hdr, hhc2], fun b hb _ => ?_,
                fun b _ => by rw [hc3.owner, ho2], by rw [hc3.ub, hub2], by rw [hc3.ntmp, ht2]⟩
        apply List.ext_getElem?
        intro i
        rw [hrest3 b i (by intro ⟨h, _, _⟩; exact hb h), hmem2]
      rw [hc3.hdr, hhc2] at hi ⊢
      show IsRaw w3 (w.hdr c).inl i
      by_cases h : i < srcs.length
      · exact hr3 i (Nat.zero_le _) (by omega)
      · unfold IsRaw
        rw [hrest3 (w.hdr c).inl i (by intro ⟨_, _, h'⟩; omega), hmem2]
        exact hu.raws i hi

/-- the destructor: every live element destroyed, the heap block returned, the storage raw again -/
theorem dtor_sat (cfg : Cfg) (c : Nat) (w : World α) (hv : VecOK cfg w c) (hl : Ledger w) :
    (dtor cfg c w).sat
      (fun _ w' => Unborn w' c ∧ Ledger w' ∧ w'.ub = w.ub ∧ w'.hdr = w.hdr ∧
          (w'.live = if (w.hdr c).N < (w.hdr c).cap then w.live.erase (w.hdr c).data else w.live) ∧
          (∀ b, b ≠ (w.hdr c).data → w'.mem b = w.mem b) ∧ w'.owner = w.owner)
      (fun _ _ => False) := by
  unfold dtor
  refine Res.sat_mono (wipe_sat cfg c w hv) ?_ (fun _ _ h => h)
  intro _ w' hw
  have hinl := hv.inl_lt
  refine ⟨?_, ?_, hw.ub, hw.hdr, hw.live, hw.other, hw.owner⟩
  · -- Unborn
    by_cases hcap : (w.hdr c).N < (w.hdr c).cap
    · have hne := (hv.heap_iff).mp hcap
      obtain ⟨h1, h2⟩ := hv.idle hne
      have hm : w'.mem (w.hdr c).inl = w.mem (w.hdr c).inl := hw.other _ (Ne.symm hne)
      exact ⟨by rw [hw.hdr]; exact hinl, by rw [hw.hdr, hm]; exact h1, fun i hi => by rw [hw.hdr] at hi ⊢; unfold IsRaw; rw [hm]; exact h2 i hi⟩
    · have he : (w.hdr c).data = (w.hdr c).inl := by
        by_cases he : (w.hdr c).data = (w.hdr c).inl
        · exact he
        · exact absurd ((hv.heap_iff).mpr he) hcap
      have hcapN : (w.hdr c).cap = (w.hdr c).N := (hv.inl_iff).mpr he
      have hd := hw.data
      simp only [hcap, if_false] at hd
      rw [he] at hd
      exact ⟨by rw [hw.hdr]; exact hinl, by rw [hw.hdr, hd.1, hcapN], fun i hi => by rw [hw.hdr] at hi ⊢; exact hd.2 i (by omega)⟩
  · -- Ledger
    refine ⟨by rw [hw.next]; exact hl.next_ok, by rw [hw.ntmp]; exact hl.ntmp_ok, ?_, ?_, ?_, ?_⟩
    · intro b hb
      rw [hw.next]
      rw [hw.live] at hb
      by_cases hcap : (w.hdr c).N < (w.hdr c).cap
      · simp only [hcap, if_true] at hb
        exact hl.live_ok b (List.mem_of_mem_erase hb)
      · simp only [hcap, if_false] at hb
        exact hl.live_ok b hb
    · rw [hw.live]
      by_cases hcap : (w.hdr c).N < (w.hdr c).cap
      · simp only [hcap, if_true]; exact hl.nodup.erase _
      · simp only [hcap, if_false]; exact hl.nodup
    · intro b h1 h2 h3
      by_cases hbd : b = (w.hdr c).data
      · subst hbd
        by_cases hcap : (w.hdr c).N < (w.hdr c).cap
        · have hd := hw.data
          simp only [hcap, if_true] at hd
          exact hd
        · exfalso
          have he : (w.hdr c).data = (w.hdr c).inl := by
            by_cases he : (w.hdr c).data = (w.hdr c).inl
            · exact he
            · exact absurd ((hv.heap_iff).mpr he) hcap
          omega
      · rw [hw.other b hbd]
        apply hl.freed b h1 h2
        intro hin
        apply h3
        rw [hw.live]
        by_cases hcap : (w.hdr c).N < (w.hdr c).cap
        · simp only [hcap, if_true]; exact (List.mem_erase_of_ne hbd).mpr hin
        · simp only [hcap, if_false]; exact hin
    · intro b h1 h2
      rw [hw.ntmp] at h1
      have hbd : b ≠ (w.hdr c).data := by
        intro h
        by_cases hne : (w.hdr c).data = (w.hdr c).inl
        · have := hl.ntmp_ok; omega
        · have := (hv.data_odd hl hne).2.1; omega
      rw [hw.other b hbd]
      exact hl.tmpfresh b h1 h2

/-- construct-then-destroy: the ledger is back where it started (nothing leaked, nothing double-freed) -/
theorem ctor_dtor_balanced (cfg : Cfg) (c a : Nat) (checked : Bool) (srcs : List (Src α)) (w w1 w2 : World α)
    (hu : Unborn w c) (hl : Ledger w) (hNmax : (w.hdr c).N ≤ cfg.maxSize)
    (hk : checked = false → srcs.length ≤ cfg.maxSize) (hs : CtorSrcs cfg w c srcs)
    (h1 : ctorFill cfg c a checked srcs w = .ok () w1) (h2 : dtor cfg c w1 = .ok () w2) :
    w2.live = w.live ∧ Unborn w2 c ∧ Ledger w2 := by
  obtain ⟨hv1, hl1, _, _, hlv1, hN1, hcap1, hdata1, _⟩ := sat_of_ok (ctorFill_sat cfg c a checked srcs w hu hl hNmax hk hs) h1
  obtain ⟨hu2, hl2, _, _, hlv2, _⟩ := sat_of_ok (dtor_sat cfg c w1 hv1 hl1) h2
  refine ⟨?_, hu2, hl2⟩
  rw [hlv2, hlv1, hN1, hcap1, hdata1]
  by_cases hbig : (w.hdr c).N < srcs.length
  · simp only [hbig, if_true]
    rw [List.erase_cons_head]
  · simp only [hbig, if_false, Nat.lt_irrefl]

end SvModel
