/-
Moving assignment across blocks: `std::move (first, last, d_first)` from the elements of ANOTHER block
(`assignGen` over `srcsMove b i n` with `b ≠ dblk`).  On return the targets hold the sources' values and every source
slot is a husk (when the type really moves) or unchanged (when "move" is a copy); on a throw both ranges are still
objects (a prefix assigned / moved-from), nothing else changed.
-/
import SvModel.Proofs.AssignSpec

namespace SvModel
variable {α : Type}

theorem assignGen_move_sat (c : Cfg) (dblk b : Nat) (hne : b ≠ dblk) : ∀ (n i d : Nat) (w : World α),
    (∀ k, k < n → IsObj w b (i + k)) →
    (∀ k, k < n → IsObj w dblk (d + k)) →
    (assignGen c dblk d (srcsMove b i n) w).sat
      (fun _ w' => Ctl w w' ∧
        (∀ k, k < n → (w'.mem dblk)[d + k]? = (w.mem b)[i + k]?) ∧
        (∀ k, k < n → (w'.mem b)[i + k]? = if c.realMove then some (.obj .husk) else (w.mem b)[i + k]?) ∧
        (∀ b' i', ¬ (b' = dblk ∧ d ≤ i' ∧ i' < d + n) → ¬ (b' = b ∧ i ≤ i' ∧ i' < i + n) → (w'.mem b')[i']? = (w.mem b')[i']?))
      (fun e w' => e = .elem ∧ Ctl w w' ∧
        (∀ k, k < n → IsObj w' dblk (d + k)) ∧ (∀ k, k < n → IsObj w' b (i + k)) ∧
        (∀ b' i', ¬ (b' = dblk ∧ d ≤ i' ∧ i' < d + n) → ¬ (b' = b ∧ i ≤ i' ∧ i' < i + n) → (w'.mem b')[i']? = (w.mem b')[i']?))
  | 0, i, d, w, _, _ => by
    show Ctl w w ∧ _
    exact ⟨Ctl.refl w, fun k h => by omega, fun k h => by omega, fun _ _ _ _ => rfl⟩
  | n+1, i, d, w, hsrc, hdst => by
    rw [srcsMove_succ]
    show ((assignSrc c dblk d (.moveOf b i) >>= fun _ => assignGen c dblk (d + 1) (srcsMove b (i + 1) n)) w).sat _ _
    obtain ⟨u, hu⟩ : IsObj w dblk d := by have := hdst 0 (by omega); simpa using this
    obtain ⟨v0, hv0⟩ : IsObj w b i := by have := hsrc 0 (by omega); simpa using this
    have hself : (Src.moveOf b i : Src α).loc ≠ some (dblk, d) := by
      simp only [Src.loc]; intro h; injection h with h; injection h with h1 _; exact hne h1
    have hlive : SrcLive w (Src.moveOf b i : Src α) := by
      intro b' i' hl; simp [Src.loc] at hl; obtain ⟨h1, h2⟩ := hl; subst h1; subst h2; exact ⟨v0, hv0⟩
    refine sat_bind (assignSrc_sat c dblk d (.moveOf b i) w u hu hlive hself) (fun _ w1 hw => ?_) ?_
    · -- after the first assignment
      have hsame : ∀ b' i', (b', i') ≠ (dblk, d) → (b', i') ≠ (b, i) → (w1.mem b')[i']? = (w.mem b')[i']? := by
        intro b' i' h1 h2
        exact hw.rest b' i' h1 (by simp only [Src.loc]; intro h; injection h with h; exact h2 h.symm)
      have hbd : (b, i) ≠ (dblk, d) := by intro h; injection h with h1 _; exact hne h1
      have hsrc0 : (w1.mem b)[i]? = if c.realMove then some (.obj .husk) else (w.mem b)[i]? := by
        have := hw.src b i rfl hbd
        simp only [Src.moving] at this
        rw [this]
        by_cases hrm : c.realMove = true
        · simp [hrm]
        · simp [hrm, srcVal, hv0]
      have hdst0 : (w1.mem dblk)[d]? = (w.mem b)[i]? := by rw [hw.dst, hv0]; simp [srcVal, hv0]
      have hsrc' : ∀ k, k < n → IsObj w1 b (i + 1 + k) := by
        intro k hk
        have := hsrc (k + 1) (by omega)
        rw [show i + (k + 1) = i + 1 + k by omega] at this
        exact isObj_of_eq (hsame b (i + 1 + k) (by intro h; injection h with h1 _; exact hne h1) (by intro h; injection h with _ h; omega)) this
      have hdst' : ∀ k, k < n → IsObj w1 dblk (d + 1 + k) := by
        intro k hk
        have := hdst (k + 1) (by omega)
        rw [show d + (k + 1) = d + 1 + k by omega] at this
        exact isObj_of_eq (hsame dblk (d + 1 + k) (by intro h; injection h with _ h; omega) (by intro h; injection h with h1 _; exact hne h1.symm)) this
      refine Res.sat_mono (assignGen_move_sat c dblk b hne n (i + 1) (d + 1) w1 hsrc' hdst') ?_ ?_
      · intro _ w2 ⟨hc2, hv2, hh2, hrest2⟩
        refine ⟨hw.ctl.trans hc2, ?_, ?_, ?_⟩
        · intro k hk
          cases k with
          | zero =>
            simp only [Nat.add_zero]
            rw [hrest2 dblk d (by intro ⟨_, h, _⟩; omega) (by intro ⟨h, _, _⟩; exact hne h.symm)]
            exact hdst0
          | succ k =>
            have := hv2 k (by omega)
            rw [show d + 1 + k = d + (k + 1) by omega, show i + 1 + k = i + (k + 1) by omega] at this
            rw [this]
            exact hsame b (i + (k + 1)) (by intro h; injection h with h1 _; exact hne h1) (by intro h; injection h with _ h; omega)
        · intro k hk
          cases k with
          | zero =>
            simp only [Nat.add_zero]
            rw [hrest2 b i (by intro ⟨h, _, _⟩; exact hne h) (by intro ⟨_, h, _⟩; omega)]
            exact hsrc0
          | succ k =>
            have := hh2 k (by omega)
            rw [show i + 1 + k = i + (k + 1) by omega] at this
            rw [this]
            by_cases hrm : c.realMove = true
            · simp [hrm]
            · simp only [hrm, if_false]
              exact hsame b (i + (k + 1)) (by intro h; injection h with h1 _; exact hne h1) (by intro h; injection h with _ h; omega)
        · intro b' i' hn1 hn2
          rw [hrest2 b' i' (by intro ⟨h1, h2, h3⟩; exact hn1 ⟨h1, by omega, by omega⟩)
            (by intro ⟨h1, h2, h3⟩; exact hn2 ⟨h1, by omega, by omega⟩)]
          exact hsame b' i' (by intro h; injection h with h1 h2; exact hn1 ⟨h1, by omega, by omega⟩)
            (by intro h; injection h with h1 h2; exact hn2 ⟨h1, by omega, by omega⟩)
      · intro e w2 ⟨he, hc2, hd2, hs2, hrest2⟩
        refine ⟨he, hw.ctl.trans hc2, ?_, ?_, ?_⟩
        · intro k hk
          cases k with
          | zero =>
            simp only [Nat.add_zero]
            exact isObj_of_eq (hrest2 dblk d (by intro ⟨_, h, _⟩; omega) (by intro ⟨h, _, _⟩; exact hne h.symm)) ⟨_, hw.dst⟩
          | succ k =>
            have := hd2 k (by omega)
            rw [show d + 1 + k = d + (k + 1) by omega] at this
            exact this
        · intro k hk
          cases k with
          | zero =>
            simp only [Nat.add_zero]
            refine isObj_of_eq (hrest2 b i (by intro ⟨h, _, _⟩; exact hne h) (by intro ⟨_, h, _⟩; omega)) ?_
            unfold IsObj
            rw [hsrc0]
            by_cases hrm : c.realMove = true
            · exact ⟨.husk, by simp [hrm]⟩
            · exact ⟨v0, by simp [hrm, hv0]⟩
          | succ k =>
            have := hs2 k (by omega)
            rw [show i + 1 + k = i + (k + 1) by omega] at this
            exact this
        · intro b' i' hn1 hn2
          rw [hrest2 b' i' (by intro ⟨h1, h2, h3⟩; exact hn1 ⟨h1, by omega, by omega⟩)
            (by intro ⟨h1, h2, h3⟩; exact hn2 ⟨h1, by omega, by omega⟩)]
          exact hsame b' i' (by intro h; injection h with h1 h2; exact hn1 ⟨h1, by omega, by omega⟩)
            (by intro h; injection h with h1 h2; exact hn2 ⟨h1, by omega, by omega⟩)
    · -- the first assignment threw: nothing happened
      intro e w1 ⟨he, hq⟩
      refine ⟨he.1, hq.2, fun k hk => ?_, fun k hk => ?_, fun b' i' _ _ => by rw [hq.1]⟩
      · unfold IsObj; rw [hq.1]; exact hdst k hk
      · unfold IsObj; rw [hq.1]; exact hsrc k hk

end SvModel
