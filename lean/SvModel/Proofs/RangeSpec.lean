/-
Specification lemmas of the range primitives: destroy_range, the self-cleaning uninitialized_* loop (`uninitGen`),
forward assignment loops (`assignGen`: std::copy / std::move / std::fill), for every fault list.
-/
import SvModel.Proofs.PrimSpec
import SvModel.Ops

namespace SvModel
variable {α : Type}

def IsObj (w : World α) (b i : Nat) : Prop := ∃ v, (w.mem b)[i]? = some (.obj v)
def IsRaw (w : World α) (b i : Nat) : Prop := (w.mem b)[i]? = some .raw

theorem isObj_of_eq {w w' : World α} {b i b' i' : Nat} (h : (w'.mem b')[i']? = (w.mem b)[i]?) (ho : IsObj w b i) : IsObj w' b' i' := by
  obtain ⟨v, hv⟩ := ho; exact ⟨v, by rw [h]; exact hv⟩

theorem isRaw_of_eq {w w' : World α} {b i b' i' : Nat} (h : (w'.mem b')[i']? = (w.mem b)[i]?) (ho : IsRaw w b i) : IsRaw w' b' i' := by
  unfold IsRaw at *; rw [h]; exact ho

theorem not_obj_and_raw {w : World α} {b i : Nat} (h1 : IsObj w b i) (h2 : IsRaw w b i) : False := by
  obtain ⟨v, hv⟩ := h1; rw [IsRaw, hv] at h2; cases h2

theorem destroyAt_sat (c : Cfg) (b i : Nat) (w : World α) (h : IsObj w b i) :
    (destroyAt c b i w).sat
      (fun _ w' => Ctl w w' ∧ IsRaw w' b i ∧ ∀ b' i', (b', i') ≠ (b, i) → (w'.mem b')[i']? = (w.mem b')[i']?)
      (fun _ _ => False) := by
  obtain ⟨v, hv⟩ := h
  have hlt := lt_of_get hv
  rw [destroyAt_run c b i w v hv]
  refine ⟨⟨rfl, rfl, rfl, rfl, rfl, rfl, fun b' => ?_⟩, ?_, ?_⟩
  · show (upd w.mem b ((w.mem b).set i .raw) b').length = _
    rw [len_upd_set]
  · show (upd w.mem b ((w.mem b).set i .raw) b)[i]? = _
    rw [get_upd_set]; simp [hlt]
  · intro b' i' hne
    show (upd w.mem b ((w.mem b).set i .raw) b')[i']? = _
    rw [get_upd_set]
    have : ¬ (b' = b ∧ i' = i ∧ i < (w.mem b).length) := by
      intro ⟨h1, h2, _⟩; exact hne (by rw [h1, h2])
    simp [this]

/-- destroy_range never throws; it turns the live range into raw storage and touches nothing else -/
theorem destroyRange_sat (c : Cfg) (b : Nat) : ∀ (n first : Nat) (w : World α),
    (∀ i, first ≤ i → i < first + n → IsObj w b i) →
    (destroyRange c b first n w).sat
      (fun _ w' => Ctl w w' ∧ (∀ i, first ≤ i → i < first + n → IsRaw w' b i) ∧
                   ∀ b' i', ¬ (b' = b ∧ first ≤ i' ∧ i' < first + n) → (w'.mem b')[i']? = (w.mem b')[i']?)
      (fun _ _ => False)
  | 0, first, w, _ => by
    show Ctl w w ∧ _
    exact ⟨Ctl.refl w, fun i h1 h2 => by omega, fun _ _ _ => rfl⟩
  | n+1, first, w, hobj => by
    show ((destroyAt c b first >>= fun _ => destroyRange c b (first+1) n) w).sat _ _
    refine sat_bind (destroyAt_sat c b first w (hobj first (Nat.le_refl _) (by omega))) (fun _ w1 h1 => ?_) (fun _ _ h => h)
    obtain ⟨hc1, hr1, hrest1⟩ := h1
    have hobj1 : ∀ i, first + 1 ≤ i → i < first + 1 + n → IsObj w1 b i := by
      intro i h1 h2
      obtain ⟨v, hv⟩ := hobj i (by omega) (by omega)
      exact ⟨v, by rw [hrest1 b i (by intro h; injection h with _ h; omega)]; exact hv⟩
    refine Res.sat_mono (destroyRange_sat c b n (first+1) w1 hobj1) ?_ (fun _ _ h => h)
    intro _ w2 ⟨hc2, hr2, hrest2⟩
    refine ⟨hc1.trans hc2, ?_, ?_⟩
    · intro i h1 h2
      by_cases hi : i = first
      · subst hi
        show (w2.mem b)[i]? = some .raw
        rw [hrest2 b i (by intro ⟨_, h, _⟩; omega)]; exact hr1
      · exact hr2 i (by omega) (by omega)
    · intro b' i' hn
      rw [hrest2 b' i' (by intro ⟨h1, h2, h3⟩; exact hn ⟨h1, by omega, by omega⟩)]
      exact hrest1 b' i' (by intro h; injection h with h1 h2; exact hn ⟨h1, by omega, by omega⟩)

theorem destroyRange_nothrow (c : Cfg) (b : Nat) : ∀ (n first : Nat), NoThrow (destroyRange c b first n : M α Unit)
  | 0, _ => fun w => ⟨(), w, rfl⟩
  | n+1, first => by
    intro w
    have h1 : ∃ w1, destroyAt c b first w = .ok () w1 := by
      unfold destroyAt; split <;> exact ⟨_, rfl⟩
    obtain ⟨w1, h1⟩ := h1
    obtain ⟨u, w2, h2⟩ := destroyRange_nothrow c b n (first+1) w1
    refine ⟨u, w2, ?_⟩
    show (destroyAt c b first >>= fun _ => destroyRange c b (first+1) n) w = _
    rw [bind_run, h1]; exact h2

/-! ### uninitGen with sources that are not modified by the construction (copies, external values, value-init) -/

/-- no source of the list is left moved-from -/
def NonMoving (c : Cfg) (srcs : List (Src α)) : Prop := ∀ s ∈ srcs, s.moving c = false

theorem srcVal_congr (w w1 : World α) (s : Src α) (h : ∀ b i, s.loc = some (b, i) → (w1.mem b)[i]? = (w.mem b)[i]?) :
    srcVal w1 s = srcVal w s := by
  cases s with
  | ext a => rfl
  | extMove a => rfl
  | value a => rfl
  | copyOf b i => simp only [srcVal]; rw [h b i rfl]
  | moveOf b i => simp only [srcVal]; rw [h b i rfl]

/-- a write from a non-moving live source changes the target slot only -/
theorem WroteFrom.same_of_nonmoving {c : Cfg} {w w' : World α} {blk idx : Nat} {s : Src α}
    (hw : WroteFrom c w w' blk idx s) (hnm : s.moving c = false) (hlive : SrcLive w s) :
    ∀ b i, (b, i) ≠ (blk, idx) → (w'.mem b)[i]? = (w.mem b)[i]? := by
  intro b i hne
  by_cases hl : s.loc = some (b, i)
  · rw [hw.src b i hl hne, hnm]
    simp only [Bool.false_eq_true, if_false]
    obtain ⟨v, hv⟩ := hlive b i hl
    rw [hv]
    cases s with
    | ext a => simp [Src.loc] at hl
    | extMove a => simp [Src.loc] at hl
    | value a => simp [Src.loc] at hl
    | copyOf b' i' => simp [Src.loc] at hl; obtain ⟨h1, h2⟩ := hl; subst h1; subst h2; simp [srcVal, hv]
    | moveOf b' i' => simp [Src.loc] at hl; obtain ⟨h1, h2⟩ := hl; subst h1; subst h2; simp [srcVal, hv]
  · exact hw.rest b i hne hl

/-- non-moving construction loop: on success the targets hold the sources' values and NOTHING else changed; on a throw
    the whole range [dfirst, dfirst+done+n) is raw again and nothing else changed -/
theorem uninitGen_nonmoving_sat (c : Cfg) (dblk dfirst : Nat) : ∀ (srcs : List (Src α)) (done : Nat) (w : World α),
    NonMoving c srcs →
    (∀ s ∈ srcs, SrcLive w s) →
    (∀ j, j < done → IsObj w dblk (dfirst + j)) →
    (∀ k, k < srcs.length → IsRaw w dblk (dfirst + done + k)) →
    (uninitGen c dblk dfirst done srcs w).sat
      (fun _ w' => Ctl w w' ∧
        (∀ k (h : k < srcs.length), (w'.mem dblk)[dfirst + done + k]? = some (.obj (srcVal w srcs[k]))) ∧
        (∀ b i, ¬ (b = dblk ∧ dfirst + done ≤ i ∧ i < dfirst + done + srcs.length) → (w'.mem b)[i]? = (w.mem b)[i]?))
      (fun e w' => (e = .elem ∧ ∃ s' ∈ srcs, s'.ticks c = true) ∧ Ctl w w' ∧
        (∀ i, dfirst ≤ i → i < dfirst + done + srcs.length → IsRaw w' dblk i) ∧
        (∀ b i, ¬ (b = dblk ∧ dfirst ≤ i ∧ i < dfirst + done + srcs.length) → (w'.mem b)[i]? = (w.mem b)[i]?))
  | [], done, w, _, _, _, _ => by
    show Ctl w w ∧ _
    exact ⟨Ctl.refl w, fun k h => by simp at h, fun _ _ _ => rfl⟩
  | s :: rest, done, w, hnm, hlive, hobj, hraw => by
    have hraw0 : (w.mem dblk)[dfirst + done]? = some .raw := by
      have := hraw 0 (by simp); simpa [IsRaw] using this
    have hs_nm : s.moving c = false := hnm s (by simp)
    show ((tryCatch (constructSrc c dblk (dfirst + done) s)
            (fun e => destroyRange c dblk dfirst done >>= fun _ => throwE e) >>= fun _ =>
            uninitGen c dblk dfirst (done + 1) rest) w).sat _ _
    have hstep := constructSrc_sat c dblk (dfirst + done) s w hraw0 (hlive s (by simp))
    -- the first construction, with its handler
    have hfirst : (tryCatch (constructSrc c dblk (dfirst + done) s)
            (fun e => destroyRange c dblk dfirst done >>= fun _ => throwE e) w).sat
          (fun _ w1 => WroteFrom c w w1 dblk (dfirst + done) s)
          (fun e w' => (e = .elem ∧ ∃ s' ∈ s :: rest, s'.ticks c = true) ∧ Ctl w w' ∧
            (∀ i, dfirst ≤ i → i < dfirst + done + (s :: rest).length → IsRaw w' dblk i) ∧
            (∀ b i, ¬ (b = dblk ∧ dfirst ≤ i ∧ i < dfirst + done + (s :: rest).length) → (w'.mem b)[i]? = (w.mem b)[i]?)) := by
      refine sat_tryCatch hstep ?_
      intro e w1 ⟨he, hm1, hc1⟩
      have hobj1 : ∀ i, dfirst ≤ i → i < dfirst + done → IsObj w1 dblk i := by
        intro i h1 h2
        have := hobj (i - dfirst) (by omega)
        rw [show dfirst + (i - dfirst) = i by omega] at this
        unfold IsObj; rw [hm1]; exact this
      refine sat_bind (destroyRange_sat c dblk done dfirst w1 hobj1) (fun _ w2 h2 => ?_) (fun _ _ h => h.elim)
      obtain ⟨hc2, hr2, hrest2⟩ := h2
      show (e = .elem ∧ _) ∧ _
      refine ⟨⟨he.1, s, by simp, he.2⟩, hc1.trans hc2, ?_, ?_⟩
      · intro i h1 h2
        by_cases hi : i < dfirst + done
        · exact hr2 i h1 hi
        · show (w2.mem dblk)[i]? = some .raw
          rw [hrest2 dblk i (by intro ⟨_, _, h⟩; omega), hm1]
          have := hraw (i - (dfirst + done)) (by simp at h2 ⊢; omega)
          rw [show dfirst + done + (i - (dfirst + done)) = i by omega] at this
          exact this
      · intro b i hn
        rw [hrest2 b i (by intro ⟨h1, h2, h3⟩; exact hn ⟨h1, h2, by simp; omega⟩), hm1]
    refine sat_bind hfirst (fun _ w1 hw => ?_) (fun e w' h => ?_)
    · -- continue with the rest
      have hloc_ne : ∀ b i, s.loc = some (b, i) → (b, i) ≠ (dblk, dfirst + done) := by
        intro b i hl h
        obtain ⟨v, hv⟩ := hlive s (by simp) b i hl
        injection h with h1 h2; subst h1; subst h2
        rw [hraw0] at hv; cases hv
      -- every slot except the target is unchanged (the source is not moving)
      have hsame : ∀ b i, (b, i) ≠ (dblk, dfirst + done) → (w1.mem b)[i]? = (w.mem b)[i]? := by
        intro b i hne
        by_cases hl : s.loc = some (b, i)
        · rw [hw.src b i hl hne, hs_nm]
          simp only [Bool.false_eq_true, if_false]
          obtain ⟨v, hv⟩ := hlive s (by simp) b i hl
          rw [hv]
          cases s with
          | ext a => simp [Src.loc] at hl
          | extMove a => simp [Src.loc] at hl
          | value a => simp [Src.loc] at hl
          | copyOf b' i' => simp [Src.loc] at hl; obtain ⟨h1, h2⟩ := hl; subst h1; subst h2; simp [srcVal, hv]
          | moveOf b' i' => simp [Src.loc] at hl; obtain ⟨h1, h2⟩ := hl; subst h1; subst h2; simp [srcVal, hv]
        · exact hw.rest b i hne hl
      have hnm' : NonMoving c rest := fun s' hs' => hnm s' (by simp [hs'])
      have hlive' : ∀ s' ∈ rest, SrcLive w1 s' := by
        intro s' hs' b i hl
        obtain ⟨v, hv⟩ := hlive s' (by simp [hs']) b i hl
        refine ⟨v, ?_⟩
        rw [hsame b i (by
          intro h; injection h with h1 h2; subst h1; subst h2
          rw [hraw0] at hv; cases hv)]
        exact hv
      have hobj' : ∀ j, j < done + 1 → IsObj w1 dblk (dfirst + j) := by
        intro j hj
        by_cases h : j = done
        · subst h; exact ⟨_, hw.dst⟩
        · obtain ⟨v, hv⟩ := hobj j (by omega)
          exact ⟨v, by rw [hsame dblk (dfirst + j) (by intro h; injection h with _ h; omega)]; exact hv⟩
      have hraw' : ∀ k, k < rest.length → IsRaw w1 dblk (dfirst + (done + 1) + k) := by
        intro k hk
        show (w1.mem dblk)[dfirst + (done + 1) + k]? = some .raw
        rw [hsame dblk _ (by intro h; injection h with _ h; omega)]
        have := hraw (k + 1) (by simp; omega)
        rw [show dfirst + done + (k + 1) = dfirst + (done + 1) + k by omega] at this
        exact this
      refine Res.sat_mono (uninitGen_nonmoving_sat c dblk dfirst rest (done + 1) w1 hnm' hlive' hobj' hraw') ?_ ?_
      · intro _ w2 ⟨hc2, hv2, hrest2⟩
        refine ⟨hw.ctl.trans hc2, ?_, ?_⟩
        · intro k hk
          cases k with
          | zero =>
            simp only [Nat.add_zero, List.getElem_cons_zero]
            rw [hrest2 dblk (dfirst + done) (by intro ⟨_, h, _⟩; omega)]
            exact hw.dst
          | succ k =>
            have hk' : k < rest.length := by simp at hk; omega
            have := hv2 k hk'
            rw [show dfirst + (done + 1) + k = dfirst + done + (k + 1) by omega] at this
            rw [this]
            simp only [List.getElem_cons_succ]
            rw [srcVal_congr w w1 (rest[k]'hk') (fun b i hl => hsame b i (by
              intro h
              obtain ⟨v, hv⟩ := hlive (rest[k]'hk') (by simp) b i hl
              injection h with h1 h2; subst h1; subst h2
              rw [hraw0] at hv; cases hv))]
        · intro b i hn
          rw [hrest2 b i (by intro ⟨h1, h2, h3⟩; exact hn ⟨h1, by omega, by simp; omega⟩)]
          exact hsame b i (by intro h; injection h with h1 h2; exact hn ⟨h1, by omega, by simp; omega⟩)
      · intro e w2 ⟨he, hc2, hr2, hrest2⟩
        refine ⟨⟨he.1, by obtain ⟨s', hs', ht⟩ := he.2; exact ⟨s', by simp [hs'], ht⟩⟩, hw.ctl.trans hc2, ?_, ?_⟩
        · intro i h1 h2
          exact hr2 i h1 (by simp at h2; omega)
        · intro b i hn
          rw [hrest2 b i (by intro ⟨h1, h2, h3⟩; exact hn ⟨h1, h2, by simp; omega⟩)]
          exact hsame b i (by intro h; injection h with h1 h2; exact hn ⟨h1, by omega, by simp; omega⟩)
    · exact h

/-! ### source lists over a block range -/
theorem srcsMove_succ (b i n : Nat) : (srcsMove b i (n+1) : List (Src α)) = .moveOf b i :: srcsMove b (i+1) n := by
  unfold srcsMove
  rw [List.range_succ_eq_map, List.map_cons, List.map_map]
  congr 1
  apply List.map_congr_left
  intro k _
  simp only [Function.comp, Nat.succ_eq_add_one]
  congr 1; omega

theorem srcsCopy_succ (b i n : Nat) : (srcsCopy b i (n+1) : List (Src α)) = .copyOf b i :: srcsCopy b (i+1) n := by
  unfold srcsCopy
  rw [List.range_succ_eq_map, List.map_cons, List.map_map]
  congr 1
  apply List.map_congr_left
  intro k _
  simp only [Function.comp, Nat.succ_eq_add_one]
  congr 1; omega

@[simp] theorem srcsMove_length (b i n : Nat) : (srcsMove b i n : List (Src α)).length = n := by simp [srcsMove]
@[simp] theorem srcsCopy_length (b i n : Nat) : (srcsCopy b i n : List (Src α)).length = n := by simp [srcsCopy]
theorem srcsMove_get (b i n k : Nat) (h : k < (srcsMove b i n : List (Src α)).length) :
    (srcsMove b i n : List (Src α))[k] = .moveOf b (i + k) := by simp [srcsMove]
theorem srcsCopy_get (b i n k : Nat) (h : k < (srcsCopy b i n : List (Src α)).length) :
    (srcsCopy b i n : List (Src α))[k] = .copyOf b (i + k) := by simp [srcsCopy]
theorem mem_srcsMove {b i n : Nat} {s : Src α} (h : s ∈ (srcsMove b i n : List (Src α))) : ∃ k, k < n ∧ s = .moveOf b (i + k) := by
  simp only [srcsMove, List.mem_map, List.mem_range] at h
  obtain ⟨k, hk, rfl⟩ := h; exact ⟨k, hk, rfl⟩
theorem mem_srcsCopy {b i n : Nat} {s : Src α} (h : s ∈ (srcsCopy b i n : List (Src α))) : ∃ k, k < n ∧ s = .copyOf b (i + k) := by
  simp only [srcsCopy, List.mem_map, List.mem_range] at h
  obtain ⟨k, hk, rfl⟩ := h; exact ⟨k, hk, rfl⟩

/-- moving construction loop (the type really moves): targets receive the sources' objects, the sources become husks;
    on a throw the target range is raw again, the sources are still live objects, nothing else changed -/
theorem uninitGen_move_sat (c : Cfg) (hrm : c.realMove = true) (dblk dfirst b : Nat) : ∀ (n i done : Nat) (w : World α),
    (∀ k, k < n → IsObj w b (i + k)) →
    (∀ j, j < done → IsObj w dblk (dfirst + j)) →
    (∀ k, k < n → IsRaw w dblk (dfirst + done + k)) →
    (∀ k j, k < n → j < done → (b, i + k) ≠ (dblk, dfirst + j)) →
    (uninitGen c dblk dfirst done (srcsMove b i n) w).sat
      (fun _ w' => Ctl w w' ∧
        (∀ k, k < n → (w'.mem dblk)[dfirst + done + k]? = (w.mem b)[i + k]?) ∧
        (∀ k, k < n → (w'.mem b)[i + k]? = some (.obj .husk)) ∧
        (∀ b' i', ¬ (b' = dblk ∧ dfirst + done ≤ i' ∧ i' < dfirst + done + n) → ¬ (b' = b ∧ i ≤ i' ∧ i' < i + n) →
            (w'.mem b')[i']? = (w.mem b')[i']?))
      (fun e w' => (e = .elem ∧ c.tMove = true) ∧ Ctl w w' ∧
        (∀ i', dfirst ≤ i' → i' < dfirst + done + n → IsRaw w' dblk i') ∧
        (∀ k, k < n → IsObj w' b (i + k)) ∧
        (∀ b' i', ¬ (b' = dblk ∧ dfirst ≤ i' ∧ i' < dfirst + done + n) → ¬ (b' = b ∧ i ≤ i' ∧ i' < i + n) →
            (w'.mem b')[i']? = (w.mem b')[i']?))
  | 0, i, done, w, _, _, _, _ => by
    show Ctl w w ∧ _
    exact ⟨Ctl.refl w, fun k h => by omega, fun k h => by omega, fun _ _ _ _ => rfl⟩
  | n+1, i, done, w, hsrc, hobj, hraw, hdisj => by
    rw [srcsMove_succ]
    have hraw0 : (w.mem dblk)[dfirst + done]? = some .raw := by
      have := hraw 0 (by omega); simpa [IsRaw] using this
    obtain ⟨v0, hv0⟩ : IsObj w b i := by have := hsrc 0 (by omega); simpa using this
    have hne0 : (b, i) ≠ (dblk, dfirst + done) := by
      intro h; injection h with h1 h2; subst h1; subst h2; rw [hraw0] at hv0; cases hv0
    show ((tryCatch (constructSrc c dblk (dfirst + done) (.moveOf b i))
            (fun e => destroyRange c dblk dfirst done >>= fun _ => throwE e) >>= fun _ =>
            uninitGen c dblk dfirst (done + 1) (srcsMove b (i+1) n)) w).sat _ _
    have hstep := constructSrc_sat c dblk (dfirst + done) (.moveOf b i) w hraw0
      (by intro b' i' hl; simp [Src.loc] at hl; obtain ⟨h1, h2⟩ := hl; subst h1; subst h2; exact ⟨v0, hv0⟩)
    have hfirst : (tryCatch (constructSrc c dblk (dfirst + done) (.moveOf b i))
            (fun e => destroyRange c dblk dfirst done >>= fun _ => throwE e) w).sat
          (fun _ w1 => WroteFrom c w w1 dblk (dfirst + done) (.moveOf b i))
          (fun e w' => (e = .elem ∧ c.tMove = true) ∧ Ctl w w' ∧
            (∀ i', dfirst ≤ i' → i' < dfirst + done + (n+1) → IsRaw w' dblk i') ∧
            (∀ k, k < n+1 → IsObj w' b (i + k)) ∧
            (∀ b' i', ¬ (b' = dblk ∧ dfirst ≤ i' ∧ i' < dfirst + done + (n+1)) → ¬ (b' = b ∧ i ≤ i' ∧ i' < i + (n+1)) →
              (w'.mem b')[i']? = (w.mem b')[i']?)) := by
      refine sat_tryCatch hstep ?_
      intro e w1 ⟨he, hm1, hc1⟩
      have hobj1 : ∀ i', dfirst ≤ i' → i' < dfirst + done → IsObj w1 dblk i' := by
        intro i' h1 h2
        have := hobj (i' - dfirst) (by omega)
        rw [show dfirst + (i' - dfirst) = i' by omega] at this
        unfold IsObj; rw [hm1]; exact this
      refine sat_bind (destroyRange_sat c dblk done dfirst w1 hobj1) (fun _ w2 h2 => ?_) (fun _ _ h => h.elim)
      obtain ⟨hc2, hr2, hrest2⟩ := h2
      show (e = .elem ∧ _) ∧ _
      refine ⟨he, hc1.trans hc2, ?_, ?_, ?_⟩
      · intro i' h1 h2
        by_cases hi : i' < dfirst + done
        · exact hr2 i' h1 hi
        · show (w2.mem dblk)[i']? = some .raw
          rw [hrest2 dblk i' (by intro ⟨_, _, h⟩; omega), hm1]
          have := hraw (i' - (dfirst + done)) (by omega)
          rw [show dfirst + done + (i' - (dfirst + done)) = i' by omega] at this
          exact this
      · intro k hk
        obtain ⟨v, hv⟩ := hsrc k hk
        refine ⟨v, ?_⟩
        rw [hrest2 b (i + k) (by
          intro ⟨h1, h2, h3⟩
          exact hdisj k (i + k - dfirst) hk (by omega) (by rw [h1]; congr 1; omega)), hm1]
        exact hv
      · intro b' i' hn _
        rw [hrest2 b' i' (by intro ⟨h1, h2, h3⟩; exact hn ⟨h1, h2, by omega⟩), hm1]
    refine sat_bind hfirst (fun _ w1 hw => ?_) (fun e w' h => h)
    -- after the first move
    have hsame : ∀ b' i', (b', i') ≠ (dblk, dfirst + done) → (b', i') ≠ (b, i) → (w1.mem b')[i']? = (w.mem b')[i']? := by
      intro b' i' h1 h2
      exact hw.rest b' i' h1 (by simp only [Src.loc]; intro h; injection h with h; exact h2 h.symm)
    have hsrc0 : (w1.mem b)[i]? = some (.obj .husk) := by
      have := hw.src b i rfl hne0
      simpa [Src.moving, hrm] using this
    have hdst0 : (w1.mem dblk)[dfirst + done]? = (w.mem b)[i]? := by
      rw [hw.dst, hv0]; simp [srcVal, hv0]
    have hsrc' : ∀ k, k < n → IsObj w1 b (i + 1 + k) := by
      intro k hk
      obtain ⟨v, hv⟩ := hsrc (k + 1) (by omega)
      refine ⟨v, ?_⟩
      rw [hsame b (i + 1 + k) (by
        intro h; injection h with h1 h2; subst h1
        rw [show i + (k + 1) = i + 1 + k by omega, h2, hraw0] at hv; cases hv) (by intro h; injection h with _ h; omega)]
      rw [show i + 1 + k = i + (k + 1) by omega]; exact hv
    have hobj' : ∀ j, j < done + 1 → IsObj w1 dblk (dfirst + j) := by
      intro j hj
      by_cases h : j = done
      · subst h; exact ⟨_, hw.dst⟩
      · obtain ⟨v, hv⟩ := hobj j (by omega)
        refine ⟨v, ?_⟩
        rw [hsame dblk (dfirst + j) (by intro h; injection h with _ h; omega)
          (by intro h; exact hdisj 0 j (by omega) (by omega) (by simpa using h.symm))]
        exact hv
    have hraw' : ∀ k, k < n → IsRaw w1 dblk (dfirst + (done + 1) + k) := by
      intro k hk
      have hr := hraw (k + 1) (by omega)
      rw [show dfirst + done + (k + 1) = dfirst + (done + 1) + k by omega] at hr
      show (w1.mem dblk)[dfirst + (done + 1) + k]? = some .raw
      rw [hsame dblk _ (by intro h; injection h with _ h; omega) (by
        intro h; injection h with h1 h2; subst h1
        rw [h2, IsRaw, hv0] at hr; cases hr)]
      exact hr
    have hdisj' : ∀ k j, k < n → j < done + 1 → (b, i + 1 + k) ≠ (dblk, dfirst + j) := by
      intro k j hk hj h
      by_cases hjd : j = done
      · subst hjd
        injection h with h1 h2; subst h1
        obtain ⟨v, hv⟩ := hsrc (k + 1) (by omega)
        rw [show i + (k + 1) = i + 1 + k by omega, h2, hraw0] at hv; cases hv
      · exact hdisj (k + 1) j (by omega) (by omega) (by rw [show i + (k + 1) = i + 1 + k by omega]; exact h)
    refine Res.sat_mono (uninitGen_move_sat c hrm dblk dfirst b n (i + 1) (done + 1) w1 hsrc' hobj' hraw' hdisj') ?_ ?_
    · intro _ w2 ⟨hc2, hv2, hh2, hrest2⟩
      refine ⟨hw.ctl.trans hc2, ?_, ?_, ?_⟩
      · intro k hk
        cases k with
        | zero =>
          simp only [Nat.add_zero]
          rw [hrest2 dblk (dfirst + done) (by intro ⟨_, h, _⟩; omega) (by
            intro ⟨h1, h2, h3⟩
            obtain ⟨v, hv⟩ := hsrc (dfirst + done - i) (by omega)
            rw [show i + (dfirst + done - i) = dfirst + done by omega, ← h1, hraw0] at hv; cases hv)]
          exact hdst0
        | succ k =>
          have := hv2 k (by omega)
          rw [show dfirst + (done + 1) + k = dfirst + done + (k + 1) by omega, show i + 1 + k = i + (k + 1) by omega] at this
          rw [this]
          exact hsame b (i + (k + 1)) (by
            intro h; injection h with h1 h2; subst h1
            obtain ⟨v, hv⟩ := hsrc (k + 1) (by omega)
            rw [h2, hraw0] at hv; cases hv) (by intro h; injection h with _ h; omega)
      · intro k hk
        cases k with
        | zero =>
          simp only [Nat.add_zero]
          rw [hrest2 b i (by
            intro ⟨h1, h2, h3⟩
            have hr := hraw (i - (dfirst + done)) (by omega)
            rw [show dfirst + done + (i - (dfirst + done)) = i by omega, ← h1, IsRaw, hv0] at hr; cases hr)
            (by intro ⟨_, h, _⟩; omega)]
          exact hsrc0
        | succ k =>
          have := hh2 k (by omega)
          rw [show i + 1 + k = i + (k + 1) by omega] at this
          exact this
      · intro b' i' hn1 hn2
        rw [hrest2 b' i' (by intro ⟨h1, h2, h3⟩; exact hn1 ⟨h1, by omega, by omega⟩)
          (by intro ⟨h1, h2, h3⟩; exact hn2 ⟨h1, by omega, by omega⟩)]
        exact hsame b' i' (by intro h; injection h with h1 h2; exact hn1 ⟨h1, by omega, by omega⟩)
          (by intro h; injection h with h1 h2; exact hn2 ⟨h1, by omega, by omega⟩)
    · intro e w2 ⟨he, hc2, hr2, ho2, hrest2⟩
      refine ⟨he, hw.ctl.trans hc2, ?_, ?_, ?_⟩
      · intro i' h1 h2; exact hr2 i' h1 (by omega)
      · intro k hk
        cases k with
        | zero =>
          simp only [Nat.add_zero]
          refine ⟨.husk, ?_⟩
          rw [hrest2 b i (by
            intro ⟨h1, h2, h3⟩
            by_cases hlt : i < dfirst + done
            · exact hdisj 0 (i - dfirst) (by omega) (by omega) (by rw [h1]; congr 1; omega)
            · have hr := hraw (i - (dfirst + done)) (by omega)
              rw [show dfirst + done + (i - (dfirst + done)) = i by omega, ← h1, IsRaw, hv0] at hr; cases hr)
              (by intro ⟨_, h, _⟩; omega)]
          exact hsrc0
        | succ k =>
          have := ho2 k (by omega)
          rw [show i + 1 + k = i + (k + 1) by omega] at this
          exact this
      · intro b' i' hn1 hn2
        rw [hrest2 b' i' (by intro ⟨h1, h2, h3⟩; exact hn1 ⟨h1, h2, by omega⟩)
          (by intro ⟨h1, h2, h3⟩; exact hn2 ⟨h1, by omega, by omega⟩)]
        exact hsame b' i' (by intro h; injection h with h1 h2; exact hn1 ⟨h1, by omega, by omega⟩)
          (by intro h; injection h with h1 h2; exact hn2 ⟨h1, by omega, by omega⟩)

/-! ### relocation: uninitialized_move<Policy> -/
open Gen in
/-- does `uninitialized_move<Policy>` leave its sources moved-from? -/
def movesFor (cfg : Cfg) (strong : Bool) : Bool := !(strong && !relocateWithMove cfg.policy) && cfg.realMove

theorem srcVal_copyOf (w : World α) (b i : Nat) (v : Val α) (h : (w.mem b)[i]? = some (.obj v)) :
    srcVal w (.copyOf b i) = v := by simp [srcVal, h]
theorem srcVal_moveOf (w : World α) (b i : Nat) (v : Val α) (h : (w.mem b)[i]? = some (.obj v)) :
    srcVal w (.moveOf b i) = v := by simp [srcVal, h]

/-- what a relocation of `n` elements from (sblk, sidx…) to raw (dblk, didx…) guarantees, in both outcomes -/
structure Relocated (cfg : Cfg) (strong : Bool) (w w' : World α) (sblk sidx n dblk didx : Nat) : Prop where
  ctl  : Ctl w w'
  dst  : ∀ k, k < n → (w'.mem dblk)[didx + k]? = (w.mem sblk)[sidx + k]?
  src  : ∀ k, k < n → IsObj w' sblk (sidx + k)
  kept : movesFor cfg strong = false → ∀ k, k < n → (w'.mem sblk)[sidx + k]? = (w.mem sblk)[sidx + k]?
  husk : movesFor cfg strong = true → ∀ k, k < n → (w'.mem sblk)[sidx + k]? = some (.obj .husk)
  rest : ∀ b i, ¬ (b = dblk ∧ didx ≤ i ∧ i < didx + n) → ¬ (b = sblk ∧ sidx ≤ i ∧ i < sidx + n) →
           (w'.mem b)[i]? = (w.mem b)[i]?

structure RelocFailed (cfg : Cfg) (strong : Bool) (w w' : World α) (sblk sidx n dblk didx : Nat) : Prop where
  can  : (if movesFor cfg strong then cfg.tMove else (cfg.tCopy || cfg.tMove)) = true   -- the relocation has a fault point at all
  ctl  : Ctl w w'
  dst  : ∀ k, k < n → IsRaw w' dblk (didx + k)
  src  : ∀ k, k < n → IsObj w' sblk (sidx + k)
  kept : movesFor cfg strong = false → ∀ k, k < n → (w'.mem sblk)[sidx + k]? = (w.mem sblk)[sidx + k]?
  rest : ∀ b i, ¬ (b = dblk ∧ didx ≤ i ∧ i < didx + n) → ¬ (b = sblk ∧ sidx ≤ i ∧ i < sidx + n) →
           (w'.mem b)[i]? = (w.mem b)[i]?

theorem uninitializedMove_sat (cfg : Cfg) (strong : Bool) (sblk sidx n dblk didx : Nat) (w : World α)
    (hsrc : ∀ k, k < n → IsObj w sblk (sidx + k)) (hraw : ∀ k, k < n → IsRaw w dblk (didx + k)) :
    (uninitializedMove cfg strong sblk sidx n dblk didx w).sat
      (fun _ w' => Relocated cfg strong w w' sblk sidx n dblk didx)
      (fun e w' => e = .elem ∧ RelocFailed cfg strong w w' sblk sidx n dblk didx) := by
  have hdisj : ∀ k k', k < n → k' < n → (sblk, sidx + k) ≠ (dblk, didx + k') := by
    intro k k' hk hk' h
    injection h with h1 h2
    obtain ⟨v, hv⟩ := hsrc k hk
    have := hraw k' hk'
    rw [IsRaw, ← h1, ← h2, hv] at this; cases this
  have nonmoving_case : ∀ (srcs : List (Src α)), srcs.length = n → NonMoving cfg srcs →
      (∀ k (h : k < srcs.length), srcs[k].loc = some (sblk, sidx + k)) → movesFor cfg strong = false →
      (uninitGen cfg dblk didx 0 srcs w).sat
        (fun _ w' => Relocated cfg strong w w' sblk sidx n dblk didx)
        (fun e w' => e = .elem ∧ RelocFailed cfg strong w w' sblk sidx n dblk didx) := by
    intro srcs hlen hnm hloc hmf
    have hlive : ∀ s ∈ srcs, SrcLive w s := by
      intro s hs b i hl
      obtain ⟨k, hk, rfl⟩ := List.getElem_of_mem hs
      rw [hloc k hk] at hl; injection hl with hl; injection hl with h1 h2; subst h1; subst h2
      exact hsrc k (by omega)
    have hval : ∀ k (h : k < srcs.length), some (Slot.obj (srcVal w srcs[k])) = (w.mem sblk)[sidx + k]? := by
      intro k hk
      obtain ⟨v, hv⟩ := hsrc k (by omega)
      have hl := hloc k hk
      rw [hv]
      cases hs : srcs[k] with
      | ext a => rw [hs] at hl; simp [Src.loc] at hl
      | extMove a => rw [hs] at hl; simp [Src.loc] at hl
      | value a => rw [hs] at hl; simp [Src.loc] at hl
      | copyOf b i => rw [hs] at hl; simp [Src.loc] at hl; obtain ⟨h1, h2⟩ := hl; subst h1; subst h2; rw [srcVal_copyOf w _ _ v hv]
      | moveOf b i => rw [hs] at hl; simp [Src.loc] at hl; obtain ⟨h1, h2⟩ := hl; subst h1; subst h2; rw [srcVal_moveOf w _ _ v hv]
    refine Res.sat_mono (uninitGen_nonmoving_sat cfg dblk didx srcs 0 w hnm hlive (fun j h => by omega)
      (fun k hk => by simpa using hraw k (by omega))) ?_ ?_
    · intro _ w' ⟨hc, hv, hrest⟩
      have hkeep : ∀ k, k < n → (w'.mem sblk)[sidx + k]? = (w.mem sblk)[sidx + k]? := by
        intro k hk
        exact hrest sblk (sidx + k) (by
          intro ⟨h1, h2, h3⟩
          exact hdisj k (sidx + k - didx) hk (by omega) (by rw [h1]; congr 1; omega))
      refine ⟨hc, ?_, ?_, fun _ => hkeep, ?_, ?_⟩
      · intro k hk
        have := hv k (by omega)
        simp only [Nat.add_zero] at this
        rw [this]; exact hval k (by omega)
      · intro k hk
        obtain ⟨v, hv'⟩ := hsrc k hk
        exact ⟨v, by rw [hkeep k hk]; exact hv'⟩
      · intro h; rw [hmf] at h; cases h
      · intro b i h1 _
        exact hrest b i (by intro ⟨a, b', c'⟩; exact h1 ⟨a, by omega, by omega⟩)
    · intro e w' ⟨he, hc, hr, hrest⟩
      have hkeep : ∀ k, k < n → (w'.mem sblk)[sidx + k]? = (w.mem sblk)[sidx + k]? := by
        intro k hk
        exact hrest sblk (sidx + k) (by
          intro ⟨h1, h2, h3⟩
          exact hdisj k (sidx + k - didx) hk (by omega) (by rw [h1]; congr 1; omega))
      have hcan : (if movesFor cfg strong then cfg.tMove else (cfg.tCopy || cfg.tMove)) = true := by
        rw [hmf]; simp only [Bool.false_eq_true, if_false]
        obtain ⟨s', hs', ht⟩ := he.2
        obtain ⟨k, hk, rfl⟩ := List.getElem_of_mem hs'
        have hl := hloc k hk
        cases hs : srcs[k] with
        | ext a => rw [hs] at hl; simp [Src.loc] at hl
        | extMove a => rw [hs] at hl; simp [Src.loc] at hl
        | value a => rw [hs] at hl; simp [Src.loc] at hl
        | copyOf b i => rw [hs] at ht; simp only [Src.ticks] at ht; simp [ht]
        | moveOf b i => rw [hs] at ht; simp only [Src.ticks] at ht; simp [ht]
      refine ⟨he.1, hcan, hc, ?_, ?_, fun _ => hkeep, ?_⟩
      · intro k hk; exact hr (didx + k) (by omega) (by omega)
      · intro k hk
        obtain ⟨v, hv'⟩ := hsrc k hk
        exact ⟨v, by rw [hkeep k hk]; exact hv'⟩
      · intro b i h1 _
        exact hrest b i (by intro ⟨a, b', c'⟩; exact h1 ⟨a, by omega, by omega⟩)
  unfold uninitializedMove
  by_cases hcopy : (strong && !Gen.relocateWithMove cfg.policy) = true
  · rw [if_pos hcopy]
    have hmf : movesFor cfg strong = false := by unfold movesFor; rw [hcopy]; rfl
    refine nonmoving_case (srcsCopy sblk sidx n) (by simp) ?_ ?_ hmf
    · intro s hs; obtain ⟨k, _, rfl⟩ := mem_srcsCopy hs; rfl
    · intro k hk; rw [srcsCopy_get]; rfl
  · rw [if_neg hcopy]
    by_cases hrm : cfg.realMove = true
    · have hmf : movesFor cfg strong = true := by
        unfold movesFor; simp only [Bool.not_eq_true] at hcopy; rw [hcopy, hrm]; rfl
      refine Res.sat_mono (uninitGen_move_sat cfg hrm dblk didx sblk n sidx 0 w hsrc (fun j h => by omega)
        (fun k hk => by simpa using hraw k hk) (fun k j _ h => by omega)) ?_ ?_
      · intro _ w' ⟨hc, hv, hh, hrest⟩
        refine ⟨hc, fun k hk => by simpa using hv k hk, fun k hk => ⟨.husk, hh k hk⟩, ?_, fun _ => hh, ?_⟩
        · intro h; rw [hmf] at h; cases h
        · intro b i h1 h2
          exact hrest b i (by intro ⟨a, b', c'⟩; exact h1 ⟨a, by omega, by omega⟩) h2
      · intro e w' ⟨he, hc, hr, ho, hrest⟩
        refine ⟨he.1, by rw [hmf]; simpa using he.2, hc, fun k hk => hr (didx + k) (by omega) (by omega), ho, ?_, ?_⟩
        · intro h; rw [hmf] at h; cases h
        · intro b i h1 h2
          exact hrest b i (by intro ⟨a, b', c'⟩; exact h1 ⟨a, by omega, by omega⟩) h2
    · have hrm' : cfg.realMove = false := by simpa using hrm
      have hmf : movesFor cfg strong = false := by unfold movesFor; rw [hrm']; simp
      refine nonmoving_case (srcsMove sblk sidx n) (by simp) ?_ ?_ hmf
      · intro s hs; obtain ⟨k, _, rfl⟩ := mem_srcsMove hs; simp [Src.moving, hrm']
      · intro k hk; rw [srcsMove_get]; rfl

end SvModel
