/-
insert (pos, n, x) = insert_copies and insert (pos, first, last) over a multi-pass range = insert_range (forward
iterators) / insert_range_helper, assembled from the reallocating kernel (Insert.lean), the two in-place kernels
(InPlace.lean, InPlaceLarge.lean) and the append family for the end position.
-/
import SvModel.Proofs.InPlaceLarge
import SvModel.Proofs.InsertOps
import SvModel.Proofs.Assign

namespace SvModel
open Gen
variable {α : Type}

theorem take_nil_drop {β : Type} (xs : List β) (p : Nat) : xs.take p ++ [] ++ xs.drop p = xs := by simp

theorem AppendFail.insBasic {cfg : Cfg} {strong : Bool} {w w' : World α} {c : Nat} (h : AppendFail cfg strong w w' c) : InsBasic cfg w w' c :=
  ⟨h.2.1, by rw [h.2.2.1], by rw [h.2.2.1], h.2.2.2⟩

theorem Appended.inserted {cfg : Cfg} {w w' : World α} {c pos : Nat} {vals : List (Val α)} (ha : Appended cfg w w' c vals)
    (hend : pos = (w.hdr c).size) : Inserted cfg w w' c pos vals := by
  refine ⟨ha.basic, ?_, ha.size, ha.alloc⟩
  intro xs hx
  have := ha.holds xs hx
  rw [hend, ← hx.1]
  simpa using this

/-- insert_range_helper: pos ≠ end, at least one element -/
theorem insertRangeHelper_sat (cfg : Cfg) (c pos : Nat) (srcs : List (Src α)) (w : World α)
    (hv : VecOK cfg w c) (hl : Ledger w) (hNmax : (w.hdr c).N ≤ cfg.maxSize)
    (hpos : pos < (w.hdr c).size) (hne : 0 < srcs.length) (hext : External srcs) :
    (insertRangeHelper cfg c pos srcs w).sat
      (fun r w' => r = pos ∧ Inserted cfg w w' c pos (srcs.map (srcVal w)) ∧
          (srcs.length ≤ (w.hdr c).cap - (w.hdr c).size → InsKept w w' c))
      (fun _ w' => InsBasic cfg w w' c) := by
  unfold insertRangeHelper
  rw [bind_run, getV_run]
  simp only []
  have e0 : guard_insertRangeHelper_0 { genv cfg (w.hdr c) with pos := pos, numInsert := srcs.length, tailSize := (w.hdr c).size - pos } =
      decide ((w.hdr c).cap - (w.hdr c).size < srcs.length) := rfl
  have e1 : guard_insertRangeHelper_1 { genv cfg (w.hdr c) with pos := pos, numInsert := srcs.length, tailSize := (w.hdr c).size - pos } =
      decide (cfg.maxSize - (w.hdr c).size < srcs.length) := rfl
  have e2 : guard_insertRangeHelper_2 { genv cfg (w.hdr c) with pos := pos, numInsert := srcs.length, tailSize := (w.hdr c).size - pos } =
      decide ((w.hdr c).size - pos < srcs.length) := rfl
  rw [e0, e1, e2]
  have hcapmax : (w.hdr c).cap ≤ cfg.maxSize := by
    have := hv.cap_max; rw [Nat.max_eq_left hNmax] at this; exact this
  have hsle := hv.size_le
  have haa : ArgsOK cfg w c srcs :=
    ⟨hext.nonmoving, hext.live w, fun s hs b i hl' => by rw [hext s hs] at hl'; cases hl'⟩
  by_cases hgrow : (w.hdr c).cap - (w.hdr c).size < srcs.length
  · rw [if_pos (decide_eq_true hgrow)]
    by_cases hmx : cfg.maxSize - (w.hdr c).size < srcs.length
    · rw [if_pos (decide_eq_true hmx)]
      exact (Strong.refl (w := w) hl).insBasic hl hv
    · rw [if_neg (by simpa using hmx)]
      refine Res.sat_mono (insertRealloc_sat cfg c pos srcs w hv hl hNmax (by omega) (by omega) (by omega) haa) ?_ ?_
      · intro r w' ⟨hr, hi, _, _⟩
        exact ⟨hr, hi, fun h => by omega⟩
      · intro e w' ⟨hb, hh, hlv⟩
        exact ⟨hb, by rw [hh], by rw [hh], hlv⟩
  rw [if_neg (by simpa using hgrow)]
  have hcls := hv.data_cls hl
  by_cases hlarge : (w.hdr c).size - pos < srcs.length
  · ------------------------------------------------------------------ tail shorter than the range
    rw [if_pos (decide_eq_true hlarge)]
    have hlen : ∀ t : Nat, ((fun _ : Nat => srcs.take ((w.hdr c).size - pos)) t).length = (w.hdr c).size - pos := fun _ => by simp; omega
    have hrun := insertInPlaceLarge_sat cfg c pos (srcs.drop ((w.hdr c).size - pos)) none (fun _ => srcs.take ((w.hdr c).size - pos))
      ((srcs.take ((w.hdr c).size - pos)).map (srcVal w)) w hv hl hpos (by simp; omega)
      ⟨(hext.sub (fun s hs => List.mem_of_mem_drop hs)).nonmoving, (hext.sub (fun s hs => List.mem_of_mem_drop hs)).live w,
       fun s hs b i hl' => by rw [hext s (List.mem_of_mem_drop hs)] at hl'; cases hl'⟩
      (fun s h => by cases h) hlen (by simp; omega)
      (fun _ => (hext.sub (fun s hs => List.mem_of_mem_take hs)).nonmoving)
      (fun _ s hs b i hl' => by rw [hext s (List.mem_of_mem_take hs)] at hl'; cases hl')
      (fun _ wX _ => by
        apply List.map_congr_left
        intro s hs
        exact hext.srcVal w wX s (List.mem_of_mem_take hs))
    refine sat_bind hrun (fun _ w' ⟨hi, hk⟩ => ?_) (fun _ _ h => h.1.insBasic)
    show pos = pos ∧ _
    refine ⟨rfl, ?_, fun _ => hk⟩
    have : (srcs.take ((w.hdr c).size - pos)).map (srcVal w) ++ (srcs.drop ((w.hdr c).size - pos)).map (srcVal w) = srcs.map (srcVal w) := by
      rw [← List.map_append, List.take_append_drop]
    rw [this] at hi
    exact hi
  · ------------------------------------------------------------------ tail at least as long as the range
    rw [if_neg (by simpa using hlarge)]
    have hm0 := MidIns.start hv pos ((w.hdr c).size + srcs.length) (by omega)
    have hrun := insertInPlaceSmall_sat cfg c pos srcs w w pos hne (by omega) (Nat.le_refl _) rfl hm0
      hext.nonmoving (hext.live w) hcls (fun s hs b i hl' => by rw [hext s hs] at hl'; cases hl')
    refine sat_bind hrun (fun _ w' ⟨hm', hv', hs', hrest', _⟩ => ?_) ?_
    · show pos = pos ∧ _
      have hb' := hm'.basic hv hl (Nat.le_refl _) (by omega) (by omega)
      have hhc' := hm'.hdr_c
      have hml : (srcs.map (srcVal w)).length = srcs.length := by simp
      refine ⟨rfl, ⟨hb', ?_, by rw [hhc', hml], by rw [hhc']⟩, fun _ => ⟨by rw [hhc'], by rw [hhc'], hm'.ctl0.live, hm'.ctl0.next⟩⟩
      intro xs hx
      refine holds_insert_of_slots (d := (w.hdr c).data) (n := (w.hdr c).size) hx rfl (by omega) (by rw [hhc', hml]) (by rw [hhc']) ?_ ?_ ?_
      · intro i hi
        exact hrest' _ i (by intro ⟨_, h, _⟩; omega)
      · intro k hk
        have hk' : k < srcs.length := by rw [hml] at hk; exact hk
        rw [hv' k hk']
        simp
      · intro i h1 h2
        rw [hml]; exact hs' i h1 h2
    · intro e w' ⟨n', hn', hm', _, _⟩
      exact (hm'.fail hv hl (by omega) (by omega) (by omega)).insBasic

/-- insert (pos, first, last), multi-pass range of outside values, non-empty -/
theorem insertRangeFwd_sat (cfg : Cfg) (c pos : Nat) (srcs : List (Src α)) (w : World α)
    (hv : VecOK cfg w c) (hl : Ledger w) (hNmax : (w.hdr c).N ≤ cfg.maxSize)
    (hpos : pos ≤ (w.hdr c).size) (hne : 0 < srcs.length) (hext : External srcs)
    (hstrong : movesFor cfg true = true → cfg.tMove = false) :
    (insertRangeFwd cfg c pos srcs w).sat
      (fun r w' => r = pos ∧ Inserted cfg w w' c pos (srcs.map (srcVal w)) ∧
          (srcs.length ≤ (w.hdr c).cap - (w.hdr c).size → InsKept w w' c))
      (fun _ w' => InsBasic cfg w w' c) := by
  unfold insertRangeFwd
  rw [bind_run, getV_run]
  simp only []
  have e0 : guard_insertRange1_0 { genv cfg (w.hdr c) with pos := pos, numInsert := srcs.length } = !decide (pos = (w.hdr c).size) := rfl
  have e1 : guard_insertRange1_1 { genv cfg (w.hdr c) with pos := pos, numInsert := srcs.length } = decide (srcs.length = 1) := rfl
  rw [e0, e1]
  have haa : ArgsOK cfg w c srcs :=
    ⟨hext.nonmoving, hext.live w, fun s hs b i hl' => by rw [hext s hs] at hl'; cases hl'⟩
  by_cases hend : pos = (w.hdr c).size
  · have hg : (!decide (pos = (w.hdr c).size)) = false := by simp [hend]
    rw [hg]
    simp only [Bool.false_eq_true, if_false]
    by_cases hone : srcs.length = 1
    · rw [if_pos (decide_eq_true hone)]
      match srcs, hone, hext, haa with
      | [s], _, hext, haa =>
        have ha : ArgOK cfg w c s := ⟨haa.nonmoving s (by simp), haa.live s (by simp), haa.inside s (by simp)⟩
        refine Res.sat_mono (appendElement_sat cfg c s w hv hl hNmax ha hstrong) ?_ ?_
        · intro r w' ⟨hr, hp⟩
          refine ⟨by rw [hr, hend], by simpa using hp.inserted hend, fun h => ?_⟩
          obtain ⟨i1, i2, i3, i4, _⟩ := hp.inplace (by simp at h; omega)
          exact ⟨i1, i2, i4, i3⟩
        · intro e w' hs
          exact hs.insBasic hl hv
    · rw [if_neg (by simpa using hone)]
      refine Res.sat_mono (appendRangeFwd_sat cfg c false srcs w hv hl hNmax (haa.srcs hv hl) (fun h => by cases h)) ?_ ?_
      · intro r w' ⟨hr, hap⟩
        refine ⟨by rw [hr, hend], hap.inserted hend, fun h => ?_⟩
        obtain ⟨i1, i2, i3, i4, _⟩ := hap.inplace (by simp; omega)
        exact ⟨i1, i2, i4, i3⟩
      · intro e w' hf
        exact hf.insBasic
  · have hg : (!decide (pos = (w.hdr c).size)) = true := by simp [hend]
    rw [hg]
    simp only [if_true]
    exact insertRangeHelper_sat cfg c pos srcs w hv hl hNmax (by omega) hne hext

/-- insert (pos, n, x): x may be an outside value or one of the container's own elements -/
theorem insertCopies_sat (cfg : Cfg) (c pos count : Nat) (s : Src α) (w : World α)
    (hv : VecOK cfg w c) (hl : Ledger w) (hNmax : (w.hdr c).N ≤ cfg.maxSize)
    (hpos : pos ≤ (w.hdr c).size) (ha : ArgOK cfg w c s)
    (hstrong : movesFor cfg true = true → cfg.tMove = false) :
    (insertCopies cfg c pos count s w).sat
      (fun r w' => r = pos ∧ Inserted cfg w w' c pos (List.replicate count (srcVal w s)) ∧
          (count ≤ (w.hdr c).cap - (w.hdr c).size → InsKept w w' c))
      (fun _ w' => InsBasic cfg w w' c) := by
  unfold insertCopies
  rw [bind_run, getV_run]
  simp only []
  have e0 : guard_insertCopies_0 { genv cfg (w.hdr c) with pos := pos, count := count, tailSize := (w.hdr c).size - pos } = decide (0 = count) := rfl
  have e1 : guard_insertCopies_1 { genv cfg (w.hdr c) with pos := pos, count := count, tailSize := (w.hdr c).size - pos } = decide (pos = (w.hdr c).size) := rfl
  have e2 : guard_insertCopies_2 { genv cfg (w.hdr c) with pos := pos, count := count, tailSize := (w.hdr c).size - pos } = decide (1 = count) := rfl
  have e3 : guard_insertCopies_3 { genv cfg (w.hdr c) with pos := pos, count := count, tailSize := (w.hdr c).size - pos } =
      decide ((w.hdr c).cap - (w.hdr c).size < count) := rfl
  have e4 : guard_insertCopies_4 { genv cfg (w.hdr c) with pos := pos, count := count, tailSize := (w.hdr c).size - pos } =
      decide (cfg.maxSize - (w.hdr c).size < count) := rfl
  have e5 : guard_insertCopies_5 { genv cfg (w.hdr c) with pos := pos, count := count, tailSize := (w.hdr c).size - pos } =
      decide ((w.hdr c).size - pos < count) := rfl
  rw [e0, e1, e2, e3, e4, e5]
  have hsle := hv.size_le
  have hcapmax : (w.hdr c).cap ≤ cfg.maxSize := by
    have := hv.cap_max; rw [Nat.max_eq_left hNmax] at this; exact this
  have hrep : ArgsOK cfg w c (List.replicate count s) :=
    ⟨fun s' hs' => by rw [List.eq_of_mem_replicate hs']; exact ha.nonmoving,
     fun s' hs' => by rw [List.eq_of_mem_replicate hs']; exact ha.live,
     fun s' hs' => by rw [List.eq_of_mem_replicate hs']; exact ha.inside⟩
  by_cases hz : 0 = count
  · rw [if_pos (decide_eq_true hz)]
    show pos = pos ∧ _
    subst hz
    refine ⟨rfl, ⟨(Strong.refl (w := w) hl).basic hl hv, fun xs hx => by simpa using hx, rfl, rfl⟩, fun _ => ⟨rfl, rfl, rfl, rfl⟩⟩
  rw [if_neg (by simpa using hz)]
  by_cases hend : pos = (w.hdr c).size
  · rw [if_pos (decide_eq_true hend)]
    by_cases hone : 1 = count
    · rw [if_pos (decide_eq_true hone)]
      subst hone
      refine Res.sat_mono (appendElement_sat cfg c s w hv hl hNmax ha hstrong) ?_ ?_
      · intro r w' ⟨hr, hp⟩
        refine ⟨by rw [hr, hend], by simpa using hp.inserted hend, fun h => ?_⟩
        obtain ⟨i1, i2, i3, i4, _⟩ := hp.inplace (by omega)
        exact ⟨i1, i2, i4, i3⟩
      · intro e w' hs
        exact hs.insBasic hl hv
    · rw [if_neg (by simpa using hone)]
      refine Res.sat_mono (appendCopies_sat cfg c count s w hv hl hNmax ha) ?_ ?_
      · intro r w' ⟨hr, hap⟩
        refine ⟨by rw [hr, hend], hap.inserted hend, fun h => ?_⟩
        obtain ⟨i1, i2, i3, i4, _⟩ := hap.inplace (by simp; omega)
        exact ⟨i1, i2, i4, i3⟩
      · intro e w' hf
        exact hf.insBasic
  rw [if_neg (by simpa using hend)]
  have hposlt : pos < (w.hdr c).size := by omega
  by_cases hgrow : (w.hdr c).cap - (w.hdr c).size < count
  · rw [if_pos (decide_eq_true hgrow)]
    by_cases hmx : cfg.maxSize - (w.hdr c).size < count
    · rw [if_pos (decide_eq_true hmx)]
      exact (Strong.refl (w := w) hl).insBasic hl hv
    · rw [if_neg (by simpa using hmx)]
      refine Res.sat_mono (insertRealloc_sat cfg c pos (List.replicate count s) w hv hl hNmax hpos (by simp; omega) (by simp; omega) hrep) ?_ ?_
      · intro r w' ⟨hr, hi, _, _⟩
        exact ⟨hr, by simpa using hi, fun h => by omega⟩
      · intro e w' ⟨hb, hh, hlv⟩
        exact ⟨hb, by rw [hh], by rw [hh], hlv⟩
  rw [if_neg (by simpa using hgrow)]
  have hcls := hv.data_cls hl
  by_cases hlarge : (w.hdr c).size - pos < count
  · ------------------------------------------------------------------ tail shorter than count
    rw [if_pos (decide_eq_true hlarge)]
    have hrun := insertInPlaceLarge_sat cfg c pos (List.replicate (count - ((w.hdr c).size - pos)) s) (some s)
      (fun t => List.replicate ((w.hdr c).size - pos) (.copyOf t 0)) (List.replicate ((w.hdr c).size - pos) (srcVal w s)) w hv hl hposlt
      (by simp; omega)
      ⟨fun s' hs' => by rw [List.eq_of_mem_replicate hs']; exact ha.nonmoving,
       fun s' hs' => by rw [List.eq_of_mem_replicate hs']; exact ha.live,
       fun s' hs' => by rw [List.eq_of_mem_replicate hs']; exact ha.inside⟩
      (fun s' h => by injection h with h; subst h; exact ha) (fun _ => by simp) (by simp)
      (fun t s' hs' => by rw [List.eq_of_mem_replicate hs']; rfl)
      (fun t s' hs' b i hl' => by
        rw [List.eq_of_mem_replicate hs'] at hl'
        simp [Src.loc] at hl'
        exact ⟨rfl, hl'.1.symm, hl'.2.symm⟩)
      (fun t wX htv => by
        simp only [List.map_replicate]
        rw [srcVal_copyOf wX t 0 _ (htv s rfl)])
    refine sat_bind hrun (fun _ w' ⟨hi, hk⟩ => ?_) (fun _ _ h => h.1.insBasic)
    show pos = pos ∧ _
    refine ⟨rfl, ?_, fun _ => hk⟩
    have : List.replicate ((w.hdr c).size - pos) (srcVal w s) ++ (List.replicate (count - ((w.hdr c).size - pos)) s).map (srcVal w) =
        List.replicate count (srcVal w s) := by
      rw [List.map_replicate, List.replicate_append_replicate]
      congr 1; omega
    rw [this] at hi
    exact hi
  · ------------------------------------------------------------------ tail at least count: stack temporary + shift + fill
    rw [if_neg (by simpa using hlarge)]
    generalize hn : (w.hdr c).size = n at *
    generalize hdd : (w.hdr c).data = d at *
    have htmp := hl.ntmp_ok
    have htd : w.ntmp ≠ d := by omega
    have htcls : ¬ (w.ntmp % 2 = 1 ∨ w.ntmp < 5) := by omega
    have hcpos : 0 < count := by omega
    rw [bind_run, allocTemp_run]
    simp only []
    generalize hw1 : ({ w with mem := upd w.mem w.ntmp [.raw], ntmp := w.ntmp + 2 } : World α) = w1
    have hmem1 : ∀ b, b ≠ w.ntmp → w1.mem b = w.mem b := fun b hb => by subst hw1; show upd w.mem _ _ b = _; rw [upd_other _ _ _ _ hb]
    have hh1 : w1.hdr = w.hdr := by subst hw1; rfl
    have hc01 : Ctl0 w w1 := by
      subst hw1
      refine ⟨rfl, rfl, rfl, rfl, ⟨by show w.ntmp ≤ w.ntmp + 2; omega, by show (w.ntmp + 2) % 2 = _; omega⟩, ?_⟩
      intro b hb
      show (upd w.mem w.ntmp [.raw] b).length = _
      rw [upd_other _ _ _ _ (by
        intro h; subst h
        rcases hb with h | h | h
        · omega
        · omega
        · have : w.ntmp + 2 ≤ w.ntmp := h
          omega)]
    have hm1 : MidIns w w1 c pos (n + count) n := by
      have := (MidIns.start hv pos (n + count) (by omega)).step_tmp hc01 hh1 (by rw [hdd]; exact hcls)
        (fun b i hb => by rw [hmem1 b (by intro h; subst h; exact htcls hb)])
      rw [hn] at this; exact this
    have hraw1 : (w1.mem w.ntmp)[0]? = some .raw := by subst hw1; show (upd w.mem w.ntmp [.raw] w.ntmp)[0]? = _; simp
    have hlive1 : SrcLive w1 s := by
      intro b i hl'
      obtain ⟨hb', _⟩ := ha.inside b i hl'
      obtain ⟨v, hv'⟩ := ha.live b i hl'
      exact ⟨v, by rw [hmem1 b (by rw [hb', hdd]; exact Ne.symm htd)]; exact hv'⟩
    have hsv1 : srcVal w1 s = srcVal w s :=
      srcVal_congr w w1 s (fun b i hl' => by rw [hmem1 b (by rw [(ha.inside b i hl').1, hdd]; exact Ne.symm htd)])
    refine sat_bind (constructSrc_sat cfg w.ntmp 0 s w1 hraw1 hlive1) (fun _ w2 hw2 => ?_) (fun e w2 hq => ?_)
    rotate_left
    · obtain ⟨_, hq⟩ := hq
      have hm2 : MidIns w w2 c pos (n + count) n := hm1.step_tmp hq.2.to0 hq.2.hdr (by rw [hdd]; exact hcls) (fun b i _ => by rw [hq.1])
      exact (hm2.fail hv hl (by omega) (by omega) (by omega)).insBasic
    have hsame2 := hw2.same_of_nonmoving ha.nonmoving hlive1
    have hm2 : MidIns w w2 c pos (n + count) n := hm1.step_tmp hw2.ctl.to0 hw2.ctl.hdr (by rw [hdd]; exact hcls)
      (fun b i hb => hsame2 b i (by intro h; injection h with h _; subst h; exact htcls hb))
    have htmp2 : (w2.mem w.ntmp)[0]? = some (.obj (srcVal w s)) := by rw [hw2.dst, hsv1]
    have hsz2 : (w2.hdr c).size = n := by rw [hm2.hdr_c]
    have hd2 : (w2.hdr c).data = d := by rw [hm2.hdr_c]; exact hdd
    have hdata2 : ∀ i : Nat, (w2.mem d)[i]? = (w.mem d)[i]? := fun i => by
      rw [hsame2 d i (by intro h; injection h with h _; exact htd h.symm), hmem1 d (Ne.symm htd)]
    have hsrcs : (List.replicate count (Src.copyOf (α := α) w.ntmp 0)).length = count := by simp
    have hsm := insertInPlaceSmall_sat cfg c pos (List.replicate count (.copyOf w.ntmp 0)) w w2 pos (by simp; exact hcpos)
      (by rw [hsz2, hsrcs]; omega) (Nat.le_refl _) (by rw [hd2, hdd]) (by rw [hsz2, hsrcs]; exact hm2)
      (fun s' hs' => by rw [List.eq_of_mem_replicate hs']; rfl)
      (fun s' hs' b i hl' => by
        rw [List.eq_of_mem_replicate hs'] at hl'
        simp [Src.loc] at hl'
        rw [← hl'.1, ← hl'.2]; exact ⟨_, htmp2⟩)
      (by rw [hd2]; exact hcls)
      (fun s' hs' b i hl' => by
        rw [List.eq_of_mem_replicate hs'] at hl'
        simp [Src.loc] at hl'
        rw [← hl'.1]; exact htcls)
    simp only [hsz2, hd2, List.length_replicate] at hsm
    rw [bind_run]
    refine sat_bind (sat_finally (Q := fun _ w5 => MidIns w w5 c pos (n + count) (n + count) ∧
          (∀ j, j < count → (w5.mem d)[pos + j]? = some (.obj (srcVal w s))) ∧
          (∀ i, pos ≤ i → i < n → (w5.mem d)[i + count]? = (w.mem d)[i]?))
        (E := fun _ w5 => InsBasic cfg w w5 c)
        (Q1 := fun _ w4 => (MidIns w w4 c pos (n + count) (n + count) ∧
          (∀ j, j < count → (w4.mem d)[pos + j]? = some (.obj (srcVal w s))) ∧
          (∀ i, pos ≤ i → i < n → (w4.mem d)[i + count]? = (w.mem d)[i]?)) ∧ IsObj w4 w.ntmp 0)
        (E1 := fun _ w4 => (∃ n', (n' = n ∨ n' = n + count) ∧ MidIns w w4 c pos (n + count) n') ∧ IsObj w4 w.ntmp 0)
        (Res.sat_mono hsm ?_ ?_) ?_ ?_) ?_ (fun _ _ h => h)
    · intro _ w4 ⟨h1, h2, h3, h4, _⟩
      refine ⟨⟨h1, ?_, ?_⟩, ⟨_, by rw [h4 w.ntmp 0 (by intro ⟨h, _, _⟩; exact htd h)]; exact htmp2⟩⟩
      · intro j hj
        have := h2 j hj
        rw [this]
        simp only [List.getElem_replicate]
        rw [srcVal_copyOf w2 _ _ _ htmp2]
      · intro i a b
        rw [h3 i a b]; exact hdata2 i
    · intro _ w4 ⟨n', h1, h2, h3, _⟩
      exact ⟨⟨n', h1, h2⟩, h3 w.ntmp 0 htd ⟨_, htmp2⟩⟩
    · intro _ w4 ⟨⟨h1, h2, h3⟩, ht4⟩
      refine Res.sat_mono (destroyAt_sat cfg w.ntmp 0 w4 ht4) ?_ (fun _ _ h => h.elim)
      intro _ w5 ⟨hc5, _, hrest5⟩
      have hoth : ∀ i : Nat, (w5.mem d)[i]? = (w4.mem d)[i]? := fun i => hrest5 d i (by intro h; injection h with h _; exact htd h.symm)
      exact ⟨h1.step_tmp hc5.to0 hc5.hdr (by rw [hdd]; exact hcls) (fun b i hb => hrest5 b i (by intro h; injection h with h _; subst h; exact htcls hb)),
             fun j hj => by rw [hoth]; exact h2 j hj, fun i a b => by rw [hoth]; exact h3 i a b⟩
    · intro e w4 ⟨⟨n', h1, h2⟩, ht4⟩
      refine Res.sat_mono (destroyAt_sat cfg w.ntmp 0 w4 ht4) ?_ (fun _ _ h => h.elim)
      intro _ w5 ⟨hc5, _, hrest5⟩
      have hm5 := h2.step_tmp hc5.to0 hc5.hdr (by rw [hdd]; exact hcls) (fun b i hb => hrest5 b i (by intro h; injection h with h _; subst h; exact htcls hb))
      exact (hm5.fail hv hl (by omega) (by omega) (by omega)).insBasic
    · intro _ w5 ⟨hm5, hp5, hs5⟩
      show pos = pos ∧ _
      have hb5 := hm5.basic hv hl (Nat.le_refl _) (by omega) (by omega)
      have hhc5 := hm5.hdr_c
      refine ⟨rfl, ⟨hb5, ?_, by rw [hhc5]; simp [hn], by rw [hhc5]⟩, fun _ => ⟨by rw [hhc5], by rw [hhc5], hm5.ctl0.live, hm5.ctl0.next⟩⟩
      intro xs hx
      refine holds_insert_of_slots (d := d) (n := n) hx hn.symm hpos (by rw [hhc5]; simp) (by rw [hhc5]; exact hdd) ?_ ?_ ?_
      · intro i hi
        rw [hdd]
        exact hm5.rest d i (by intro ⟨_, h, _⟩; omega) hcls
      · intro k hk
        have hk' : k < count := by simpa using hk
        rw [hp5 k hk']
        simp
      · intro i h1 h2
        rw [hdd]
        simpa using hs5 i h1 h2

end SvModel
