/-
Element-wise move assignment (in-place paths) inside a system of containers.
-/
import SvModel.Proofs.MoveAssign
import SvModel.Proofs.CopyAssign

namespace SvModel
open Gen
variable {α : Type}

/-- changing the allocator field of a container that owns no block (or to an allocator equal to the one it has) keeps
    the system valid -/
theorem SysAll.setAlloc {cfg : Cfg} {w : World α} {U A : List Nat} {c : Nat} (hs : SysAll cfg w U A) (hc : c ∈ A) (a' : Nat)
    (hok : (w.hdr c).data = (w.hdr c).inl ∨ a' = (w.hdr c).alloc) :
    SysAll cfg ({ w with hdr := upd w.hdr c { w.hdr c with alloc := a' } } : World α) U A := by
  generalize hw' : ({ w with hdr := upd w.hdr c { w.hdr c with alloc := a' } } : World α) = w'
  have hhc : w'.hdr c = { w.hdr c with alloc := a' } := by subst hw'; simp
  have hhd : ∀ d, d ≠ c → w'.hdr d = w.hdr d := by intro d hd; subst hw'; show (upd w.hdr c _) d = _; rw [upd_other _ _ _ _ hd]
  have hmem : w'.mem = w.mem := by subst hw'; rfl
  have hq : w'.owner = w.owner ∧ w'.live = w.live ∧ w'.ub = w.ub := by subst hw'; exact ⟨rfl, rfl, rfl⟩
  have hl : Ledger w' := by
    subst hw'; exact ⟨hs.ok.led.next_ok, hs.ok.led.ntmp_ok, hs.ok.led.live_ok, hs.ok.led.nodup, hs.ok.led.freed, hs.ok.led.tmpfresh⟩
  have hvec : ∀ d ∈ A, VecOK cfg w' d := by
    intro d hd
    have hvd := hs.ok.vec d hd
    by_cases hdc : d = c
    · rw [hdc]
      have hvc := hs.ok.vec c hc
      refine ⟨?_, ?_, ?_, ?_, ?_, ?_, ?_, ?_, ?_, ?_⟩ <;> rw [hhc] <;> simp only []
      · exact hvc.size_le
      · exact hvc.cap_ge
      · exact hvc.cap_max
      · exact hvc.inl_iff
      · exact hvc.inl_lt
      · rw [hmem]; exact hvc.len
      · intro i hi; unfold IsObj; rw [hmem]; exact hvc.objs i hi
      · intro i h1 h2; unfold IsRaw; rw [hmem]; exact hvc.raws i h1 h2
      · intro hne
        rcases hok with h | h
        · exact absurd h hne
        · rw [hq.1, hq.2.1, h]; exact hvc.heap hne
      · intro hne
        obtain ⟨h1, h2⟩ := hvc.idle hne
        exact ⟨by rw [hmem]; exact h1, fun i hi => by unfold IsRaw; rw [hmem]; exact h2 i hi⟩
    · exact hvd.transfer (hhd d hdc) (by rw [hmem]) (fun i hi => by unfold IsObj; rw [hmem]; exact hvd.objs i hi)
        (fun i h1 h2 => by unfold IsRaw; rw [hmem]; exact hvd.raws i h1 h2) (fun hne => by rw [hq.1, hq.2.1]; exact hvd.heap hne)
        (fun hne => by obtain ⟨h1, h2⟩ := hvd.idle hne; exact ⟨by rw [hmem]; exact h1, fun i hi => by unfold IsRaw; rw [hmem]; exact h2 i hi⟩)
  have hN : ∀ d, (w'.hdr d).N = (w.hdr d).N ∧ (w'.hdr d).inl = (w.hdr d).inl ∧ (w'.hdr d).data = (w.hdr d).data := by
    intro d
    by_cases hdc : d = c
    · rw [hdc, hhc]; exact ⟨rfl, rfl, rfl⟩
    · rw [hhd d hdc]; exact ⟨rfl, rfl, rfl⟩
  refine ⟨hs.sub, ⟨hvec, fun d hd => by rw [(hN d).1]; exact hs.ok.nmax d hd, hl, by rw [hq.2.2]; exact hs.ok.ub, ?_, ?_⟩, ?_,
          fun d hd => by rw [(hN d).1]; exact hs.nmaxU d hd, ?_⟩
  · intro x hx y hy hxy
    have s := hs.ok.sep x hx y hy hxy
    exact ⟨by rw [(hN x).1, (hN x).2.1, (hN y).1, (hN y).2.1]; exact s.inl, by rw [(hN x).2.1, (hN x).2.2, (hN y).2.2]; exact s.data⟩
  · intro b hb
    rw [hq.2.1] at hb
    obtain ⟨d, hd, hdd⟩ := hs.ok.noleak b hb
    exact ⟨d, hd, by rw [(hN d).2.2]; exact hdd⟩
  · intro d hdU hdA
    have hud := hs.unborn d hdU hdA
    have hdc : d ≠ c := fun e => hdA (e ▸ hc)
    exact ⟨by rw [hhd d hdc]; exact hud.inl_lt, by rw [hhd d hdc, hmem]; exact hud.len, fun i hi => by rw [hhd d hdc] at hi ⊢; unfold IsRaw; rw [hmem]; exact hud.raws i hi⟩
  · intro x hx y hy hxy
    unfold InlSep
    rw [(hN x).1, (hN x).2.1, (hN y).1, (hN y).2.1]
    exact hs.inlsep x hx y hy hxy

/-- the source's buffer is not one of the destination's blocks -/
theorem SysOK.apart {cfg : Cfg} {w : World α} {A : List Nat} {c o : Nat} (hs : SysOK cfg w A) (hc : c ∈ A) (ho : o ∈ A) (hoc : o ≠ c)
    (hne0 : (w.hdr o).size ≠ 0) : (w.hdr o).data ≠ (w.hdr c).data ∧ (w.hdr o).data ≠ (w.hdr c).inl := by
  have hf := hs.foreign (cfg := cfg) hc ho hoc
  have hmem : (Src.copyOf (w.hdr o).data 0 : Src α) ∈ srcsCopy (w.hdr o).data 0 (w.hdr o).size := by
    simp only [srcsCopy, List.mem_map, List.mem_range]
    exact ⟨0, by omega, rfl⟩
  have := hf.apart _ hmem (w.hdr o).data 0 rfl
  exact ⟨this.1, this.2.1⟩

/-- ELEMENT-WISE MOVE ASSIGNMENT, in place, in a system: any model program of the shape
    `move_assign_in_place; set_size; set allocator` (the three non-stealing, non-reallocating paths have this shape) -/
theorem SysAll.moveAssignInPlace {cfg : Cfg} {w : World α} {U A : List Nat} {c o : Nat} (hs : SysAll cfg w U A)
    (hc : c ∈ A) (ho : o ∈ A) (hoc : o ≠ c) (hfit : (w.hdr o).size ≤ (w.hdr c).cap) (a' : Nat)
    (hok : (w.hdr c).data = (w.hdr c).inl ∨ a' = (w.hdr c).alloc) :
    ((SvModel.moveAssignInPlace cfg c (w.hdr c) (w.hdr o) (decide ((w.hdr c).size < (w.hdr o).size)) >>= fun _ =>
        setSize c (w.hdr o).size >>= fun _ => SvModel.setAlloc c a') w).sat
      (fun _ w' => SysAll cfg w' U A ∧ (∀ xs, Holds w o xs → Holds w' c xs) ∧ (∃ ys, Holds w' o ys) ∧ w'.hdr o = w.hdr o ∧
          (w'.hdr c).data = (w.hdr c).data ∧ (w'.hdr c).cap = (w.hdr c).cap ∧ w'.live = w.live ∧ w'.next = w.next ∧
          ∀ d ∈ A, d ≠ c → d ≠ o → ∀ xs, Holds w d xs → Holds w' d xs)
      (fun _ w' => SysAll cfg w' U A ∧ (∃ ys, Holds w' o ys) ∧ (∃ zs, Holds w' c zs) ∧ w'.live = w.live ∧
          ∀ d ∈ A, d ≠ c → d ≠ o → ∀ xs, Holds w d xs → Holds w' d xs) := by
  have hvc := hs.ok.vec c hc
  have hvo := hs.ok.vec o ho
  have hl := hs.ok.led
  have hco : c ≠ o := fun e => hoc e.symm
  by_cases hz : (w.hdr o).size = 0
  · -- nothing to move: the call is `clear ()` on the destination (destroy everything, size 0)
    have hprog : (SvModel.moveAssignInPlace cfg c (w.hdr c) (w.hdr o) (decide ((w.hdr c).size < (w.hdr o).size)) >>= fun _ => setSize c (w.hdr o).size) w
        = eraseAll cfg c w := by
      unfold SvModel.moveAssignInPlace eraseAll
      rw [hz]
      simp only [Nat.not_lt_zero, decide_false, Bool.false_eq_true, if_false, Nat.sub_zero]
      have hnil : (srcsMove (w.hdr o).data 0 0 : List (Src α)) = [] := by simp [srcsMove]
      rw [hnil]
      have hpure : (assignGen cfg (w.hdr c).data 0 ([] : List (Src α)) >>= fun _ => destroyRange cfg (w.hdr c).data 0 (w.hdr c).size)
          = destroyRange cfg (w.hdr c).data 0 (w.hdr c).size := by
        funext x; rfl
      rw [hpure, destroy_then_setSize]
      rw [bind_run (m := getV c), getV_run]
    rw [← bind_assoc_run, bind_run, hprog]
    have her := eraseAll_sat cfg c w hvc hl
    cases hr : eraseAll cfg c w with
    | thrown e w1 => rw [hr] at her; exact her.elim
    | ok u w1 =>
      rw [hr] at her
      simp only []
      have hs1 := hs.step hc her.basic
      have hsa : SvModel.setAlloc c a' w1 = .ok () { w1 with hdr := upd w1.hdr c { w1.hdr c with alloc := a' } } := rfl
      rw [hsa]
      have hok1 : (w1.hdr c).data = (w1.hdr c).inl ∨ a' = (w1.hdr c).alloc := by
        rw [her.data, her.alloc, her.basic.frame.hdr_inl]; exact hok
      have hs2 := hs1.setAlloc hc a' hok1
      generalize hw2 : ({ w1 with hdr := upd w1.hdr c { w1.hdr c with alloc := a' } } : World α) = w2 at hs2
      have hm2 : w2.mem = w1.mem := by subst hw2; rfl
      have hhd2 : ∀ d, d ≠ c → w2.hdr d = w1.hdr d := by intro d hd'; subst hw2; show (upd w1.hdr c _) d = _; rw [upd_other _ _ _ _ hd']
      have hhc2 : (w2.hdr c).data = (w1.hdr c).data ∧ (w2.hdr c).cap = (w1.hdr c).cap ∧ (w2.hdr c).size = (w1.hdr c).size := by
        subst hw2; simp
      have hoth : ∀ d ∈ A, d ≠ c → ∀ xs, Holds w d xs → Holds w2 d xs := by
        intro d hd' hdc xs hx
        have h1 := hs.ok.holds_other hc her.basic hd' hdc hx
        exact ⟨by rw [hhd2 d hdc]; exact h1.1, fun i hi' => by rw [hhd2 d hdc, hm2]; exact h1.2 i hi'⟩
      show SysAll cfg w2 U A ∧ _
      obtain ⟨yo, hyo⟩ := hvo.holds_exists
      refine ⟨hs2, ?_, ⟨yo, hoth o ho hoc yo hyo⟩, by rw [hhd2 o hoc, her.basic.frame.hdr_other o hoc], by rw [hhc2.1, her.data], by rw [hhc2.2.1, her.cap],
              by subst hw2; exact her.noalloc.2, by subst hw2; exact her.noalloc.1, fun d hd' hdc _ => hoth d hd' hdc⟩
      intro xs hx
      have hxl : xs = [] := List.eq_nil_of_length_eq_zero (by rw [hx.1, hz])
      obtain ⟨yc, hyc⟩ := hvc.holds_exists
      have h1 := her.holds yc hyc
      rw [hxl]
      exact ⟨by rw [hhc2.2.2]; exact h1.1, fun i hi' => by simp at hi'⟩
  obtain ⟨hd, hi⟩ := hs.ok.apart hc ho hoc hz
  have hsat := moveAssignInPlace_sat cfg c o w hvc hl hvo hfit hd hi
  rw [← bind_assoc_run]
  refine sat_bind hsat (fun _ w1 ⟨hb1, hb2, hhc1, hval1, hlv1, hn1⟩ => ?_) (fun e w1 ⟨hb1, hb2, hhc1, hlv1, hn1⟩ => ?_)
  · -- returned: now the allocator
    have hs_h := hs.step ho hb1
    have hs1 := hs_h.step hc hb2
    have hsa : SvModel.setAlloc c a' w1 = .ok () { w1 with hdr := upd w1.hdr c { w1.hdr c with alloc := a' } } := rfl
    rw [hsa]
    have hok1 : (w1.hdr c).data = (w1.hdr c).inl ∨ a' = (w1.hdr c).alloc := by rw [hhc1]; exact hok
    have hs2 := hs1.setAlloc hc a' hok1
    generalize hw2 : ({ w1 with hdr := upd w1.hdr c { w1.hdr c with alloc := a' } } : World α) = w2 at hs2
    have hm2 : w2.mem = w1.mem := by subst hw2; rfl
    have hhc2 : w2.hdr c = { w.hdr c with size := (w.hdr o).size, alloc := a' } := by subst hw2; simp [hhc1]
    have hhd2 : ∀ d, d ≠ c → w2.hdr d = w1.hdr d := by intro d hd'; subst hw2; show (upd w1.hdr c _) d = _; rw [upd_other _ _ _ _ hd']
    have hho1 : w1.hdr o = w.hdr o := by rw [hb2.frame.hdr_other o hoc]; rfl
    show SysAll cfg w2 U A ∧ _
    refine ⟨hs2, ?_, ?_, by rw [hhd2 o hoc, hho1], by rw [hhc2], by rw [hhc2], by subst hw2; exact hlv1, by subst hw2; exact hn1, ?_⟩
    · intro xs hx
      refine ⟨by rw [hhc2]; exact hx.1, fun i hi' => ?_⟩
      rw [hhc2, hm2]; simp only []
      rw [hval1 i (by rw [← hx.1]; exact hi'), hx.2 i hi']
    · obtain ⟨ys, hy⟩ := (hs1.ok.vec o ho).holds_exists
      exact ⟨ys, ⟨by rw [hhd2 o hoc]; exact hy.1, fun i hi' => by rw [hhd2 o hoc, hm2]; exact hy.2 i hi'⟩⟩
    · intro d hd' hdc hdo xs hx
      have h1 := hs.ok.holds_other ho hb1 hd' hdo hx
      have h2 := hs_h.ok.holds_other hc hb2 hd' hdc h1
      exact ⟨by rw [hhd2 d hdc]; exact h2.1, fun i hi' => by rw [hhd2 d hdc, hm2]; exact h2.2 i hi'⟩
  · -- threw
    have hs_h := hs.step ho hb1
    have hs1 := hs_h.step hc hb2
    refine ⟨hs1, (hs1.ok.vec o ho).holds_exists, (hs1.ok.vec c hc).holds_exists, hlv1, ?_⟩
    intro d hd' hdc hdo xs hx
    have h1 := hs.ok.holds_other ho hb1 hd' hdo hx
    exact hs_h.ok.holds_other hc hb2 hd' hdc h1

end SvModel
