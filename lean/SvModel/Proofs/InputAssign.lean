/-
`assign (first, last)` with single-pass (input) iterators (hpp:3543-3560): overwrite the existing elements while both
the range and the container last, then erase the rest of the container or append the rest of the range.
For every fault list: the contents are the range's values (as for a random-access range), `Basic` in both outcomes, and
the iterator protocol (C15): position p dereferenced once, then incremented once, in sequence order, nothing at or beyond
`last`; after a throw the events are a prefix ending with the dereference whose element failed.
-/
import SvModel.Proofs.InputRange
import SvModel.Proofs.AssignSpec
import SvModel.Proofs.Erase

namespace SvModel
open Gen
variable {α : Type}

theorem streamEvs_append (sid : Nat) : ∀ (a p b : Nat), streamEvs sid p a ++ streamEvs sid (p + a) b = streamEvs sid p (a + b)
  | 0, p, b => by simp [streamEvs]
  | a+1, p, b => by
    have := streamEvs_append sid a (p + 1) b
    rw [show p + 1 + a = p + (a + 1) by omega] at this
    rw [show a + 1 + b = (a + b) + 1 by omega]
    simp only [streamEvs, List.cons_append]
    rw [this]

/-- the overwrite loop: consumes `k = min (length, size - p)` positions -/
theorem assignInputLoop_sat (cfg : Cfg) (c sid : Nat) :
    ∀ (xs : List α) (p : Nat) (w : World α), VecOK cfg w c → Ledger w → p ≤ (w.hdr c).size →
    (assignInputLoop cfg c sid p xs w).sat
      (fun r w' => ∃ k, k ≤ xs.length ∧ r = (p + k, xs.drop k) ∧ (k < xs.length → p + k = (w.hdr c).size) ∧ p + k ≤ (w.hdr c).size ∧
          Touched w w' (fun b i => b = (w.hdr c).data ∧ p ≤ i ∧ i < p + k) ∧
          (∀ i, i < k → (w'.mem (w.hdr c).data)[p + i]? = (xs[i]?).map (fun v => Slot.obj (Val.val v))) ∧
          iterEvs w'.trace = iterEvs w.trace ++ streamEvs sid p k)
      (fun e w' => e = .elem ∧ ∃ k, k < xs.length ∧ p + k < (w.hdr c).size ∧
          Touched w w' (fun b i => b = (w.hdr c).data ∧ p ≤ i ∧ i < p + k + 1) ∧
          iterEvs w'.trace = iterEvs w.trace ++ streamEvs sid p k ++ [.deref sid (p + k)])
  | [], p, w, _, _, hp => by
    show ∃ k, _
    exact ⟨0, Nat.le_refl _, rfl, fun h => by simp at h, by omega, Touched.refl w _, fun i h => by omega, by simp [streamEvs]⟩
  | x :: xs, p, w, hv, hl, hp => by
    unfold assignInputLoop
    rw [bind_run, getV_run]
    simp only []
    by_cases hend : p = (w.hdr c).size
    · rw [if_pos hend]
      show ∃ k, _
      exact ⟨0, Nat.zero_le _, rfl, fun _ => hend, by omega, Touched.refl w _, fun i h => by omega, by simp [streamEvs]⟩
    rw [if_neg hend]
    have hlt : p < (w.hdr c).size := by omega
    rw [bind_run, emit_run]
    simp only []
    generalize hw1 : ({ w with trace := w.trace ++ [Ev.deref sid p] } : World α) = w1
    have hm1 : w1.mem = w.mem := by subst hw1; rfl
    have hq01 : Quiet w w1 := by subst hw1; exact ⟨rfl, rfl, rfl, rfl, rfl, rfl, rfl, fun _ => rfl⟩
    have htr1 : iterEvs w1.trace = iterEvs w.trace ++ [.deref sid p] := by subst hw1; simp [iterEvs, Ev.isIter]
    obtain ⟨u, hu⟩ := hv.objs p hlt
    have hu1 : (w1.mem (w.hdr c).data)[p]? = some (.obj u) := by rw [hm1]; exact hu
    have hasg := assignSrc_sat cfg (w.hdr c).data p (.ext x) w1 u hu1 (fun b i h => by simp [Src.loc] at h) (by simp [Src.loc])
    have hni := NoIter.assignSrc cfg (w.hdr c).data p (Src.ext x) (α := α) w1
    rw [bind_run]
    cases hr : assignSrc cfg (w.hdr c).data p (.ext x) w1 with
    | thrown e w2 =>
      rw [hr] at hasg hni
      simp only [Res.world] at hni
      obtain ⟨⟨he, _⟩, hq⟩ := hasg
      refine ⟨he, 0, by simp, by omega, Touched.of_quiet _ (hq01.trans hq), ?_⟩
      rw [hni, htr1]; simp [streamEvs]
    | ok r w2 =>
      rw [hr] at hasg hni
      simp only [Res.world] at hni
      simp only []
      rw [bind_run, emit_run]
      simp only []
      generalize hw3 : ({ w2 with trace := w2.trace ++ [Ev.incr sid p] } : World α) = w3
      have hm3 : w3.mem = w2.mem := by subst hw3; rfl
      have hq23 : Quiet w2 w3 := by subst hw3; exact ⟨rfl, rfl, rfl, rfl, rfl, rfl, rfl, fun _ => rfl⟩
      have htr3 : iterEvs w3.trace = iterEvs w.trace ++ [.deref sid p, .incr sid p] := by
        subst hw3; show iterEvs (w2.trace ++ [Ev.incr sid p]) = _
        rw [iterEvs_append, hni, htr1]; simp [iterEvs, Ev.isIter]
      have ht12 : Touched w1 w2 (fun b i => (b, i) = ((w.hdr c).data, p)) :=
        hasg.touched_nm rfl (fun b i h => by simp [Src.loc] at h)
      have ht03 : Touched w w3 (fun b i => b = (w.hdr c).data ∧ p ≤ i ∧ i < p + 1) :=
        ((Touched.of_quiet _ hq01).trans (ht12.mono (fun b i h => by injection h with h1 h2; exact ⟨h1, by omega, by omega⟩))).trans
          (Touched.of_quiet _ hq23)
      have hh3 : w3.hdr = w.hdr := ht03.ctl.hdr
      have hb03 := basic_of_touched cfg (c := c) hv hl ht03 (fun b i h => ⟨h.1, by omega⟩)
      have hdst3 : (w3.mem (w.hdr c).data)[p]? = some (.obj (.val x)) := by
        rw [hm3, hasg.dst]; simp [srcVal]
      have ih := assignInputLoop_sat cfg c sid xs (p + 1) w3 hb03.vec hb03.led (by rw [hh3]; omega)
      rw [hh3] at ih
      refine Res.sat_mono ih ?_ ?_
      · intro r' w' ⟨k, hk, hr', hfull, hle, ht, hvals, htr⟩
        refine ⟨k + 1, by simp; omega, ?_, ?_, by omega, ?_, ?_, ?_⟩
        · rw [hr']; simp [Nat.add_assoc, Nat.add_comm 1 k]
        · intro h; have := hfull (by simpa using h); omega
        · exact (ht03.mono (fun b i h => ⟨h.1, h.2.1, by omega⟩)).trans (ht.mono (fun b i h => ⟨h.1, by omega, by omega⟩))
        · intro i hi
          cases i with
          | zero =>
            simp only [Nat.add_zero, List.getElem?_cons_zero, Option.map_some]
            rw [ht.same _ p (by intro ⟨_, h, _⟩; omega)]; exact hdst3
          | succ i =>
            have := hvals i (by omega)
            rw [show p + 1 + i = p + (i + 1) by omega] at this
            rw [this]; simp
        · rw [htr, htr3]; simp [streamEvs]
      · intro e w' ⟨he, k, hk, hlt', ht, htr⟩
        refine ⟨he, k + 1, by simp; omega, by omega, ?_, ?_⟩
        · exact (ht03.mono (fun b i h => ⟨h.1, h.2.1, by omega⟩)).trans (ht.mono (fun b i h => ⟨h.1, by omega, by omega⟩))
        · rw [htr, htr3, show p + 1 + k = p + (k + 1) by omega]; simp [streamEvs]

theorem holds_of_get? {w : World α} {c : Nat} {zs : List (Val α)} (hlen : zs.length = (w.hdr c).size)
    (h : ∀ i, i < zs.length → (w.mem (w.hdr c).data)[i]? = (zs[i]?).map Slot.obj) : Holds w c zs := by
  refine ⟨hlen, fun i hi => ?_⟩
  rw [h i hi, List.getElem?_eq_getElem hi]; rfl

/-- ASSIGN from a single-pass range -/
theorem assignWithRangeInput_sat (cfg : Cfg) (c sid : Nat) (xs : List α) (w : World α)
    (hv : VecOK cfg w c) (hl : Ledger w) (hN : (w.hdr c).N ≤ cfg.maxSize)
    (hpol : movesFor cfg true = true → cfg.tMove = false) :
    (assignWithRangeInput cfg c sid xs w).sat
      (fun _ w' => Basic cfg w w' c ∧ (∀ ys, Holds w c ys → Holds w' c (xs.map Val.val)) ∧
                   iterEvs w'.trace = iterEvs w.trace ++ streamEvs sid 0 xs.length)
      (fun _ w' => Basic cfg w w' c ∧ ∃ k, k < xs.length ∧
                   iterEvs w'.trace = iterEvs w.trace ++ streamEvs sid 0 k ++ [.deref sid k]) := by
  unfold assignWithRangeInput
  have hloop := assignInputLoop_sat cfg c sid xs 0 w hv hl (Nat.zero_le _)
  refine sat_bind hloop (fun r w1 h1 => ?_) (fun e w1 h1 => ?_)
  · obtain ⟨k, hk, hr, hfull, hle, ht, hvals, htr⟩ := h1
    simp only [Nat.zero_add] at hr hfull hle hvals
    have hb1 := basic_of_touched cfg (c := c) hv hl ht (fun b i h => ⟨h.1, by omega⟩)
    have hh1 : w1.hdr = w.hdr := ht.ctl.hdr
    -- what the container holds after the overwrite loop
    have hholds1 : ∀ ys, Holds w c ys → Holds w1 c ((xs.take k).map Val.val ++ ys.drop k) := by
      intro ys hy
      have hkl : (List.map Val.val (List.take k xs)).length = k := by simp [List.length_take]; omega
      have hlen : ((xs.take k).map Val.val ++ ys.drop k).length = (w.hdr c).size := by
        rw [List.length_append, hkl, List.length_drop, hy.1]; omega
      refine holds_of_get? (by rw [hh1]; exact hlen) (fun i hi => ?_)
      rw [hh1]
      rw [hlen] at hi
      by_cases hik : i < k
      · rw [hvals i hik, List.getElem?_append_left (by rw [hkl]; exact hik), List.getElem?_map, List.getElem?_take_of_lt hik]
        cases xs[i]? <;> rfl
      · rw [ht.same _ i (by intro ⟨_, _, h⟩; omega)]
        have hiy : i < ys.length := by rw [hy.1]; exact hi
        rw [hy.2 i hiy, List.getElem?_append_right (by rw [hkl]; omega), hkl, List.getElem?_drop]
        rw [show k + (i - k) = i by omega, List.getElem?_eq_getElem hiy]; rfl
    rw [hr]
    simp only []
    have eg : guard_assignWithRange0_0 { numInsert := (xs.drop k).length } = decide ((xs.drop k).length = 0) := rfl
    rw [eg]
    have hkl : (List.map Val.val (List.take k xs)).length = k := by simp [List.length_take]; omega
    by_cases hrest : (xs.drop k).length = 0
    · -- the range is exhausted: erase the rest of the container
      rw [if_pos (decide_eq_true hrest)]
      have hkx : k = xs.length := by simp at hrest; omega
      have her := eraseToEnd_sat cfg c k w1 hb1.vec hb1.led (by rw [hh1]; exact hle)
      have hni := NoIter.eraseToEnd cfg c k (α := α) w1
      cases hre : eraseToEnd cfg c k w1 with
      | thrown e w' => rw [hre] at her; exact her.elim
      | ok u w' =>
        rw [hre] at her hni
        simp only [Res.world] at hni
        refine ⟨Basic.trans hl hv hb1 her.basic, fun ys hy => ?_, by rw [hni, htr, hkx]⟩
        have := her.holds _ (hholds1 ys hy)
        rw [List.take_append_of_le_length (by rw [hkl]; exact Nat.le_refl _), List.take_of_length_le (by rw [hkl]; exact Nat.le_refl _)] at this
        rw [hkx, List.take_length] at this
        exact this
    · -- the container is exhausted: append the rest of the range
      rw [if_neg (by simpa using hrest)]
      have hklt : k < xs.length := by simp at hrest; omega
      have hksz : k = (w.hdr c).size := hfull hklt
      have happ := appendRangeInputLoop_sat cfg c false (w1.hdr c).size sid hpol (xs.drop k) k w1 hb1.vec hb1.led
        (by rw [hh1]; exact hN) (Nat.le_refl _)
      unfold appendRangeInput
      rw [bind_run, bind_run, getV_run]
      simp only []
      rw [bind_run]
      cases hra : appendRangeInputLoop cfg c false (w1.hdr c).size sid k (xs.drop k) w1 with
      | ok u w' =>
        rw [hra] at happ
        obtain ⟨hb, hh, htr'⟩ := happ
        refine ⟨Basic.trans hl hv hb1 hb, fun ys hy => ?_, ?_⟩
        · have h1 := hholds1 ys hy
          have hdrop : ys.drop k = [] := List.drop_eq_nil_of_le (by rw [hy.1]; omega)
          rw [hdrop, List.append_nil] at h1
          have := hh _ h1
          rw [← List.map_append, List.take_append_drop] at this
          exact this
        · rw [htr', htr, List.append_assoc, List.length_drop]
          have := streamEvs_append sid k 0 (xs.length - k)
          simp only [Nat.zero_add] at this
          rw [this, show k + (xs.length - k) = xs.length by omega]
      | thrown e w' =>
        rw [hra] at happ
        obtain ⟨hb, hh⟩ := happ
        obtain ⟨ys, hy⟩ := hv.holds_exists
        obtain ⟨j, hj, _, htr'⟩ := hh _ (hholds1 ys hy)
        refine ⟨Basic.trans hl hv hb1 hb, k + j, by rw [List.length_drop] at hj; omega, ?_⟩
        rw [htr', htr]
        have := streamEvs_append sid k 0 j
        simp only [Nat.zero_add] at this
        rw [← this]; simp [List.append_assoc]
  · obtain ⟨_, k, hk, hlt, ht, htr⟩ := h1
    simp only [Nat.zero_add] at hlt ht htr
    exact ⟨basic_of_touched cfg (c := c) hv hl ht (fun b i h => ⟨h.1, by omega⟩), k, hk, htr⟩

end SvModel
