/-
Kernel lemma for the "heap → in-object buffer" transition (shrink_to_fit of few elements, move assignment of a short
source into a heap-allocated destination): the old heap block was released, the in-object buffer holds the new
contents, every other block is untouched.
-/
import SvModel.Proofs.Kernel

namespace SvModel
open Gen
variable {α : Type}

theorem toinline_ok (cfg : Cfg) {w w' : World α} {c n' : Nat} (a' : Nat) (hv : VecOK cfg w c) (hl : Ledger w)
    (hheap : (w.hdr c).N < (w.hdr c).cap) (hn : n' ≤ (w.hdr c).N)
    (hh : w'.hdr = upd w.hdr c { w.hdr c with data := (w.hdr c).inl, cap := (w.hdr c).N, size := n', alloc := a' })
    (hnext : w'.next = w.next) (hntmp : w'.ntmp = w.ntmp)
    (hlive : w'.live = w.live.erase (w.hdr c).data) (howner : w'.owner = w.owner)
    (hlen : ∀ b, b ≠ (w.hdr c).data → (w'.mem b).length = (w.mem b).length)
    (hobj : ∀ i, i < n' → IsObj w' (w.hdr c).inl i)
    (hraw : ∀ i, n' ≤ i → i < (w.hdr c).N → IsRaw w' (w.hdr c).inl i)
    (hold : w'.mem (w.hdr c).data = [])
    (hother : ∀ b, b ≠ (w.hdr c).data → b ≠ (w.hdr c).inl → w'.mem b = w.mem b) :
    VecOK cfg w' c ∧ Ledger w' ∧ Frame1 w w' c := by
  have hne : (w.hdr c).data ≠ (w.hdr c).inl := (hv.heap_iff).mp hheap
  obtain ⟨hilen, _⟩ := hv.idle hne
  have hhc : w'.hdr c = { w.hdr c with data := (w.hdr c).inl, cap := (w.hdr c).N, size := n', alloc := a' } := by rw [hh]; simp
  have hdata_odd := hv.data_odd hl hne
  have hinl_lt := hv.inl_lt
  refine ⟨?_, ?_, ?_⟩
  · exact
      { size_le := by rw [hhc]; exact hn
        cap_ge := by rw [hhc]; exact Nat.le_refl _
        cap_max := by rw [hhc]; exact Nat.le_max_right _ _
        inl_iff := by rw [hhc]; exact ⟨fun _ => rfl, fun _ => rfl⟩
        inl_lt := by rw [hhc]; exact hinl_lt
        len := by rw [hhc]; show (w'.mem (w.hdr c).inl).length = (w.hdr c).N; rw [hlen _ (Ne.symm hne)]; exact hilen
        objs := by rw [hhc]; exact hobj
        raws := by rw [hhc]; exact hraw
        heap := by rw [hhc]; intro h; exact absurd rfl h
        idle := by rw [hhc]; intro h; exact absurd rfl h }
  · refine ⟨by rw [hnext]; exact hl.next_ok, by rw [hntmp]; exact hl.ntmp_ok, ?_, ?_, ?_, ?_⟩
    · intro b hb
      rw [hlive] at hb
      rw [hnext]; exact hl.live_ok b (List.mem_of_mem_erase hb)
    · rw [hlive]; exact hl.nodup.erase _
    · intro b h1 h2 h3
      by_cases hbd : b = (w.hdr c).data
      · subst hbd; exact hold
      · have hbi : b ≠ (w.hdr c).inl := by omega
        rw [hother b hbd hbi]
        apply hl.freed b h1 h2
        intro hin; apply h3; rw [hlive]; exact (List.mem_erase_of_ne hbd).mpr hin
    · intro b h1 h2
      rw [hntmp] at h1
      have := hl.ntmp_ok
      have hbd : b ≠ (w.hdr c).data := by omega
      have hbi : b ≠ (w.hdr c).inl := by omega
      rw [hother b hbd hbi]
      exact hl.tmpfresh b h1 h2
  · refine ⟨fun d hd => by rw [hh, upd_other _ _ _ _ hd], by rw [hhc], by rw [hhc], fun b h1 h2 _ _ => hother b h1 h2,
            fun b _ => by rw [howner], by rw [hnext]; exact Nat.le_refl _, Or.inr (Or.inl (by rw [hhc])), ?_⟩
    refine ⟨fun b _ => ?_, fun b hb => ?_⟩
    · rw [hlive, hl.nodup.mem_erase_iff, hhc]; simp only []
      constructor
      · rintro ⟨h1, h2⟩; exact ⟨h2, fun h3 => absurd h3 h1⟩
      · rintro ⟨h1, h2⟩; exact ⟨fun h3 => hne ((h2 h3).symm ▸ h3 ▸ rfl), h1⟩
    · rw [hlive, hhc]; simp only []
      constructor
      · intro h; have := (hl.live_ok b (List.mem_of_mem_erase h)).2.2; omega
      · intro h; have := hl.next_ok; omega

end SvModel
