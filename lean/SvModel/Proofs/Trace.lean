/-
Trace reasoning for C15: the iterator events (`deref` / `incr`) of the event log.

`NoIter m` — the computation `m` adds no iterator event to the trace, in either outcome.  It is closed under the monad
combinators, holds for every primitive, and is established for the element-level operations by the `noiter` tactic.
-/
import SvModel.Ops
import SvModel.Proofs.Hoare

namespace SvModel
variable {α β γ : Type}

def Ev.isIter : Ev → Bool
  | .deref _ _ => true
  | .incr _ _ => true
  | _ => false

def iterEvs (t : List Ev) : List Ev := t.filter Ev.isIter

theorem iterEvs_append (a b : List Ev) : iterEvs (a ++ b) = iterEvs a ++ iterEvs b := by simp [iterEvs]

/-- `m` adds no iterator event, whether it returns or throws -/
def NoIter (m : M α β) : Prop := ∀ w, iterEvs (m w).world.trace = iterEvs w.trace

theorem NoIter.pure (b : β) : NoIter (pure b : M α β) := fun _ => rfl
theorem NoIter.throwE (e : Exc) : NoIter (throwE e : M α β) := fun _ => rfl

theorem NoIter.bind {m : M α β} {f : β → M α γ} (h1 : NoIter m) (h2 : ∀ b, NoIter (f b)) : NoIter (m >>= f) := by
  intro w
  have a := h1 w
  rw [bind_run]
  cases hm : m w with
  | ok b w' => rw [hm] at a; simp only [Res.world] at a; simp only []; rw [h2 b w', a]
  | thrown e w' => rw [hm] at a; exact a

theorem NoIter.tryCatch {m : M α β} {h : Exc → M α β} (h1 : NoIter m) (h2 : ∀ e, NoIter (h e)) : NoIter (tryCatch m h) := by
  intro w
  have a := h1 w
  rw [tryCatch_run]
  cases hm : m w with
  | ok b w' => rw [hm] at a; exact a
  | thrown e w' => rw [hm] at a; simp only [Res.world] at a; simp only []; rw [h2 e w', a]

theorem NoIter.finally {m : M α β} {fin : M α Unit} (h1 : NoIter m) (h2 : NoIter fin) : NoIter (finally_ m fin) := by
  intro w
  have a := h1 w
  rw [finally_run]
  cases hm : m w with
  | ok b w' =>
    rw [hm] at a; simp only [Res.world] at a
    have c := h2 w'
    simp only []
    cases hf : fin w' with
    | ok u w'' => rw [hf] at c; simp only [Res.world] at c ⊢; rw [c, a]
    | thrown e w'' => rw [hf] at c; simp only [Res.world] at c ⊢; rw [c, a]
  | thrown e w' =>
    rw [hm] at a; simp only [Res.world] at a
    have c := h2 w'
    simp only []
    cases hf : fin w' with
    | ok u w'' => rw [hf] at c; simp only [Res.world] at c ⊢; rw [c, a]
    | thrown e' w'' => rw [hf] at c; simp only [Res.world] at c ⊢; rw [c, a]

theorem NoIter.ite {c : Prop} [Decidable c] {m n : M α β} (h1 : NoIter m) (h2 : NoIter n) : NoIter (if c then m else n) := by
  split <;> assumption

/-- a state transformer that never throws and leaves the trace's iterator events alone -/
theorem NoIter.of_step {f : World α → Res (World α) β}
    (h : ∀ w, iterEvs (f w).world.trace = iterEvs w.trace) : NoIter f := h

theorem NoIter.tick (on : Bool) (e : Exc) : NoIter (tick on e : M α Unit) := by
  intro w; unfold SvModel.tick
  cases on
  · rfl
  · match w.faults with
    | [] => rfl
    | 0 :: _ => rfl
    | (_+1) :: _ => rfl

theorem NoIter.getV (c : Nat) : NoIter (getV c : M α Vec) := fun _ => rfl
theorem NoIter.modV (c : Nat) (f : Vec → Vec) : NoIter (modV c f : M α Unit) := fun _ => rfl
theorem NoIter.allocTemp : NoIter (allocTemp : M α Nat) := fun _ => rfl
theorem NoIter.readSlot (b i : Nat) : NoIter (readSlot b i : M α (Val α)) := by
  intro w; unfold SvModel.readSlot; split <;> rfl

theorem iterEvs_snoc (t : List Ev) (e : Ev) (h : e.isIter = false) : iterEvs (t ++ [e]) = iterEvs t := by
  simp [iterEvs, h]

theorem NoIter.putObj (c : Cfg) (b i : Nat) (v : Val α) (e : Ev) (he : e.isIter = false) : NoIter (putObj c b i v e : M α Unit) := by
  intro w; unfold SvModel.putObj
  split
  · simp only [Res.world]; split
    · rfl
    · exact iterEvs_snoc _ _ he
  · rfl
theorem NoIter.setObj (c : Cfg) (b i : Nat) (v : Val α) (e : Ev) (he : e.isIter = false) : NoIter (setObj c b i v e : M α Unit) := by
  intro w; unfold SvModel.setObj
  split
  · simp only [Res.world]; split
    · rfl
    · exact iterEvs_snoc _ _ he
  · rfl
theorem NoIter.huskSlot (c : Cfg) (b i : Nat) : NoIter (huskSlot c b i : M α Unit) := by
  intro w; unfold SvModel.huskSlot
  split
  · split <;> rfl
  · rfl
theorem NoIter.destroyAt (c : Cfg) (b i : Nat) : NoIter (destroyAt c b i : M α Unit) := by
  intro w; unfold SvModel.destroyAt
  split
  · simp only [Res.world]; split
    · rfl
    · exact iterEvs_snoc _ _ rfl
  · rfl
theorem NoIter.deallocate (a b n : Nat) : NoIter (deallocate a b n : M α Unit) := by
  intro w; unfold SvModel.deallocate
  split
  · exact iterEvs_snoc _ _ rfl
  · rfl
theorem NoIter.allocate (c : Cfg) (a n : Nat) : NoIter (allocate c a n : M α Nat) := by
  unfold SvModel.allocate
  refine NoIter.bind (NoIter.tick _ _) (fun _ => ?_)
  intro w; exact iterEvs_snoc _ _ rfl

theorem ev_ite_noiter (p : Bool) (a b : Ev) (ha : a.isIter = false) (hb : b.isIter = false) : (if p then a else b).isIter = false := by
  cases p <;> simp [ha, hb]

theorem NoIter.constructSrc (c : Cfg) (b i : Nat) (s : Src α) : NoIter (constructSrc c b i s) := by
  cases s <;> unfold SvModel.constructSrc
  · exact NoIter.bind (NoIter.tick _ _) (fun _ => NoIter.putObj _ _ _ _ _ rfl)
  · exact NoIter.bind (NoIter.tick _ _) (fun _ => NoIter.putObj _ _ _ _ _ (ev_ite_noiter _ _ _ rfl rfl))
  · exact NoIter.bind (NoIter.tick _ _) (fun _ => NoIter.bind (NoIter.readSlot _ _) (fun _ => NoIter.putObj _ _ _ _ _ rfl))
  · exact NoIter.bind (NoIter.tick _ _) (fun _ => NoIter.bind (NoIter.readSlot _ _) (fun _ =>
      NoIter.bind (NoIter.putObj _ _ _ _ _ (ev_ite_noiter _ _ _ rfl rfl)) (fun _ => NoIter.huskSlot _ _ _)))
  · exact NoIter.bind (NoIter.tick _ _) (fun _ => NoIter.putObj _ _ _ _ _ rfl)

theorem NoIter.assignSrc (c : Cfg) (b i : Nat) (s : Src α) : NoIter (assignSrc c b i s) := by
  cases s <;> unfold SvModel.assignSrc
  · exact NoIter.bind (NoIter.tick _ _) (fun _ => NoIter.setObj _ _ _ _ _ rfl)
  · exact NoIter.bind (NoIter.tick _ _) (fun _ => NoIter.setObj _ _ _ _ _ (ev_ite_noiter _ _ _ rfl rfl))
  · exact NoIter.bind (NoIter.tick _ _) (fun _ => NoIter.bind (NoIter.readSlot _ _) (fun _ => NoIter.setObj _ _ _ _ _ rfl))
  · exact NoIter.bind (NoIter.tick _ _) (fun _ => NoIter.bind (NoIter.readSlot _ _) (fun _ =>
      NoIter.bind (NoIter.setObj _ _ _ _ _ (ev_ite_noiter _ _ _ rfl rfl)) (fun _ => NoIter.huskSlot _ _ _)))
  · exact NoIter.bind (NoIter.tick _ _) (fun _ => NoIter.setObj _ _ _ _ _ rfl)

theorem NoIter.destroyRange (c : Cfg) (b : Nat) : ∀ (n first : Nat), NoIter (destroyRange c b first n : M α Unit)
  | 0, _ => NoIter.pure ()
  | n+1, first => NoIter.bind (NoIter.destroyAt _ _ _) (fun _ => NoIter.destroyRange c b n (first+1))

theorem NoIter.uninitGen (c : Cfg) (b d : Nat) : ∀ (srcs : List (Src α)) (done : Nat), NoIter (uninitGen c b d done srcs)
  | [], _ => NoIter.pure ()
  | s :: rest, done =>
    NoIter.bind (NoIter.tryCatch (NoIter.constructSrc _ _ _ s)
      (fun e => NoIter.bind (NoIter.destroyRange _ _ _ _) (fun _ => NoIter.throwE e)))
      (fun _ => NoIter.uninitGen c b d rest (done + 1))

theorem NoIter.assignGen (c : Cfg) (b : Nat) : ∀ (srcs : List (Src α)) (d : Nat), NoIter (assignGen c b d srcs)
  | [], _ => NoIter.pure ()
  | s :: rest, d => NoIter.bind (NoIter.assignSrc _ _ _ s) (fun _ => NoIter.assignGen c b rest (d + 1))

theorem NoIter.wipe (cfg : Cfg) (c : Nat) : NoIter (wipe cfg c : M α Unit) := by
  unfold SvModel.wipe
  exact NoIter.bind (NoIter.getV _) (fun v => NoIter.bind (NoIter.destroyRange _ _ _ _) (fun _ =>
    NoIter.ite (NoIter.deallocate _ _ _) (NoIter.pure ())))

theorem NoIter.resetData (cfg : Cfg) (c nb ncap n : Nat) : NoIter (resetData cfg c nb ncap n : M α Unit) := by
  unfold SvModel.resetData setData
  exact NoIter.bind (NoIter.wipe _ _) (fun _ => NoIter.modV _ _)

theorem NoIter.uninitializedMove (cfg : Cfg) (strong : Bool) (sb si n db di : Nat) :
    NoIter (uninitializedMove cfg strong sb si n db di : M α Unit) := by
  unfold SvModel.uninitializedMove
  exact NoIter.uninitGen _ _ _ _ _

theorem NoIter.emplaceIntoCurrentEnd (cfg : Cfg) (c : Nat) (s : Src α) : NoIter (emplaceIntoCurrentEnd cfg c s) := by
  unfold SvModel.emplaceIntoCurrentEnd setSize
  exact NoIter.bind (NoIter.getV _) (fun v => NoIter.bind (NoIter.constructSrc _ _ _ _) (fun _ =>
    NoIter.bind (NoIter.modV _ _) (fun _ => NoIter.pure _)))

theorem NoIter.emplaceIntoReallocationEnd (cfg : Cfg) (c : Nat) (s : Src α) : NoIter (emplaceIntoReallocationEnd cfg c s) := by
  unfold SvModel.emplaceIntoReallocationEnd emplaceReallocEndTry
  refine NoIter.bind (NoIter.getV _) (fun v => NoIter.ite (NoIter.throwE _) ?_)
  refine NoIter.bind (NoIter.allocate _ _ _) (fun nb => NoIter.bind ?_ (fun _ => NoIter.bind (NoIter.resetData _ _ _ _ _) (fun _ => NoIter.pure _)))
  exact NoIter.tryCatch
    (NoIter.bind (NoIter.constructSrc _ _ _ _) (fun _ =>
      NoIter.tryCatch (NoIter.uninitializedMove _ _ _ _ _ _ _) (fun e => NoIter.bind (NoIter.destroyAt _ _ _) (fun _ => NoIter.throwE e))))
    (fun e => NoIter.bind (NoIter.deallocate _ _ _) (fun _ => NoIter.throwE e))

theorem NoIter.appendElement (cfg : Cfg) (c : Nat) (s : Src α) : NoIter (appendElement cfg c s) := by
  unfold SvModel.appendElement
  exact NoIter.bind (NoIter.getV _) (fun v => NoIter.ite (NoIter.emplaceIntoCurrentEnd _ _ _) (NoIter.emplaceIntoReallocationEnd _ _ _))

theorem NoIter.moveLeft (cfg : Cfg) (b f n d : Nat) : NoIter (moveLeft cfg b f n d : M α Unit) := by
  unfold SvModel.moveLeft; exact NoIter.assignGen _ _ _ _

theorem NoIter.eraseToEnd (cfg : Cfg) (c pos : Nat) : NoIter (eraseToEnd cfg c pos : M α Unit) := by
  unfold SvModel.eraseToEnd setSize
  exact NoIter.bind (NoIter.getV _) (fun v => NoIter.ite (NoIter.bind (NoIter.modV _ _) (fun _ => NoIter.destroyRange _ _ _ _)) (NoIter.pure _))

theorem NoIter.eraseRange (cfg : Cfg) (c f l : Nat) : NoIter (eraseRange cfg c f l : M α Nat) := by
  unfold SvModel.eraseRange
  exact NoIter.bind (NoIter.getV _) (fun v => NoIter.ite
    (NoIter.bind (NoIter.moveLeft _ _ _ _ _) (fun _ => NoIter.bind (NoIter.eraseToEnd _ _ _) (fun _ => NoIter.pure _))) (NoIter.pure _))

end SvModel
