/-
Element-wise move construction inside a system of containers: the new container joins the system holding the values
the source held; the source keeps its size and buffer, its elements are alive but moved-from (C02: "being the source of
a move" leaves a valid container; C03: nothing is destroyed or leaked); a throwing move constructor or allocator leaves
the system as it was except that some of the source's elements are moved-from, and the new storage is unborn again.
-/
import SvModel.Proofs.MoveCtor
import SvModel.Proofs.SysInv

namespace SvModel
open Gen
variable {α : Type}

/-- the source container after its elements were relocated out of (or an attempt failed): valid, same header -/
theorem VecOK.of_srcAfter {cfg : Cfg} {w w' : World α} {o : Nat} {fin : Bool} (hvo : VecOK cfg w o) (hl : Ledger w)
    (hh : w'.hdr o = w.hdr o) (hs : SrcAfter cfg w w' (w.hdr o).data (w.hdr o).size fin)
    (hlive : (w.hdr o).data ≠ (w.hdr o).inl → (w.hdr o).data ∈ w'.live ∧ w'.owner (w.hdr o).data = (w.hdr o).alloc)
    (hinl : (w.hdr o).data ≠ (w.hdr o).inl → w'.mem (w.hdr o).inl = w.mem (w.hdr o).inl) : VecOK cfg w' o := by
  refine hvo.transfer hh hs.len hs.objs ?_ hlive ?_
  · intro i h1 h2
    exact isRaw_of_eq (hs.rest i h1) (hvo.raws i h1 h2)
  · intro hne
    obtain ⟨h1, h2⟩ := hvo.idle hne
    exact ⟨by rw [hinl hne]; exact h1, fun i hi => by unfold IsRaw; rw [hinl hne]; exact h2 i hi⟩

/-- construction of `c` by RELOCATION of `o`'s elements with an arbitrary allocator `a` (the element-wise paths of the plain
    and of the allocator-extended move constructor) -/
theorem SysAll.ctorFillMove {cfg : Cfg} {w : World α} {U A : List Nat} {c o : Nat} (hs : SysAll cfg w U A)
    (hcU : c ∈ U) (hcA : c ∉ A) (ho : o ∈ A) (a : Nat) :
    (SvModel.ctorFill cfg c a false (srcsMove (w.hdr o).data 0 (w.hdr o).size) w).sat
      (fun _ w' => SysAll cfg w' U (c :: A) ∧ (∀ xs, Holds w o xs → Holds w' c xs) ∧ (w'.hdr c).alloc = a ∧
                   w'.hdr o = w.hdr o ∧ (∃ ys, Holds w' o ys) ∧
                   ∀ d ∈ A, d ≠ o → w'.hdr d = w.hdr d ∧ w'.mem (w.hdr d).data = w.mem (w.hdr d).data)
      (fun _ w' => SysAll cfg w' U A ∧ w'.live = w.live ∧ w'.hdr o = w.hdr o ∧ (∃ ys, Holds w' o ys) ∧
                   ∀ d ∈ A, d ≠ o → w'.hdr d = w.hdr d ∧ w'.mem (w.hdr d).data = w.mem (w.hdr d).data) := by
  have hne : c ≠ o := fun e => hcA (e ▸ ho)
  have hoc : o ≠ c := fun e => hne e.symm
  have hvo := hs.ok.vec o ho
  have hl := hs.ok.led
  have hu := hs.unborn c hcU hcA
  have hn5 := hl.next_ok.2
  have hci5 := hu.inl_lt
  have hoi5 := hvo.inl_lt
  have hsz : (w.hdr o).size ≤ cfg.maxSize := Nat.le_trans hvo.size_le (hvo.cap_le_max (hs.ok.nmax o ho))
  -- the source buffer is not the new container's in-object buffer (unless there is nothing to move)
  by_cases hz : (w.hdr o).size = 0
  · -- empty source: plain construction of an empty container (relocation of nothing)
    have hfill := SysAll.ctorFill hs hcU hcA a false (srcsMove (w.hdr o).data 0 (w.hdr o).size)
      (fun _ => by simpa using hsz)
      (by rw [hz]; exact ⟨fun s h => by simp [srcsMove] at h, fun s h => by simp [srcsMove] at h, fun s h => by simp [srcsMove] at h⟩)
    refine Res.sat_mono hfill ?_ ?_
    · intro _ w' ⟨h1, h2, h3, h4⟩
      refine ⟨h1, ?_, h3, (h4 o ho).1, ⟨[], by rw [(h4 o ho).1, hz]; rfl, fun i hi => by simp at hi⟩, fun d hd _ => h4 d hd⟩
      intro xs hx
      have hxl : xs = [] := List.eq_nil_of_length_eq_zero (by rw [hx.1, hz])
      rw [hz] at h2
      simp only [srcsMove, List.range_zero, List.map_nil] at h2
      rw [hxl]; exact h2
    · intro _ w' ⟨h1, h2, h4⟩
      exact ⟨h1, h2, (h4 o ho).1, ⟨[], by rw [(h4 o ho).1, hz]; rfl, fun i hi => by simp at hi⟩, fun d hd _ => h4 d hd⟩
  have hbi : (w.hdr o).data ≠ (w.hdr c).inl := by
    by_cases hoh : (w.hdr o).data = (w.hdr o).inl
    · rw [hoh]
      rcases hs.inlsep o (hs.sub o ho) c hcU hoc with h | ⟨hN, _⟩
      · exact h
      · have hcap : (w.hdr o).cap = (w.hdr o).N := (hvo.inl_iff).mpr hoh
        have := hvo.size_le; omega
    · have := (hvo.data_odd hl hoh).1; omega
  have hrel := ctorReloc_sat cfg c a (w.hdr o).data (w.hdr o).size w hu hl hsz hvo.objs hbi (hvo.data_lt_next hl)
  -- facts shared by both outcomes
  have others : ∀ {w' : World α}, CFrameX w w' c (w.hdr o).data → (∀ b, b ∈ w.live → b ∈ w'.live) →
      ((w.hdr c).N = 0 → w'.mem (w.hdr c).inl = [] ∧ w.mem (w.hdr c).inl = []) →
      ∀ d ∈ A, d ≠ o → VecOK cfg w' d ∧ w'.hdr d = w.hdr d ∧ w'.mem (w.hdr d).data = w.mem (w.hdr d).data := by
    intro w' hf hlsub hnil d hd hdo
    have hdc : d ≠ c := fun e => hcA (e ▸ hd)
    have hvd := hs.ok.vec d hd
    have hh := hf.hdr_other d hdc
    have hdi5 := hvd.inl_lt
    have hsepdo := hs.ok.sep d hd o ho hdo
    have hsepod := hs.ok.sep o ho d hd (Ne.symm hdo)
    -- a block of d is not the source buffer
    have inl_ne : (w.hdr d).inl ≠ (w.hdr o).data ∨ w'.mem (w.hdr d).inl = w.mem (w.hdr d).inl := by
      by_cases hoh : (w.hdr o).data = (w.hdr o).inl
      · rcases hsepdo.inl with h | ⟨hN, hN2⟩
        · left; rw [hoh]; exact h
        · exfalso
          have hcap : (w.hdr o).cap = (w.hdr o).N := (hvo.inl_iff).mpr hoh
          have := hvo.size_le; omega
      · left; have := (hvo.data_odd hl hoh).1; omega
    have hinl : w'.mem (w.hdr d).inl = w.mem (w.hdr d).inl := by
      rcases inl_ne with h1 | h1
      · rcases hs.inlsep d (hs.sub d hd) c hcU hdc with h | ⟨hN1, hN2⟩
        · exact hf.mem_other _ h h1 (by omega)
        · by_cases hii : (w.hdr d).inl = (w.hdr c).inl
          · rw [hii, (hnil hN2).1, (hnil hN2).2]
          · exact hf.mem_other _ hii h1 (by omega)
      · exact h1
    have hdata : w'.mem (w.hdr d).data = w.mem (w.hdr d).data := by
      by_cases hdh : (w.hdr d).data = (w.hdr d).inl
      · rw [hdh]; exact hinl
      · have hodd := hvd.data_odd hl hdh
        refine hf.mem_other _ (by omega) ?_ hodd.2.2
        intro e
        by_cases hoh : (w.hdr o).data = (w.hdr o).inl
        · rw [hoh] at e; omega
        · exact hsepod.data hoh e.symm
    refine ⟨hvd.transfer hh (by rw [hdata]) (fun i hi => by unfold IsObj; rw [hdata]; exact hvd.objs i hi)
      (fun i h1 h2 => by unfold IsRaw; rw [hdata]; exact hvd.raws i h1 h2) ?_ ?_, hh, hdata⟩
    · intro hne
      obtain ⟨h1, h2⟩ := hvd.heap hne
      exact ⟨hlsub _ h1, by rw [hf.owner_old _ (hvd.data_odd hl hne).2.2]; exact h2⟩
    · intro hne
      obtain ⟨h1, h2⟩ := hvd.idle hne
      exact ⟨by rw [hinl]; exact h1, fun i hi => by unfold IsRaw; rw [hinl]; exact h2 i hi⟩
  have source : ∀ {w' : World α} {fin : Bool}, CFrameX w w' c (w.hdr o).data → SrcAfter cfg w w' (w.hdr o).data (w.hdr o).size fin →
      (∀ b, b ∈ w.live → b ∈ w'.live) → ((w.hdr c).N = 0 → w'.mem (w.hdr c).inl = [] ∧ w.mem (w.hdr c).inl = []) →
      VecOK cfg w' o ∧ w'.hdr o = w.hdr o := by
    intro w' fin hf hsa hlsub hnil
    have hh := hf.hdr_other o hoc
    refine ⟨hvo.of_srcAfter hl hh hsa ?_ ?_, hh⟩
    · intro hne
      obtain ⟨h1, h2⟩ := hvo.heap hne
      exact ⟨hlsub _ h1, by rw [hf.owner_old _ (hvo.data_odd hl hne).2.2]; exact h2⟩
    · intro hne
      rcases hs.inlsep o (hs.sub o ho) c hcU hoc with h | ⟨hN1, hN2⟩
      · exact hf.mem_other _ h (Ne.symm hne) (by omega)
      · by_cases hii : (w.hdr o).inl = (w.hdr c).inl
        · rw [hii, (hnil hN2).1, (hnil hN2).2]
        · exact hf.mem_other _ hii (Ne.symm hne) (by omega)
  have unborn_others : ∀ {w' : World α}, CFrameX w w' c (w.hdr o).data →
      ((w.hdr c).N = 0 → w'.mem (w.hdr c).inl = [] ∧ w.mem (w.hdr c).inl = []) →
      ∀ d ∈ U, d ∉ A → d ≠ c → Unborn w' d := by
    intro w' hf hnil d hdU hdA hdc
    have hud := hs.unborn d hdU hdA
    have hh := hf.hdr_other d hdc
    have hdo : d ≠ o := fun e => hdA (e ▸ ho)
    have hdi5 := hud.inl_lt
    have hm : w'.mem (w.hdr d).inl = w.mem (w.hdr d).inl := by
      have hnb : (w.hdr d).inl ≠ (w.hdr o).data ∨ (w.hdr d).N = 0 := by
        by_cases hoh : (w.hdr o).data = (w.hdr o).inl
        · rcases hs.inlsep d hdU o (hs.sub o ho) hdo with h | ⟨hN, _⟩
          · left; rw [hoh]; exact h
          · right; exact hN
        · left; have := (hvo.data_odd hl hoh).1; omega
      rcases hnb with h1 | hN0
      · rcases hs.inlsep d hdU c hcU hdc with h | ⟨hN1, hN2⟩
        · exact hf.mem_other _ h h1 (by omega)
        · by_cases hii : (w.hdr d).inl = (w.hdr c).inl
          · rw [hii, (hnil hN2).1, (hnil hN2).2]
          · exact hf.mem_other _ hii h1 (by omega)
      · -- zero-capacity storage is the empty null block; if it coincided with the source buffer the source would be empty
        by_cases h1 : (w.hdr d).inl = (w.hdr o).data
        · exfalso
          have e := hud.inl_nil hN0
          rw [h1] at e
          have hlen := hvo.len
          rw [e] at hlen
          have := hvo.size_le
          simp at hlen; omega
        · rcases hs.inlsep d hdU c hcU hdc with h | ⟨hN1, hN2⟩
          · exact hf.mem_other _ h h1 (by omega)
          · by_cases hii : (w.hdr d).inl = (w.hdr c).inl
            · rw [hii, (hnil hN2).1, (hnil hN2).2]
            · exact hf.mem_other _ hii h1 (by omega)
    exact ⟨by rw [hh]; exact hdi5, by rw [hh, hm]; exact hud.len, fun i hi => by rw [hh] at hi ⊢; unfold IsRaw; rw [hm]; exact hud.raws i hi⟩
  have hhdrN : ∀ {w' : World α}, CFrameX w w' c (w.hdr o).data → ∀ d, (w'.hdr d).N = (w.hdr d).N ∧ (w'.hdr d).inl = (w.hdr d).inl := by
    intro w' hf d
    by_cases hdc : d = c
    · rw [hdc]; exact ⟨hf.hdr_N, hf.hdr_inl⟩
    · rw [hf.hdr_other d hdc]; exact ⟨rfl, rfl⟩
  have holds_src : ∀ {w' : World α} {fin : Bool}, w'.hdr o = w.hdr o → SrcAfter cfg w w' (w.hdr o).data (w.hdr o).size fin → ∃ ys, Holds w' o ys := by
    intro w' fin hh hsa
    have hv' : ∀ i, i < (w'.hdr o).size → IsObj w' (w'.hdr o).data i := by rw [hh]; exact hsa.objs
    -- read the values off the slots
    refine ⟨(List.range (w'.hdr o).size).map (fun i => match (w'.mem (w'.hdr o).data)[i]? with | some (Slot.obj v) => v | _ => Val.husk), by simp, ?_⟩
    intro i hi
    have hi' : i < (w'.hdr o).size := by simpa using hi
    obtain ⟨v, hv⟩ := hv' i hi'
    simp [hv]
  refine Res.sat_mono hrel ?_ ?_
  · -- returned
    intro _ w' ⟨hvc, hl', hsize, hvals, halloc, hlive, hdata, hf, hsa⟩
    have hnil : (w.hdr c).N = 0 → w'.mem (w.hdr c).inl = [] ∧ w.mem (w.hdr c).inl = [] := by
      intro hN0
      have := hvc.inl_nil (by rw [hf.hdr_N]; exact hN0)
      rw [hf.hdr_inl] at this
      exact ⟨this, hu.inl_nil hN0⟩
    have hlsub : ∀ b, b ∈ w.live → b ∈ w'.live := by intro b hb; rw [hlive]; split <;> simp [hb]
    have hoth := others hf hlsub hnil
    obtain ⟨hvo', hho⟩ := source hf hsa hlsub hnil
    have hcdata : (w'.hdr c).data = w.next ∨ (w'.hdr c).data = (w'.hdr c).inl := by
      rw [hdata]; split
      · exact Or.inl rfl
      · exact Or.inr hf.hdr_inl.symm
    have hall : ∀ d ∈ A, VecOK cfg w' d ∧ w'.hdr d = w.hdr d := by
      intro d hd
      by_cases hdo : d = o
      · rw [hdo]; exact ⟨hvo', hho⟩
      · exact ⟨(hoth d hd hdo).1, (hoth d hd hdo).2.1⟩
    refine ⟨⟨?_, ⟨?_, ?_, hl', by rw [hf.ub]; exact hs.ok.ub, ?_, ?_⟩, ?_, fun d hd => by rw [(hhdrN hf d).1]; exact hs.nmaxU d hd, ?_⟩,
            ?_, halloc, hho, holds_src hho hsa, fun d hd hdo => (hoth d hd hdo).2⟩
    · intro d hd
      rcases List.mem_cons.mp hd with e | hd'
      · rw [e]; exact hcU
      · exact hs.sub d hd'
    · intro d hd
      rcases List.mem_cons.mp hd with e | hd'
      · rw [e]; exact hvc
      · exact (hall d hd').1
    · intro d hd
      rw [(hhdrN hf d).1]
      rcases List.mem_cons.mp hd with e | hd'
      · rw [e]; exact hs.nmaxU c hcU
      · exact hs.ok.nmax d hd'
    · -- separation
      have key : ∀ d ∈ A, Sep w' c d ∧ Sep w' d c := by
        intro d hd
        have hvd := hs.ok.vec d hd
        have hdlt := hvd.data_lt_next hl
        have hh := (hall d hd).2
        have hdc : d ≠ c := fun e => hcA (e ▸ hd)
        have isep := hs.inlsep c hcU d (hs.sub d hd) (Ne.symm hdc)
        have isep' := hs.inlsep d (hs.sub d hd) c hcU hdc
        have hdi5 := hvd.inl_lt
        refine ⟨⟨?_, ?_⟩, ⟨?_, ?_⟩⟩
        · rw [(hhdrN hf c).1, (hhdrN hf c).2, hh]; exact isep
        · intro hne2
          rw [hh]
          rcases hcdata with h | h
          · rw [h]; omega
          · exact absurd h hne2
        · rw [(hhdrN hf c).1, (hhdrN hf c).2, hh]; exact isep'
        · intro hne2
          rw [hh] at hne2 ⊢
          have hodd := hvd.data_odd hl hne2
          rcases hcdata with h | h
          · rw [h]; omega
          · rw [h, (hhdrN hf c).2]; omega
      intro x hx y hy hxy
      rcases List.mem_cons.mp hx with hxc | hx'
      · rcases List.mem_cons.mp hy with hyc | hy'
        · exact absurd (hxc.trans hyc.symm) hxy
        · rw [hxc]; exact (key y hy').1
      · rcases List.mem_cons.mp hy with hyc | hy'
        · rw [hyc]; exact (key x hx').2
        · have s := hs.ok.sep x hx' y hy' hxy
          exact ⟨by rw [(hall x hx').2, (hall y hy').2]; exact s.inl, by rw [(hall x hx').2, (hall y hy').2]; exact s.data⟩
    · intro b hb
      rw [hlive] at hb
      have : b = w.next ∧ (w.hdr c).N < (w.hdr o).size ∨ b ∈ w.live := by
        by_cases hbig : (w.hdr c).N < (w.hdr o).size
        · simp only [hbig, if_true, List.mem_cons] at hb
          rcases hb with h | h
          · exact Or.inl ⟨h, hbig⟩
          · exact Or.inr h
        · simp only [hbig, if_false] at hb; exact Or.inr hb
      rcases this with ⟨h1, h2⟩ | h
      · exact ⟨c, by simp, by rw [hdata, if_pos h2, h1]⟩
      · obtain ⟨d, hd, hdd⟩ := hs.ok.noleak b h
        exact ⟨d, by simp [hd], by rw [(hall d hd).2]; exact hdd⟩
    · intro d hdU hdA
      have hdc : d ≠ c := fun e => hdA (by rw [e]; simp)
      have hdA' : d ∉ A := fun h => hdA (by simp [h])
      exact unborn_others hf hnil d hdU hdA' hdc
    · intro x hx y hy hxy
      unfold InlSep
      rw [(hhdrN hf x).1, (hhdrN hf x).2, (hhdrN hf y).1, (hhdrN hf y).2]
      exact hs.inlsep x hx y hy hxy
    · intro xs hx
      refine ⟨by rw [hsize]; exact hx.1, fun i hi => ?_⟩
      have hi' : i < (w.hdr o).size := by rw [← hx.1]; exact hi
      rw [hvals i hi', hx.2 i hi]
  · -- threw
    intro e w' ⟨hu', hl', hlive, hf, hsa⟩
    have hnil : (w.hdr c).N = 0 → w'.mem (w.hdr c).inl = [] ∧ w.mem (w.hdr c).inl = [] := by
      intro hN0
      have := hu'.inl_nil (by rw [hf.hdr_N]; exact hN0)
      rw [hf.hdr_inl] at this
      exact ⟨this, hu.inl_nil hN0⟩
    have hlsub : ∀ b, b ∈ w.live → b ∈ w'.live := by intro b hb; rw [hlive]; exact hb
    have hoth := others hf hlsub hnil
    obtain ⟨hvo', hho⟩ := source hf hsa hlsub hnil
    have hall : ∀ d ∈ A, VecOK cfg w' d ∧ w'.hdr d = w.hdr d := by
      intro d hd
      by_cases hdo : d = o
      · rw [hdo]; exact ⟨hvo', hho⟩
      · exact ⟨(hoth d hd hdo).1, (hoth d hd hdo).2.1⟩
    refine ⟨⟨hs.sub, ⟨fun d hd => (hall d hd).1, fun d hd => by rw [(hhdrN hf d).1]; exact hs.ok.nmax d hd, hl', by rw [hf.ub]; exact hs.ok.ub, ?_, ?_⟩,
             ?_, fun d hd => by rw [(hhdrN hf d).1]; exact hs.nmaxU d hd, ?_⟩, hlive, hho, holds_src hho hsa, fun d hd hdo => (hoth d hd hdo).2⟩
    · intro x hx y hy hxy
      have s := hs.ok.sep x hx y hy hxy
      exact ⟨by rw [(hall x hx).2, (hall y hy).2]; exact s.inl, by rw [(hall x hx).2, (hall y hy).2]; exact s.data⟩
    · intro b hb
      rw [hlive] at hb
      obtain ⟨d, hd, hdd⟩ := hs.ok.noleak b hb
      exact ⟨d, hd, by rw [(hall d hd).2]; exact hdd⟩
    · intro d hdU hdA
      by_cases hdc : d = c
      · rw [hdc]; exact hu'
      · exact unborn_others hf hnil d hdU hdA hdc
    · intro x hx y hy hxy
      unfold InlSep
      rw [(hhdrN hf x).1, (hhdrN hf x).2, (hhdrN hf y).1, (hhdrN hf y).2]
      exact hs.inlsep x hx y hy hxy

/-- ELEMENT-WISE MOVE CONSTRUCTION in a system: `c` is unborn, `o` constructed and not stealable -/
theorem SysAll.ctorMoveElementwise {cfg : Cfg} {w : World α} {U A : List Nat} {c o : Nat} (hs : SysAll cfg w U A)
    (hcU : c ∈ U) (hcA : c ∉ A) (ho : o ∈ A) (hns : NoSteal (w.hdr c) (w.hdr o)) :
    (ctorMove cfg c o w).sat
      (fun _ w' => SysAll cfg w' U (c :: A) ∧ (∀ xs, Holds w o xs → Holds w' c xs) ∧ (w'.hdr c).alloc = (w.hdr o).alloc ∧
                   w'.hdr o = w.hdr o ∧ (∃ ys, Holds w' o ys) ∧
                   ∀ d ∈ A, d ≠ o → w'.hdr d = w.hdr d ∧ w'.mem (w.hdr d).data = w.mem (w.hdr d).data)
      (fun _ w' => SysAll cfg w' U A ∧ w'.live = w.live ∧ w'.hdr o = w.hdr o ∧ (∃ ys, Holds w' o ys) ∧
                   ∀ d ∈ A, d ≠ o → w'.hdr d = w.hdr d ∧ w'.mem (w.hdr d).data = w.mem (w.hdr d).data) := by
  have hne : c ≠ o := fun e => hcA (e ▸ ho)
  have hvo := hs.ok.vec o ho
  rw [ctorMove_eq_fill cfg c o hne w hns hvo.size_le hvo.cap_ge]
  exact SysAll.ctorFillMove hs hcU hcA ho (w.hdr o).alloc

end SvModel
