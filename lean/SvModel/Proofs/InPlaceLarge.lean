/-
In-place insertion of k elements before `pos` when the tail (size − pos) is SHORTER than k (hpp:3864-3930, 4014-4052):
the last k − tail new elements are constructed past the old end first, the old tail is relocated behind them, and the
first `tail` new elements are assigned over the old tail positions.  Whatever throws, the container ends up with its old
size (possibly holding moved-from values): `insertInPlaceLarge_sat`.
-/
import SvModel.Proofs.InPlace

namespace SvModel
open Gen
variable {α : Type}

/-- the part after the new tail elements exist: relocate the old tail behind them, assign the head values -/
theorem largeBody_sat (cfg : Cfg) (c pos m : Nat) (hs : List (Src α)) (w0 w : World α) (n hi : Nat)
    (hposn : pos < n) (htl : hs.length = n - pos) (hhi : hi = n + m + (n - pos))
    (hsz : (w.hdr c).size = n + m) (hd : (w.hdr c).data = (w0.hdr c).data)
    (hm : MidIns w0 w c pos hi (n + m))
    (hnm : NonMoving cfg hs) (hlive : ∀ s ∈ hs, SrcLive w s)
    (hcls : (w.hdr c).data % 2 = 1 ∨ (w.hdr c).data < 5)
    (htmp : ∀ s ∈ hs, ∀ b i, s.loc = some (b, i) → ¬ (b % 2 = 1 ∨ b < 5)) :
    ((uninitializedMove cfg false (w.hdr c).data pos (n - pos) (w.hdr c).data (n + m) >>= fun _ =>
      setSize c (n + m + (n - pos)) >>= fun _ =>
      tryCatch (assignGen cfg (w.hdr c).data pos hs) (fun e => rollbackShift cfg c pos (n + m) (n - pos) e)) w).sat
      (fun _ w' => MidIns w0 w' c pos hi hi ∧
          (∀ j (h : j < hs.length), (w'.mem (w.hdr c).data)[pos + j]? = some (.obj (srcVal w hs[j]))) ∧
          (∀ i, pos ≤ i → i < n → (w'.mem (w.hdr c).data)[i + (n + m - pos)]? = (w.mem (w.hdr c).data)[i]?) ∧
          (∀ (b i : Nat), ¬ (b = (w.hdr c).data ∧ ((pos ≤ i ∧ i < n) ∨ (n + m ≤ i ∧ i < hi))) → (w'.mem b)[i]? = (w.mem b)[i]?) ∧ Ctl0 w w')
      (fun _ w' => ∃ n', (n' = n + m ∨ n' = hi) ∧ MidIns w0 w' c pos hi n' ∧
          (∀ (b i : Nat), b ≠ (w.hdr c).data → IsObj w b i → IsObj w' b i) ∧
          (∀ i, n ≤ i → i < n + m → IsObj w' (w.hdr c).data i) ∧ Ctl0 w w') := by
  have hout : ∀ s ∈ hs, ∀ b i, s.loc = some (b, i) → b ≠ (w.hdr c).data :=
    fun s hs' b i hl' hb => htmp s hs' b i hl' (by rw [hb]; exact hcls)
  generalize hdd : (w.hdr c).data = d at *
  subst hhi
  have hobj : ∀ i, i < n + m → IsObj w d i := fun i hi' => by rw [hd]; exact hm.objs i hi'
  have hraw : ∀ i, n + m ≤ i → i < n + m + (n - pos) → IsRaw w d i := fun i a b => by rw [hd]; exact hm.raws i a b
  have hmv := uninitializedMove_sat cfg false d pos (n - pos) d (n + m) w
    (fun j hj => hobj _ (by omega)) (fun j hj => hraw _ (by omega) (by omega))
  refine sat_bind hmv (fun _ w1 hr => ?_) ?_
  · have hss : setSize c (n + m + (n - pos)) w1 = .ok () { w1 with hdr := upd w1.hdr c { w1.hdr c with size := n + m + (n - pos) } } := rfl
    rw [bind_run, hss]
    simp only []
    generalize hw2 : ({ w1 with hdr := upd w1.hdr c { w1.hdr c with size := n + m + (n - pos) } } : World α) = w2
    have hmem2 : w2.mem = w1.mem := by subst hw2; rfl
    have hh2 : w2.hdr = upd w0.hdr c { w0.hdr c with size := n + m + (n - pos) } := by
      subst hw2
      show upd w1.hdr c _ = _
      rw [hr.ctl.hdr, hm.hdr]
      funext x
      by_cases hx : x = c
      · subst hx; simp
      · simp [upd, hx]
    have hc12 : Ctl0 w w2 := by
      subst hw2
      exact ⟨hr.ctl.owner, hr.ctl.live, hr.ctl.next, hr.ctl.ub, by rw [hr.ctl.ntmp]; exact ⟨Nat.le_refl _, rfl⟩, fun b _ => hr.ctl.len b⟩
    have hrest2 : ∀ (b i : Nat), ¬ (b = d ∧ ((pos ≤ i ∧ i < n) ∨ (n + m ≤ i ∧ i < n + m + (n - pos)))) → (w2.mem b)[i]? = (w.mem b)[i]? := by
      intro b i hne
      rw [hmem2]
      exact hr.rest b i (by intro ⟨a1, a2, a3⟩; exact hne ⟨a1, Or.inr ⟨a2, a3⟩⟩) (by intro ⟨a1, a2, a3⟩; exact hne ⟨a1, Or.inl ⟨a2, by omega⟩⟩)
    have hobj2 : ∀ j, j < n + m + (n - pos) → IsObj w2 d j := by
      intro j hj
      unfold IsObj; rw [hmem2]
      by_cases h1 : pos ≤ j ∧ j < n
      · have := hr.src (j - pos) (by omega)
        rw [show pos + (j - pos) = j by omega] at this; exact this
      · by_cases h2 : j < n + m
        · exact isObj_of_eq (hr.rest d j (by intro ⟨_, a, _⟩; omega) (by intro ⟨_, a, b⟩; exact h1 ⟨a, by omega⟩)) (hobj j h2)
        · have := hr.dst (j - (n + m)) (by omega)
          rw [show n + m + (j - (n + m)) = j by omega] at this
          exact isObj_of_eq this (hobj (pos + (j - (n + m))) (by omega))
    have hm2 : MidIns w0 w2 c pos (n + m + (n - pos)) (n + m + (n - pos)) := by
      refine ⟨hm.ctl0.trans hc12, hh2, fun i hi' => by rw [← hd]; exact hobj2 i hi', fun i a b => by omega, ?_⟩
      intro b i hne hc'
      rw [hrest2 b i (by rw [← hd] at hne; intro ⟨a1, a2⟩; exact hne ⟨a1, by omega, by omega⟩)]
      exact hm.rest b i hne hc'
    have hlive2 : ∀ s ∈ hs, SrcLive w2 s := by
      intro s hs' b i hl'
      obtain ⟨v, hv'⟩ := hlive s hs' b i hl'
      exact ⟨v, by rw [hrest2 b i (by intro ⟨a, _⟩; exact hout s hs' b i hl' a)]; exact hv'⟩
    have hsv2 : ∀ s ∈ hs, srcVal w2 s = srcVal w s := fun s hs' =>
      srcVal_congr w w2 s (fun b i hl' => hrest2 b i (by intro ⟨a, _⟩; exact hout s hs' b i hl' a))
    have hfill := Res.sat_and
      (assignGen_nonmoving_sat cfg d hs pos w2 hnm (fun j hj => hobj2 _ (by omega)) hlive2
        (fun s hs' b i hl' => by intro ⟨a, _, _⟩; exact hout s hs' b i hl' a))
      (assignGen_touched cfg d hs pos w2 (fun j hj => hobj2 _ (by omega)) hlive2
        (fun j hj => by intro hl'; exact hout _ (List.getElem_mem hj) _ _ hl' rfl))
    have hsz2 : (w2.hdr c).size = n + m + (n - pos) := by rw [hm2.hdr_c]
    have hd2 : (w2.hdr c).data = d := by rw [hm2.hdr_c]; exact hd.symm
    refine sat_tryCatch (Res.sat_mono hfill ?_ (fun e w4 h => h)) ?_
    · intro _ w4 ⟨⟨hc4, hv4, hrest4⟩, _⟩
      refine ⟨hm2.step_data hc4.to0 hc4.hdr ?_ (fun i a b => by omega) (fun b i hne _ => hrest4 b i (by rw [← hd] at hne; intro ⟨a1, a2, a3⟩; exact hne ⟨a1, by omega, by omega⟩)),
              ?_, ?_, ?_, hc12.trans hc4.to0⟩
      · intro i hi'
        rw [← hd]
        by_cases h : pos ≤ i ∧ i < pos + hs.length
        · have := hv4 (i - pos) (by omega)
          rw [show pos + (i - pos) = i by omega] at this
          exact ⟨_, this⟩
        · exact isObj_of_eq (hrest4 d i (by intro ⟨_, a, b⟩; exact h ⟨a, b⟩)) (hobj2 i hi')
      · intro j hj
        rw [hv4 j hj, hsv2 _ (List.getElem_mem hj)]
      · intro i a b
        rw [hrest4 d (i + (n + m - pos)) (by intro ⟨_, _, x⟩; omega), hmem2]
        have := hr.dst (i - pos) (by omega)
        rw [show n + m + (i - pos) = i + (n + m - pos) by omega, show pos + (i - pos) = i by omega] at this
        exact this
      · intro b i hne
        rw [hrest4 b i (by intro ⟨a1, a2, a3⟩; exact hne ⟨a1, Or.inl ⟨a2, by omega⟩⟩)]
        exact hrest2 b i hne
    · -- the head assignment threw: roll back the relocation of the old tail
      intro e w4 ⟨_, _, ht4⟩
      have hm4 : MidIns w0 w4 c pos (n + m + (n - pos)) (n + m + (n - pos)) := hm2.step_data ht4.ctl.to0 ht4.ctl.hdr
        (fun i hi' => by rw [← hd]; exact ht4.isObj (hobj2 i hi')) (fun i a b => by omega)
        (fun b i hne _ => ht4.same b i (by
          rw [← hd] at hne
          intro hp
          rcases hp with ⟨a1, a2, a3⟩ | ⟨s, hs', hl'⟩
          · exact hne ⟨a1, by omega, by omega⟩
          · exact htmp s hs' b i hl' (by assumption)))
      have hrb := rollbackShift_sat cfg c pos (n + m) (n - pos) e w0 w4 pos (n + m + (n - pos)) (n + m + (n - pos))
        (by omega) (by omega) (by omega) (by omega) (Nat.le_refl _) (Nat.le_refl _) (by rw [ht4.ctl.hdr]; exact hsz2)
        (by rw [ht4.ctl.hdr, hd2]; exact hd) hm4
      rw [show (w4.hdr c).data = d by rw [ht4.ctl.hdr]; exact hd2] at hrb
      refine Res.sat_mono hrb (fun _ _ h => h.elim) ?_
      intro _ w5 ⟨n', h1, h2, h3, h4⟩
      refine ⟨n', by omega, h2, ?_, ?_, hc12.trans (ht4.ctl.to0.trans h4)⟩
      · intro b i hb ho
        have ho2 : IsObj w2 b i := isObj_of_eq (hrest2 b i (by intro ⟨a, _⟩; exact hb a)) ho
        exact isObj_of_eq (h3 b i (by intro ⟨a, _, _⟩; exact hb a)) (ht4.isObj ho2)
      · intro i a b
        have := h2.objs i (by omega)
        rw [← hd] at this
        exact this
  · -- relocating the old tail threw: nothing was constructed behind the new elements
    intro e w1 ⟨_, hf⟩
    have hrest1 : ∀ (b i : Nat), ¬ (b = d ∧ ((pos ≤ i ∧ i < n) ∨ (n + m ≤ i ∧ i < n + m + (n - pos)))) → (w1.mem b)[i]? = (w.mem b)[i]? := by
      intro b i hne
      exact hf.rest b i (by intro ⟨a1, a2, a3⟩; exact hne ⟨a1, Or.inr ⟨a2, a3⟩⟩) (by intro ⟨a1, a2, a3⟩; exact hne ⟨a1, Or.inl ⟨a2, by omega⟩⟩)
    have hobj1 : ∀ i, i < n + m → IsObj w1 d i := by
      intro i hi'
      by_cases h1 : pos ≤ i ∧ i < n
      · have := hf.src (i - pos) (by omega)
        rw [show pos + (i - pos) = i by omega] at this; exact this
      · exact isObj_of_eq (hrest1 d i (by intro ⟨_, h⟩; rcases h with h | h; exact h1 h; omega)) (hobj i hi')
    refine ⟨n + m, Or.inl rfl, ⟨hm.ctl0.trans hf.ctl.to0, by rw [hf.ctl.hdr, hm.hdr], fun i hi' => by rw [← hd]; exact hobj1 i hi', ?_, ?_⟩,
            ?_, fun i a b => hobj1 i (by omega), hf.ctl.to0⟩
    · intro i a b
      rw [← hd]
      have := hf.dst (i - (n + m)) (by omega)
      rw [show n + m + (i - (n + m)) = i by omega] at this; exact this
    · intro b i hne hc'
      rw [hrest1 b i (by rw [← hd] at hne; intro ⟨a1, a2⟩; exact hne ⟨a1, by omega, by omega⟩)]
      exact hm.rest b i hne hc'
    · intro b i hb ho
      exact isObj_of_eq (hrest1 b i (by intro ⟨a, _⟩; exact hb a)) ho

/-- insert_copies / insert_range_helper, in place, tail shorter than the number of inserted elements.
    `hsOf t` are the sources assigned over the old tail positions (`t` = the stack temporary, if any), `headVals` their
    values.  A throw anywhere restores the old size: same buffer, possibly moved-from values, nothing leaked. -/
theorem insertInPlaceLarge_sat (cfg : Cfg) (c pos : Nat) (tailSrcs : List (Src α)) (withTmp : Option (Src α))
    (hsOf : Nat → List (Src α)) (headVals : List (Val α)) (w : World α)
    (hv : VecOK cfg w c) (hl : Ledger w) (hposn : pos < (w.hdr c).size)
    (hroom : (w.hdr c).size + tailSrcs.length + ((w.hdr c).size - pos) ≤ (w.hdr c).cap)
    (hta : ArgsOK cfg w c tailSrcs) (htmpsrc : ∀ s, withTmp = some s → ArgOK cfg w c s)
    (hlen : ∀ t, (hsOf t).length = (w.hdr c).size - pos) (hhl : headVals.length = (w.hdr c).size - pos) (hnm : ∀ t, NonMoving cfg (hsOf t))
    (hloc : ∀ t, ∀ s ∈ hsOf t, ∀ b i, s.loc = some (b, i) → withTmp.isSome = true ∧ b = t ∧ i = 0)
    (hvals : ∀ t (wX : World α), (∀ s, withTmp = some s → (wX.mem t)[0]? = some (.obj (srcVal w s))) →
              (hsOf t).map (srcVal wX) = headVals) :
    (insertInPlaceLarge cfg c pos tailSrcs withTmp (fun t => assignGen cfg (w.hdr c).data pos (hsOf t)) w).sat
      (fun _ w' => Inserted cfg w w' c pos (headVals ++ tailSrcs.map (srcVal w)) ∧ InsKept w w' c)
      (fun _ w' => InsFail cfg w w' c ∧ w'.hdr c = w.hdr c) := by
  unfold insertInPlaceLarge
  rw [bind_run, getV_run]
  simp only []
  generalize hn : (w.hdr c).size = n at *
  generalize hdd : (w.hdr c).data = d at *
  obtain ⟨m, hmm⟩ : ∃ m, tailSrcs.length = m := ⟨_, rfl⟩
  have hcls : d % 2 = 1 ∨ d < 5 := by rw [← hdd]; exact hv.data_cls hl
  have hcap : n + m + (n - pos) ≤ (w.hdr c).cap := by omega
  have hm0 : MidIns w w c pos (n + m + (n - pos)) n := by
    have := MidIns.start hv pos (n + m + (n - pos)) hcap
    rw [hn] at this; exact this
  have failN : ∀ w', MidIns w w' c pos (n + m + (n - pos)) n → InsFail cfg w w' c ∧ w'.hdr c = w.hdr c := by
    intro w' hm'
    refine ⟨hm'.fail hv hl (by omega) hcap (by omega), ?_⟩
    rw [hm'.hdr_c, ← hn]
  -- 1. construct the last m new elements past the old end
  have hcon := uninitGen_nonmoving_sat cfg d n tailSrcs 0 w hta.nonmoving hta.live (fun j h => by omega)
    (fun k hk => by rw [← hdd]; exact hv.raws _ (by omega) (by omega))
  refine sat_bind hcon (fun _ w1 ⟨hc1, hv1, hrest1⟩ => ?_) ?_
  rotate_left
  · intro e w1 ⟨_, hc1, hr1, hrest1⟩
    exact failN w1 (hm0.step_data hc1.to0 hc1.hdr
      (fun i hi => by rw [hdd]; exact isObj_of_eq (hrest1 d i (by intro ⟨_, a, _⟩; omega)) (by rw [← hdd]; exact hv.objs i (by omega)))
      (fun i a b => by
        rw [hdd]
        by_cases h : i < n + 0 + tailSrcs.length
        · exact hr1 i a h
        · exact isRaw_of_eq (hrest1 d i (by intro ⟨_, _, x⟩; exact h x)) (by rw [← hdd]; exact hv.raws i (by omega) (by omega)))
      (fun b i hne _ => hrest1 b i (by rw [hdd] at hne; intro ⟨a1, a2, a3⟩; exact hne ⟨a1, by omega, by omega⟩)))
  -- 2. size := n + m
  have hss : setSize c (n + tailSrcs.length) w1 = .ok () { w1 with hdr := upd w1.hdr c { w1.hdr c with size := n + tailSrcs.length } } := rfl
  rw [bind_run, hss]
  simp only []
  generalize hw2 : ({ w1 with hdr := upd w1.hdr c { w1.hdr c with size := n + tailSrcs.length } } : World α) = w2
  have hmem2 : w2.mem = w1.mem := by subst hw2; rfl
  have hslot2 : ∀ (b i : Nat), ¬ (b = d ∧ n ≤ i ∧ i < n + m) → (w2.mem b)[i]? = (w.mem b)[i]? := by
    intro b i hne
    rw [hmem2]
    exact hrest1 b i (by intro ⟨a1, a2, a3⟩; exact hne ⟨a1, by omega, by omega⟩)
  have htail2 : ∀ k (h : k < tailSrcs.length), (w2.mem d)[n + k]? = some (.obj (srcVal w tailSrcs[k])) := by
    intro k hk
    rw [hmem2]
    have := hv1 k hk
    simp only [Nat.add_zero] at this
    exact this
  have hm2 : MidIns w w2 c pos (n + m + (n - pos)) (n + m) := by
    have hc02 : Ctl0 w w2 := by
      have h1 := hc1.to0
      subst hw2
      exact ⟨h1.owner, h1.live, h1.next, h1.ub, h1.ntmp, h1.len⟩
    refine ⟨hc02, ?_, ?_, ?_, ?_⟩
    · subst hw2
      show upd w1.hdr c _ = _
      rw [hc1.hdr, hmm]
    · intro i hi
      rw [hdd]
      by_cases h : i < n
      · exact isObj_of_eq (hslot2 d i (by intro ⟨_, a, _⟩; omega)) (by rw [← hdd]; exact hv.objs i (by omega))
      · have := htail2 (i - n) (by omega)
        rw [show n + (i - n) = i by omega] at this
        exact ⟨_, this⟩
    · intro i a b
      rw [hdd]
      exact isRaw_of_eq (hslot2 d i (by intro ⟨_, _, x⟩; omega)) (by rw [← hdd]; exact hv.raws i (by omega) (by omega))
    · intro b i hne _
      exact hslot2 b i (by rw [hdd] at hne; intro ⟨a1, a2, a3⟩; exact hne ⟨a1, by omega, by omega⟩)
  have hsz2 : (w2.hdr c).size = n + m := by rw [hm2.hdr_c]
  have hd2 : (w2.hdr c).data = d := by rw [hm2.hdr_c]; exact hdd
  rw [hmm]
  -- 3. the guarded part: what it establishes
  have hX : ∀ (X : M α Unit), (X w2).sat
        (fun _ w' => MidIns w w' c pos (n + m + (n - pos)) (n + m + (n - pos)) ∧
            (∀ j (h : j < headVals.length), (w'.mem d)[pos + j]? = some (.obj headVals[j])) ∧
            (∀ i, pos ≤ i → i < n → (w'.mem d)[i + (n + m - pos)]? = (w.mem d)[i]?) ∧
            (∀ k (h : k < tailSrcs.length), (w'.mem d)[n + k]? = some (.obj (srcVal w tailSrcs[k]))))
        (fun _ w' => ∃ n', (n' = n + m ∨ n' = n + m + (n - pos)) ∧ MidIns w w' c pos (n + m + (n - pos)) n') →
      (tryCatch X (fun e => getV c >>= fun v' => destroyRange cfg d n (v'.size - n) >>= fun _ => setSize c n >>= fun _ => throwE e) w2).sat
        (fun _ w' => Inserted cfg w w' c pos (headVals ++ tailSrcs.map (srcVal w)) ∧ InsKept w w' c)
        (fun _ w' => InsFail cfg w w' c ∧ w'.hdr c = w.hdr c) := by
    intro X hx
    refine sat_tryCatch (Res.sat_mono hx ?_ (fun _ _ h => h)) ?_
    · intro _ w' ⟨hm', hh', hs', ht'⟩
      have hb' := hm'.basic hv hl (Nat.le_refl _) hcap (by omega)
      have hhc' := hm'.hdr_c
      have hvl : (headVals ++ tailSrcs.map (srcVal w)).length = (n - pos) + m := by simp [hhl, hmm]
      refine ⟨⟨hb', ?_, by rw [hhc', hvl]; show n + m + (n - pos) = (w.hdr c).size + _; rw [hn]; omega, by rw [hhc']⟩,
              by rw [hhc'], by rw [hhc'], hm'.ctl0.live, hm'.ctl0.next⟩
      intro xs hx'
      refine holds_insert_of_slots (d := d) (n := n) hx' hn.symm (by omega) (by rw [hhc', hvl]; show n + m + (n - pos) = _; omega)
        (by rw [hhc']; exact hdd) ?_ ?_ ?_
      · intro i hi
        rw [hdd]
        exact hm'.rest d i (by intro ⟨_, h, _⟩; omega) hcls
      · intro k hk
        by_cases hkh : k < headVals.length
        · rw [hh' k hkh, List.getElem_append_left hkh]
        · have hk2 : k - headVals.length < tailSrcs.length := by rw [hvl] at hk; omega
          have := ht' (k - headVals.length) hk2
          rw [show n + (k - headVals.length) = pos + k by omega] at this
          rw [this, List.getElem_append_right (by omega)]
          simp
      · intro i h1 h2
        rw [hdd, hvl, show i + (n - pos + m) = i + (n + m - pos) by omega]
        exact hs' i h1 h2
    · -- the outer handler: destroy everything past the old end, restore the size
      intro e w3 ⟨n', hn', hm3⟩
      rw [bind_run, getV_run]
      simp only []
      rw [hm3.hdr_c]
      simp only []
      have hobj3 : ∀ i, n ≤ i → i < n + (n' - n) → IsObj w3 d i := fun i a b => by rw [← hdd]; exact hm3.objs i (by omega)
      refine sat_bind (destroyRange_sat cfg d (n' - n) n w3 hobj3) (fun _ w4 ⟨hc4, hraw4, hrest4⟩ => ?_) (fun _ _ h => h.elim)
      have hss4 : setSize c n w4 = .ok () { w4 with hdr := upd w4.hdr c { w4.hdr c with size := n } } := rfl
      rw [bind_run, hss4]
      simp only []
      generalize hw5 : ({ w4 with hdr := upd w4.hdr c { w4.hdr c with size := n } } : World α) = w5
      have hmem5 : w5.mem = w4.mem := by subst hw5; rfl
      show InsFail cfg w w5 c ∧ _
      refine failN w5 ⟨?_, ?_, ?_, ?_, ?_⟩
      · have h1 := hm3.ctl0.trans hc4.to0
        subst hw5
        exact ⟨h1.owner, h1.live, h1.next, h1.ub, h1.ntmp, h1.len⟩
      · subst hw5
        show upd w4.hdr c _ = _
        rw [hc4.hdr, hm3.hdr]
        funext x
        by_cases hx' : x = c
        · subst hx'; simp
        · simp [upd, hx']
      · intro i hi
        rw [hdd]
        unfold IsObj; rw [hmem5]
        exact isObj_of_eq (hrest4 d i (by intro ⟨_, a, _⟩; omega)) (by have := hm3.objs i (by omega); rw [hdd] at this; exact this)
      · intro i a b
        rw [hdd]
        unfold IsRaw; rw [hmem5]
        by_cases h : i < n'
        · exact hraw4 i a (by omega)
        · have := hm3.raws i (by omega) b
          rw [hdd] at this
          exact isRaw_of_eq (hrest4 d i (by intro ⟨_, _, x⟩; omega)) this
      · intro b i hne hc'
        rw [hmem5, hrest4 b i (by rw [hdd] at hne; intro ⟨a1, a2, a3⟩; exact hne ⟨a1, by omega, by omega⟩)]
        exact hm3.rest b i hne hc'
  -- 4. the two shapes of the guarded part
  have hbody : ∀ (t : Nat) (w3 : World α), MidIns w w3 c pos (n + m + (n - pos)) (n + m) → (w3.hdr c).size = n + m → (w3.hdr c).data = d →
      (∀ k (h : k < tailSrcs.length), (w3.mem d)[n + k]? = some (.obj (srcVal w tailSrcs[k]))) →
      (∀ i, i < n → (w3.mem d)[i]? = (w.mem d)[i]?) →
      (∀ s ∈ hsOf t, SrcLive w3 s) → (∀ s, withTmp = some s → (w3.mem t)[0]? = some (.obj (srcVal w s))) →
      (∀ s ∈ hsOf t, ∀ b i, s.loc = some (b, i) → ¬ (b % 2 = 1 ∨ b < 5)) →
      ((uninitializedMove cfg false d pos (n - pos) d (n + m) >>= fun _ =>
        setSize c (n + m + (n - pos)) >>= fun _ =>
        tryCatch (assignGen cfg d pos (hsOf t)) (fun e => rollbackShift cfg c pos (n + m) (n - pos) e)) w3).sat
        (fun _ w' => MidIns w w' c pos (n + m + (n - pos)) (n + m + (n - pos)) ∧
            (∀ j (h : j < headVals.length), (w'.mem d)[pos + j]? = some (.obj headVals[j])) ∧
            (∀ i, pos ≤ i → i < n → (w'.mem d)[i + (n + m - pos)]? = (w.mem d)[i]?) ∧
            (∀ k (h : k < tailSrcs.length), (w'.mem d)[n + k]? = some (.obj (srcVal w tailSrcs[k]))) ∧
            (∀ (b i : Nat), b ≠ d → (w'.mem b)[i]? = (w3.mem b)[i]?) ∧ Ctl0 w3 w')
        (fun _ w' => ∃ n', (n' = n + m ∨ n' = n + m + (n - pos)) ∧ MidIns w w' c pos (n + m + (n - pos)) n' ∧
            (∀ (b i : Nat), b ≠ d → IsObj w3 b i → IsObj w' b i) ∧ Ctl0 w3 w') := by
    intro t w3 hm3 hsz3 hd3 htl3 hold3 hlive3 htv3 hcl3
    have hlb := largeBody_sat cfg c pos m (hsOf t) w w3 n (n + m + (n - pos)) hposn (hlen t) rfl hsz3 (by rw [hd3, hdd]) hm3
      (hnm t) hlive3 (by rw [hd3]; exact hcls) hcl3
    rw [hd3] at hlb
    refine Res.sat_mono hlb ?_ ?_
    · intro _ w' ⟨h1, h2, h3, h4, h5⟩
      have hvs := hvals t w3 htv3
      refine ⟨h1, ?_, ?_, ?_, fun b i hb => h4 b i (by intro ⟨a, _⟩; exact hb a), h5⟩
      · intro j hj
        have hj' : j < (hsOf t).length := by rw [hlen t, ← hhl]; exact hj
        rw [h2 j hj']
        have : (List.map (srcVal w3) (hsOf t))[j]'(by simp; exact hj') = headVals[j] := by simp only [hvs]
        simp only [List.getElem_map] at this
        rw [this]
      · intro i a b
        rw [h3 i a b]; exact hold3 i b
      · intro k hk
        rw [h4 d (n + k) (by intro ⟨_, h⟩; rcases h with h | h <;> omega)]
        exact htl3 k hk
    · intro _ w' ⟨n', h1, h2, h3, _, h5⟩
      exact ⟨n', h1, h2, h3, h5⟩
  cases hwt : withTmp with
  | none =>
    simp only []
    refine hX _ (Res.sat_mono (hbody 0 w2 hm2 hsz2 hd2 htail2 (fun i hi => hslot2 d i (by intro ⟨_, a, _⟩; omega))
      (fun s hs' b i hl' => by have := (hloc 0 s hs' b i hl').1; rw [hwt] at this; cases this)
      (fun s hs' => by rw [hwt] at hs'; cases hs')
      (fun s hs' b i hl' => by have := (hloc 0 s hs' b i hl').1; rw [hwt] at this; cases this)) ?_ ?_)
    · intro _ w' ⟨h1, h2, h3, h4, _⟩; exact ⟨h1, h2, h3, h4⟩
    · intro _ w' ⟨n', h1, h2, _⟩; exact ⟨n', h1, h2⟩
  | some s =>
    simp only []
    have has := htmpsrc s hwt
    have htmp := hl.ntmp_ok
    have hnt2 : w2.ntmp = w.ntmp := by subst hw2; exact hc1.ntmp
    have htd : w.ntmp ≠ d := by omega
    have htcls : ¬ (w.ntmp % 2 = 1 ∨ w.ntmp < 5) := by omega
    refine hX _ ?_
    rw [bind_run, allocTemp_run, hnt2]
    simp only []
    generalize hw3 : ({ w2 with mem := upd w2.mem w.ntmp [.raw], ntmp := w.ntmp + 2 } : World α) = w3
    have hmem3 : ∀ b, b ≠ w.ntmp → w3.mem b = w2.mem b := fun b hb => by subst hw3; show upd w2.mem _ _ b = _; rw [upd_other _ _ _ _ hb]
    have hh3 : w3.hdr = w2.hdr := by subst hw3; rfl
    have hc23 : Ctl0 w2 w3 := by
      subst hw3
      refine ⟨rfl, rfl, rfl, rfl, ⟨by show w2.ntmp ≤ w.ntmp + 2; omega, by show (w.ntmp + 2) % 2 = w2.ntmp % 2; omega⟩, ?_⟩
      intro b hb
      show (upd w2.mem w.ntmp [.raw] b).length = _
      rw [upd_other _ _ _ _ (by
        intro h; subst h
        rcases hb with h | h | h
        · omega
        · omega
        · have : w.ntmp + 2 ≤ w.ntmp := h
          omega)]
    have hm3 : MidIns w w3 c pos (n + m + (n - pos)) (n + m) := hm2.step_tmp hc23 hh3 (by rw [hdd]; exact hcls)
      (fun b i hb => by rw [hmem3 b (by intro h; subst h; exact htcls hb)])
    have hraw3 : (w3.mem w.ntmp)[0]? = some .raw := by subst hw3; show (upd w2.mem w.ntmp [.raw] w.ntmp)[0]? = _; simp
    have hcont3 : ∀ i, i < n → (w3.mem d)[i]? = (w.mem d)[i]? := fun i hi => by
      rw [hmem3 d (Ne.symm htd)]; exact hslot2 d i (by intro ⟨_, a, _⟩; omega)
    have hlive3 : SrcLive w3 s := by
      intro b i hl'
      obtain ⟨hb', hi'⟩ := has.inside b i hl'
      obtain ⟨v, hv'⟩ := has.live b i hl'
      rw [hdd] at hb'; rw [hn] at hi'
      subst hb'
      exact ⟨v, by rw [hcont3 i hi']; exact hv'⟩
    have hsv3 : srcVal w3 s = srcVal w s :=
      srcVal_congr w w3 s (fun b i hl' => by
        obtain ⟨hb', hi'⟩ := has.inside b i hl'
        rw [hdd] at hb'; rw [hn] at hi'
        subst hb'; exact hcont3 i hi')
    refine sat_bind (constructSrc_sat cfg w.ntmp 0 s w3 hraw3 hlive3) (fun _ w4 hw4 => ?_) ?_
    rotate_left
    · intro e w4 ⟨_, hq⟩
      exact ⟨n + m, Or.inl rfl, hm3.step_tmp hq.2.to0 hq.2.hdr (by rw [hdd]; exact hcls) (fun b i _ => by rw [hq.1])⟩
    have hsame4 := hw4.same_of_nonmoving has.nonmoving hlive3
    have hm4 : MidIns w w4 c pos (n + m + (n - pos)) (n + m) := hm3.step_tmp hw4.ctl.to0 hw4.ctl.hdr (by rw [hdd]; exact hcls)
      (fun b i hb => hsame4 b i (by intro h; injection h with h _; subst h; exact htcls hb))
    have htmp4 : (w4.mem w.ntmp)[0]? = some (.obj (srcVal w s)) := by rw [hw4.dst, hsv3]
    have hd4 : ∀ i : Nat, (w4.mem d)[i]? = (w2.mem d)[i]? := fun i => by
      rw [hsame4 d i (by intro h; injection h with h _; exact htd h.symm), hmem3 d (Ne.symm htd)]
    have hb4 := hbody w.ntmp w4 hm4 (by rw [hm4.hdr_c]) (by rw [hm4.hdr_c]; exact hdd)
      (fun k hk => by rw [hd4]; exact htail2 k hk)
      (fun i hi => by rw [hd4]; exact hslot2 d i (by intro ⟨_, a, _⟩; omega))
      (fun s' hs' b i hl' => by
        obtain ⟨_, hb', hi'⟩ := hloc w.ntmp s' hs' b i hl'
        subst hb'; subst hi'
        exact ⟨_, htmp4⟩)
      (fun s' hs' => by rw [hwt] at hs'; injection hs' with hs'; subst hs'; exact htmp4)
      (fun s' hs' b i hl' => by
        obtain ⟨_, hb', _⟩ := hloc w.ntmp s' hs' b i hl'
        subst hb'; exact htcls)
    refine sat_finally (Q1 := fun _ w5 => (MidIns w w5 c pos (n + m + (n - pos)) (n + m + (n - pos)) ∧
          (∀ j (h : j < headVals.length), (w5.mem d)[pos + j]? = some (.obj headVals[j])) ∧
          (∀ i, pos ≤ i → i < n → (w5.mem d)[i + (n + m - pos)]? = (w.mem d)[i]?) ∧
          (∀ k (h : k < tailSrcs.length), (w5.mem d)[n + k]? = some (.obj (srcVal w tailSrcs[k])))) ∧ IsObj w5 w.ntmp 0)
      (E1 := fun _ w5 => (∃ n', (n' = n + m ∨ n' = n + m + (n - pos)) ∧ MidIns w w5 c pos (n + m + (n - pos)) n') ∧ IsObj w5 w.ntmp 0)
      (Res.sat_mono hb4 ?_ ?_) ?_ ?_
    · intro _ w5 ⟨h1, h2, h3, h4, h5, _⟩
      exact ⟨⟨h1, h2, h3, h4⟩, ⟨_, by rw [h5 w.ntmp 0 htd]; exact htmp4⟩⟩
    · intro _ w5 ⟨n', h1, h2, h3, _⟩
      exact ⟨⟨n', h1, h2⟩, h3 w.ntmp 0 htd ⟨_, htmp4⟩⟩
    · intro _ w5 ⟨⟨h1, h2, h3, h4⟩, ht5⟩
      refine Res.sat_mono (destroyAt_sat cfg w.ntmp 0 w5 ht5) ?_ (fun _ _ h => h.elim)
      intro _ w6 ⟨hc6, _, hrest6⟩
      have hoth : ∀ i : Nat, (w6.mem d)[i]? = (w5.mem d)[i]? := fun i => hrest6 d i (by intro h; injection h with h _; exact htd h.symm)
      exact ⟨h1.step_tmp hc6.to0 hc6.hdr (by rw [hdd]; exact hcls) (fun b i hb => hrest6 b i (by intro h; injection h with h _; subst h; exact htcls hb)),
             fun j hj => by rw [hoth]; exact h2 j hj, fun i a b => by rw [hoth]; exact h3 i a b, fun k hk => by rw [hoth]; exact h4 k hk⟩
    · intro e w5 ⟨⟨n', h1, h2⟩, ht5⟩
      refine Res.sat_mono (destroyAt_sat cfg w.ntmp 0 w5 ht5) ?_ (fun _ _ h => h.elim)
      intro _ w6 ⟨hc6, _, hrest6⟩
      exact ⟨n', h1, h2.step_tmp hc6.to0 hc6.hdr (by rw [hdd]; exact hcls) (fun b i hb => hrest6 b i (by intro h; injection h with h _; subst h; exact htcls hb))⟩

end SvModel
