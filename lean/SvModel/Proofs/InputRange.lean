/-
Single-pass (input iterator) ranges: `append_range` for input iterators is one `append_element` per position.
For every fault list: values appended in order (refinement), invariants, roll-back to the original size under the
strong policy, and the iterator protocol — position p is dereferenced once, then incremented once, in sequence
order, and nothing is touched at or beyond `last` (C15).
-/
import SvModel.Proofs.AppendN
import SvModel.Proofs.Trace

namespace SvModel
open Gen
variable {α : Type}

/-- the iterator events of consuming `n` positions starting at `p` -/
def streamEvs (sid p : Nat) : Nat → List Ev
  | 0 => []
  | n+1 => .deref sid p :: .incr sid p :: streamEvs sid (p + 1) n

theorem emit_run (e : Ev) (w : World α) : emit e w = .ok () { w with trace := w.trace ++ [e] } := rfl

theorem Basic.refl {cfg : Cfg} {w : World α} {c : Nat} (hv : VecOK cfg w c) (hl : Ledger w) : Basic cfg w w c :=
  Strong.basic (Strong.refl hl) hl hv

theorem argOK_ext (cfg : Cfg) (w : World α) (c : Nat) (a : α) : ArgOK cfg w c (.ext a) :=
  ⟨rfl, fun _ _ h => by simp [Src.loc] at h, fun _ _ h => by simp [Src.loc] at h⟩

/-- Basic only mentions the world through fields that `emit` does not change -/
theorem Basic.of_trace_eq {cfg : Cfg} {w w1 w2 : World α} {c : Nat} (h : Basic cfg w w1 c) (hl0 : Ledger w) (hv0 : VecOK cfg w c)
    (hm : w2.mem = w1.mem) (hh : w2.hdr = w1.hdr) (ho : w2.owner = w1.owner) (hl : w2.live = w1.live)
    (hn : w2.next = w1.next) (ht : w2.ntmp = w1.ntmp) (hu : w2.ub = w1.ub) : Basic cfg w w2 c := by
  have hc : Ctl w1 w2 := ⟨hh, ho, hl, hn, ht, hu, fun b => by rw [hm]⟩
  have hq : Quiet w1 w2 := ⟨hm, hc⟩
  exact Basic.trans hl0 hv0 h (Strong.basic (Strong.of_quiet h.led hq) h.led h.vec)

theorem holds_of_same {w1 w2 : World α} {c : Nat} {xs : List (Val α)} (h : Holds w1 c xs) (hm : w2.mem = w1.mem) (hh : w2.hdr = w1.hdr) :
    Holds w2 c xs := by
  refine ⟨by rw [hh]; exact h.1, fun i hi => ?_⟩
  rw [hh, hm]; exact h.2 i hi

theorem appendRangeInputLoop_sat (cfg : Cfg) (c : Nat) (strong : Bool) (orig sid : Nat)
    (hpol : movesFor cfg true = true → cfg.tMove = false) :
    ∀ (xs : List α) (p : Nat) (w : World α), VecOK cfg w c → Ledger w → (w.hdr c).N ≤ cfg.maxSize → orig ≤ (w.hdr c).size →
    (appendRangeInputLoop cfg c strong orig sid p xs w).sat
      (fun _ w' => Basic cfg w w' c ∧ (∀ ys, Holds w c ys → Holds w' c (ys ++ xs.map Val.val)) ∧
                   iterEvs w'.trace = iterEvs w.trace ++ streamEvs sid p xs.length)
      (fun _ w' => Basic cfg w w' c ∧
                   (∀ ys, Holds w c ys → ∃ k, k < xs.length ∧
                      Holds w' c (if strong then ys.take orig else ys ++ (xs.take k).map Val.val) ∧
                      iterEvs w'.trace = iterEvs w.trace ++ streamEvs sid p k ++ [.deref sid (p + k)]))
  | [], p, w, hv, hl, _, _ => by
    show Basic cfg w w c ∧ _
    exact ⟨Basic.refl hv hl, fun ys h => by simpa using h, by simp [streamEvs]⟩
  | x :: xs, p, w, hv, hl, hN, ho => by
    unfold appendRangeInputLoop
    rw [bind_run, emit_run]
    simp only []
    generalize hw1 : ({ w with trace := w.trace ++ [Ev.deref sid p] } : World α) = w1
    have hm1 : w1.mem = w.mem := by subst hw1; rfl
    have hh1 : w1.hdr = w.hdr := by subst hw1; rfl
    have hb01 : Basic cfg w w1 c := (Basic.refl hv hl).of_trace_eq hl hv hm1 hh1 (by subst hw1; rfl) (by subst hw1; rfl) (by subst hw1; rfl) (by subst hw1; rfl) (by subst hw1; rfl)
    have htr1 : iterEvs w1.trace = iterEvs w.trace ++ [.deref sid p] := by subst hw1; simp [iterEvs, Ev.isIter]
    have hN1 : (w1.hdr c).N ≤ cfg.maxSize := by rw [hh1]; exact hN
    have happ := appendElement_sat cfg c (.ext x) w1 hb01.vec hb01.led hN1 (argOK_ext cfg w1 c x) hpol
    have hni := NoIter.appendElement cfg c (Src.ext x) (α := α) w1
    rw [bind_run]
    -- the (possibly guarded) append of this element
    have hstep : ((if strong = true then
          tryCatch (appendElement cfg c (.ext x))
            (fun e => getV c >>= fun v => eraseRange cfg c orig v.size >>= fun _ => throwE e)
        else appendElement cfg c (.ext x)) w1).sat
        (fun _ w2 => Pushed cfg w1 w2 c (.val x) ∧ iterEvs w2.trace = iterEvs w1.trace)
        (fun _ w2 => Basic cfg w1 w2 c ∧ iterEvs w2.trace = iterEvs w1.trace ∧
                     (∀ ys, Holds w1 c ys → Holds w2 c (if strong then ys.take orig else ys))) := by
      cases hr : appendElement cfg c (.ext x) w1 with
      | ok r w2 =>
        rw [hr] at happ hni
        have hok : (Res.ok r w2 : Res (World α) Nat).sat
            (fun _ w2 => Pushed cfg w1 w2 c (.val x) ∧ iterEvs w2.trace = iterEvs w1.trace) (fun _ _ => False) :=
          ⟨by simpa [srcVal] using happ.2, hni⟩
        cases strong
        · simp only [Bool.false_eq_true, if_false]; rw [hr]; exact hok
        · simp only [if_true]; rw [tryCatch_run, hr]; exact hok
      | thrown e w2 =>
        rw [hr] at happ hni
        simp only [Res.world] at hni
        cases strong
        · simp only [Bool.false_eq_true, if_false]; rw [hr]
          exact ⟨happ.basic hb01.led hb01.vec, hni, fun ys h => happ.holds hb01.led hb01.vec h⟩
        · simp only [if_true]; rw [tryCatch_run, hr]
          simp only []
          rw [bind_run, getV_run]
          simp only []
          have hv2 := happ.vecOK hb01.led hb01.vec
          have hsz2 : (w2.hdr c).size = (w.hdr c).size := by rw [happ.hdr, hh1]
          have her := eraseRange_end_sat cfg c orig w2 hv2 happ.led (by rw [hsz2]; exact ho)
          have hni2 := NoIter.eraseRange cfg c orig (w2.hdr c).size (α := α) w2
          rw [bind_run]
          cases hr2 : eraseRange cfg c orig (w2.hdr c).size w2 with
          | thrown e' w3 => rw [hr2] at her; exact her.elim
          | ok r3 w3 =>
            rw [hr2] at her hni2
            simp only [Res.world] at hni2
            show Basic cfg w1 w3 c ∧ _
            refine ⟨Basic.trans hb01.led hb01.vec (happ.basic hb01.led hb01.vec) her.basic, by rw [hni2, hni], fun ys h => ?_⟩
            exact her.holds ys (happ.holds hb01.led hb01.vec h)
    refine sat_bind hstep (fun _ w2 h2 => ?_) (fun e w2 h2 => ?_)
    · obtain ⟨hp2, htr2⟩ := h2
      rw [bind_run, emit_run]
      simp only []
      generalize hw3 : ({ w2 with trace := w2.trace ++ [Ev.incr sid p] } : World α) = w3
      have hm3 : w3.mem = w2.mem := by subst hw3; rfl
      have hh3 : w3.hdr = w2.hdr := by subst hw3; rfl
      have hb13 : Basic cfg w1 w3 c := (⟨hp2.vec, hp2.led, hp2.ub, hp2.frame⟩ : Basic cfg w1 w2 c).of_trace_eq hb01.led hb01.vec hm3 hh3
        (by subst hw3; rfl) (by subst hw3; rfl) (by subst hw3; rfl) (by subst hw3; rfl) (by subst hw3; rfl)
      have hb03 := Basic.trans hl hv hb01 hb13
      have htr3 : iterEvs w3.trace = iterEvs w.trace ++ [.deref sid p, .incr sid p] := by
        subst hw3; show iterEvs (w2.trace ++ [Ev.incr sid p]) = _
        rw [iterEvs_append, htr2, htr1]; simp [iterEvs, Ev.isIter]
      have hN3 : (w3.hdr c).N ≤ cfg.maxSize := by rw [hb03.frame.hdr_N]; exact hN
      have ho3 : orig ≤ (w3.hdr c).size := by rw [hh3, hp2.size, hh1]; omega
      refine Res.sat_mono (appendRangeInputLoop_sat cfg c strong orig sid hpol xs (p + 1) w3 hb03.vec hb03.led hN3 ho3) ?_ ?_
      · intro _ w' ⟨hb, hh, htr⟩
        refine ⟨Basic.trans hl hv hb03 hb, ?_, ?_⟩
        · intro ys hy
          have h1 : Holds w1 c ys := holds_of_same hy hm1 hh1
          have h3 : Holds w3 c (ys ++ [.val x]) := holds_of_same (hp2.holds ys h1) hm3 hh3
          have := hh _ h3
          simpa using this
        · rw [htr, htr3]; simp [streamEvs]
      · intro _ w' ⟨hb, hh⟩
        refine ⟨Basic.trans hl hv hb03 hb, ?_⟩
        intro ys hy
        have h1 : Holds w1 c ys := holds_of_same hy hm1 hh1
        have h3 : Holds w3 c (ys ++ [.val x]) := holds_of_same (hp2.holds ys h1) hm3 hh3
        obtain ⟨k, hk, hhold, htr⟩ := hh _ h3
        refine ⟨k + 1, by simp; omega, ?_, ?_⟩
        · cases strong
          · simp only [Bool.false_eq_true, if_false] at hhold ⊢
            simpa using hhold
          · simp only [if_true] at hhold ⊢
            have hlen : orig ≤ ys.length := by rw [hy.1]; exact ho
            rw [List.take_append_of_le_length hlen] at hhold; exact hhold
        · rw [htr, htr3]; simp [streamEvs, Nat.add_assoc, Nat.add_comm 1 k]
    · obtain ⟨hb2, htr2, hh2⟩ := h2
      refine ⟨Basic.trans hl hv hb01 hb2, ?_⟩
      intro ys hy
      have h1 : Holds w1 c ys := holds_of_same hy hm1 hh1
      refine ⟨0, by simp, ?_, ?_⟩
      · have := hh2 ys h1
        cases strong
        · simpa using this
        · simpa using this
      · rw [htr2, htr1]; simp [streamEvs]

end SvModel
