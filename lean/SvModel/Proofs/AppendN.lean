/-
Multi-element append: `append_copies`, `append_range` (forward), `resize_with` — the in-place kernel (construct at the
end, self-cleaning) and the reallocating kernel `appendRealloc` (allocate, build the new elements, relocate, roll back).
-/
import SvModel.Proofs.Capacity
import SvModel.Spec.L0

namespace SvModel
open Gen
variable {α : Type}

/-- a list of element sources that are external values or copies of the container's own live elements -/
structure ArgsOK (cfg : Cfg) (w : World α) (c : Nat) (srcs : List (Src α)) : Prop where
  nonmoving : NonMoving cfg srcs
  live      : ∀ s ∈ srcs, SrcLive w s
  inside    : ∀ s ∈ srcs, ∀ b i, s.loc = some (b, i) → b = (w.hdr c).data ∧ i < (w.hdr c).size

/-- what the append family needs of its sources: not modified by being read, alive, and in blocks that exist already
    (so that the block a reallocation creates is none of them) — own elements (aliasing arguments), elements of ANOTHER
    container (`append (other)`), or values from outside -/
structure SrcsOK (cfg : Cfg) (w : World α) (srcs : List (Src α)) : Prop where
  nonmoving : NonMoving cfg srcs
  live      : ∀ s ∈ srcs, SrcLive w s
  below     : ∀ s ∈ srcs, ∀ b i, s.loc = some (b, i) → b < w.next

theorem ArgsOK.srcs {cfg : Cfg} {w : World α} {c : Nat} {srcs : List (Src α)} (ha : ArgsOK cfg w c srcs) (hv : VecOK cfg w c) (hl : Ledger w) :
    SrcsOK cfg w srcs :=
  ⟨ha.nonmoving, ha.live, fun s hs b i hl' => by rw [(ha.inside s hs b i hl').1]; exact hv.data_lt_next hl⟩

/-- outcome of a successful append of the values `vals` -/
structure Appended (cfg : Cfg) (w w' : World α) (c : Nat) (vals : List (Val α)) : Prop where
  basic : Basic cfg w w' c
  holds : ∀ xs, Holds w c xs → Holds w' c (xs ++ vals)
  size  : (w'.hdr c).size = (w.hdr c).size + vals.length
  alloc : (w'.hdr c).alloc = (w.hdr c).alloc
  inplace : (w.hdr c).size + vals.length ≤ (w.hdr c).cap →
              (w'.hdr c).data = (w.hdr c).data ∧ (w'.hdr c).cap = (w.hdr c).cap ∧ w'.next = w.next ∧ w'.live = w.live ∧
              ∀ i, i < (w.hdr c).size → (w'.mem (w.hdr c).data)[i]? = (w.mem (w.hdr c).data)[i]?
  grown : ¬ (w.hdr c).size + vals.length ≤ (w.hdr c).cap →
              (w'.hdr c).data = w.next ∧ (w'.hdr c).cap = newCapacity cfg.maxSize (w.hdr c).cap ((w.hdr c).size + vals.length)

theorem holds_append_of_slots {w w' : World α} {c : Nat} {xs vals : List (Val α)} {d n : Nat}
    (hx : Holds w c xs) (hn : n = (w.hdr c).size)
    (hsize : (w'.hdr c).size = n + vals.length) (hdata : (w'.hdr c).data = d)
    (hold : ∀ i, i < n → (w'.mem d)[i]? = (w.mem (w.hdr c).data)[i]?)
    (hnew : ∀ k (h : k < vals.length), (w'.mem d)[n + k]? = some (.obj vals[k])) :
    Holds w' c (xs ++ vals) := by
  obtain ⟨hxl, hxv⟩ := hx
  have hlen : xs.length = n := by rw [hn]; exact hxl
  refine ⟨by rw [hsize, hn]; simp [hxl], ?_⟩
  intro i hi
  rw [hdata]
  by_cases h : i < xs.length
  · rw [hold i (by omega), hxv i h]; simp [List.getElem_append_left h]
  · subst hlen
    have hk : i - xs.length < vals.length := by simp only [List.length_append] at hi; omega
    have := hnew (i - xs.length) hk
    rw [show xs.length + (i - xs.length) = i by omega] at this
    rw [this]
    simp only [List.getElem_append_right (by omega : xs.length ≤ i)]

/-- construct `srcs` in the spare capacity at the end; self-cleaning, so a throw leaves the world as it was -/
theorem appendInPlace_sat (cfg : Cfg) (c : Nat) (srcs : List (Src α)) (w : World α)
    (hv : VecOK cfg w c) (hl : Ledger w) (hfit : (w.hdr c).size + srcs.length ≤ (w.hdr c).cap) (ha : SrcsOK cfg w srcs) :
    ((uninitGen cfg (w.hdr c).data (w.hdr c).size 0 srcs >>= fun _ =>
        setSize c ((w.hdr c).size + srcs.length) >>= fun _ => (pure (w.hdr c).size : M α Nat)) w).sat
      (fun r w' => r = (w.hdr c).size ∧ Appended cfg w w' c (srcs.map (srcVal w)))
      (fun _ w' => Strong w w') := by
  have hraw : ∀ k, k < srcs.length → IsRaw w (w.hdr c).data ((w.hdr c).size + 0 + k) :=
    fun k hk => hv.raws _ (by omega) (by omega)
  refine sat_bind (uninitGen_nonmoving_sat cfg _ _ srcs 0 w ha.nonmoving ha.live (fun j h => by omega) hraw) (fun _ w1 h1 => ?_) ?_
  · obtain ⟨hc1, hv1, hrest1⟩ := h1
    unfold setSize
    rw [bind_run, modV_run]
    simp only []
    generalize hw2 : ({ w1 with hdr := upd w1.hdr c { w1.hdr c with size := (w.hdr c).size + srcs.length } } : World α) = w2
    have hmem2 : w2.mem = w1.mem := by subst hw2; rfl
    have hhdr2 : w2.hdr = upd w.hdr c { w.hdr c with size := (w.hdr c).size + srcs.length } := by
      subst hw2; show upd w1.hdr _ _ = _; rw [hc1.hdr]
    have hc02 : Ctl0 w w2 := by
      have := hc1.to0
      subst hw2
      exact ⟨this.owner, this.live, this.next, this.ub, this.ntmp, this.len⟩
    have hslot : ∀ (b i : Nat), ¬ (b = (w.hdr c).data ∧ (w.hdr c).size ≤ i ∧ i < (w.hdr c).size + srcs.length) →
        (w2.mem b)[i]? = (w.mem b)[i]? := by
      intro b i h; rw [hmem2]; exact hrest1 b i (by simpa using h)
    have hnew : ∀ k (h : k < srcs.length), (w2.mem (w.hdr c).data)[(w.hdr c).size + k]? = some (.obj (srcVal w srcs[k])) := by
      intro k hk; rw [hmem2]; simpa using hv1 k hk
    obtain ⟨hvec, hled, hframe⟩ := inplace_ok cfg hv hl hc02 hhdr2 hfit
      (fun i hi => by
        by_cases h : i < (w.hdr c).size
        · exact isObj_of_eq (hslot _ i (by intro ⟨_, h', _⟩; omega)) (hv.objs i h)
        · have := hnew (i - (w.hdr c).size) (by omega)
          rw [show (w.hdr c).size + (i - (w.hdr c).size) = i by omega] at this
          exact ⟨_, this⟩)
      (fun i h1 h2 => isRaw_of_eq (hslot _ i (by intro ⟨_, _, h'⟩; omega)) (hv.raws i (by omega) h2))
      (fun b i hb _ => hslot b i (by intro ⟨h', _, _⟩; exact hb h'))
    have hhc : w2.hdr c = { w.hdr c with size := (w.hdr c).size + srcs.length } := by rw [hhdr2]; simp
    show (w.hdr c).size = (w.hdr c).size ∧ _
    refine ⟨rfl, ⟨hvec, hled, hc02.ub, hframe⟩, ?_, by rw [hhc]; simp, by rw [hhc], ?_, ?_⟩
    · intro xs hx
      exact holds_append_of_slots hx rfl (by rw [hhc]; simp) (by rw [hhc])
        (fun i hi => hslot _ i (by intro ⟨_, h', _⟩; omega))
        (fun k hk => by
          have hk' : k < srcs.length := by simpa using hk
          rw [hnew k hk']; simp)
    · intro _
      refine ⟨by rw [hhc], by rw [hhc], hc02.next, hc02.live, ?_⟩
      intro i hi
      exact hslot _ i (by intro ⟨_, h', _⟩; omega)
    · intro h; simp at h; omega
  · intro e w1 ⟨_, hc1, hr1, hrest1⟩
    refine Strong.of_slots hl hc1 ?_
    intro b i
    by_cases h : b = (w.hdr c).data ∧ (w.hdr c).size ≤ i ∧ i < (w.hdr c).size + 0 + srcs.length
    · obtain ⟨hb, h1, h2⟩ := h
      subst hb
      have a := hr1 i h1 h2
      have b' := hv.raws i h1 (by omega)
      rw [IsRaw] at a b'; rw [a, b']
    · exact hrest1 b i h

/-- roll-back of a reallocating path when the old buffer was only shape-preserved (moved-from elements possible):
    basic guarantee -/
theorem abort_realloc_basic {cfg : Cfg} {w w4 : World α} {c ncap : Nat} (hv : VecOK cfg w c) (hl : Ledger w)
    (hb : Built cfg w w4 c ncap) (hrawNew : ∀ i, i < ncap → IsRaw w4 w.next i) :
    ∃ w', deallocate (w.hdr c).alloc w.next ncap w4 = .ok () w' ∧ Basic cfg w w' c ∧ w'.hdr = w.hdr ∧ w'.live = w.live := by
  have hin : w.next ∈ w4.live := by rw [hb.live]; simp
  have hown : w4.owner w.next = (w.hdr c).alloc := by rw [hb.owner]; simp
  refine ⟨_, deallocate_run _ _ _ w4 hin hb.lenNew hrawNew hown, ?_, hb.hdr, ?_⟩
  · generalize hw5 : ({ w4 with mem := upd w4.mem w.next [], live := w4.live.erase w.next,
                                  trace := w4.trace ++ [Ev.dealloc w.next ncap (w.hdr c).alloc] } : World α) = w5
    have hnl := hl.next_ok
    obtain ⟨hnd, hni⟩ := hv.next_ne hl
    have hmem5 : ∀ b, b ≠ w.next → w5.mem b = w4.mem b := fun b hb' => by subst hw5; show upd w4.mem _ [] b = _; rw [upd_other _ _ _ _ hb']
    have hlive5 : w5.live = w.live := by subst hw5; show w4.live.erase _ = _; rw [hb.live, List.erase_cons_head]
    have hh5 : w5.hdr = w.hdr := by subst hw5; exact hb.hdr
    have hslots : ∀ (b i : Nat), b ≠ w.next → ¬ (b = (w.hdr c).data ∧ i < (w.hdr c).size) → (w5.mem b)[i]? = (w.mem b)[i]? := by
      intro b i h1 h2; rw [hmem5 b h1]; exact hb.other b i h1 h2
    have hlen : ∀ b, b ≠ w.next → (w5.mem b).length = (w.mem b).length := fun b h => by rw [hmem5 b h]; exact hb.lenOld b h
    have hvec : VecOK cfg w5 c := by
      refine hv.transfer (by rw [hh5]) (hlen _ (Ne.symm hnd)) ?_ ?_ ?_ ?_
      · intro i hi; unfold IsObj; rw [hmem5 _ (Ne.symm hnd)]; exact hb.objs i hi
      · intro i h1 h2; exact isRaw_of_eq (hslots _ i (Ne.symm hnd) (by intro ⟨_, h⟩; omega)) (hv.raws i h1 h2)
      · intro hne
        obtain ⟨a1, a2⟩ := hv.heap hne
        refine ⟨by rw [hlive5]; exact a1, ?_⟩
        subst hw5; show w4.owner _ = _; rw [hb.owner, upd_other _ _ _ _ (Ne.symm hnd)]; exact a2
      · intro hne
        obtain ⟨a1, a2⟩ := hv.idle hne
        exact ⟨by rw [hlen _ (Ne.symm hni)]; exact a1,
               fun i hi => isRaw_of_eq (hslots _ i (Ne.symm hni) (by intro ⟨h', _⟩; exact hne h'.symm)) (a2 i hi)⟩
    have hled : Ledger w5 := by
      refine ⟨by subst hw5; show w4.next % 2 = 1 ∧ _; rw [hb.next]; omega,
              by subst hw5; show w4.ntmp % 2 = 0 ∧ _; rw [hb.ntmp]; exact hl.ntmp_ok, ?_, by rw [hlive5]; exact hl.nodup, ?_, ?_⟩
      · intro b hbl; rw [hlive5] at hbl
        have := hl.live_ok b hbl
        have hn5 : w5.next = w.next + 2 := by subst hw5; exact hb.next
        rw [hn5]; omega
      · intro b h1 h2 h3
        by_cases hbn : b = w.next
        · subst hbn; subst hw5; show upd w4.mem _ [] _ = []; simp
        · rw [hlive5] at h3
          have := hl.freed b h1 h2 h3
          have hl' := hlen b hbn
          rw [this] at hl'
          exact List.eq_nil_of_length_eq_zero (by simpa using hl')
      · intro b h1 h2
        have hnt : w5.ntmp = w.ntmp := by subst hw5; exact hb.ntmp
        rw [hnt] at h1
        have hbn : b ≠ w.next := by omega
        have := hl.tmpfresh b h1 h2
        have hl' := hlen b hbn
        rw [this] at hl'
        exact List.eq_nil_of_length_eq_zero (by simpa using hl')
    refine ⟨hvec, hled, by subst hw5; exact hb.ub, ?_⟩
    refine ⟨fun d _ => by rw [hh5], by rw [hh5], by rw [hh5], ?_, ?_, ?_, Or.inl (by rw [hh5]),
            LiveAcc.of_same hl hv hlive5 (by rw [hh5])⟩
    · intro b h1 _ h3 _
      have hbn : b ≠ w.next := by omega
      apply mem_eq_of_slots (hlen b hbn)
      intro i; exact hslots b i hbn (by intro ⟨h, _⟩; exact h1 h)
    · intro b hb'; subst hw5; show w4.owner b = _; rw [hb.owner, upd_other _ _ _ _ (by omega)]
    · subst hw5; show w.next ≤ w4.next; rw [hb.next]; omega
  · show w4.live.erase w.next = w.live
    rw [hb.live, List.erase_cons_head]

/-- the reallocating append kernel -/
theorem appendRealloc_sat (cfg : Cfg) (c : Nat) (strong : Bool) (srcs : List (Src α)) (w : World α)
    (hv : VecOK cfg w c) (hl : Ledger w) (hNmax : (w.hdr c).N ≤ cfg.maxSize)
    (hgrow : (w.hdr c).cap < (w.hdr c).size + srcs.length) (hmax : (w.hdr c).size + srcs.length ≤ cfg.maxSize)
    (ha : SrcsOK cfg w srcs) (hstrong : strong = true → movesFor cfg true = true → cfg.tMove = false) :
    (appendRealloc cfg c strong srcs w).sat
      (fun r w' => r = (w.hdr c).size ∧ Appended cfg w w' c (srcs.map (srcVal w)))
      (fun _ w' => (strong = true → Strong w w') ∧ Basic cfg w w' c ∧ w'.hdr c = w.hdr c ∧ w'.live = w.live) := by
  unfold appendRealloc
  rw [bind_run, getV_run]
  simp only []
  generalize hncap : newCapacity cfg.maxSize (w.hdr c).cap ((w.hdr c).size + srcs.length) = ncap
  obtain ⟨hge, hle⟩ : (w.hdr c).size + srcs.length ≤ ncap ∧ ncap ≤ cfg.maxSize := by
    rw [← hncap]; exact newCapacity_bounds _ _ _ hgrow hmax
  obtain ⟨hnd, hni⟩ := hv.next_ne hl
  have hN : (w.hdr c).N < ncap := by have := hv.cap_ge; omega
  have strongOut : ∀ w', Strong w w' → (strong = true → Strong w w') ∧ Basic cfg w w' c ∧ w'.hdr c = w.hdr c ∧ w'.live = w.live :=
    fun w' h => ⟨fun _ => h, h.basic hl hv, by rw [h.hdr], h.live⟩
  refine sat_bind (allocate_sat cfg (w.hdr c).alloc ncap w) (fun nb w2 h2 => ?_) (fun e w2 h => strongOut _ (Strong.of_quiet hl h.2))
  obtain ⟨hnb, hm2, ho2, hlv2, hn2, hh2, ht2, hu2⟩ := h2
  subst hnb
  obtain ⟨hb2, hraw2, hoth2⟩ := Built.of_alloc (c := c) hv hl hm2 ho2 hlv2 hn2 hh2 ht2 hu2
  have hdata2 : w2.mem (w.hdr c).data = w.mem (w.hdr c).data := hoth2 _ (Ne.symm hnd)
  have hlive2 : ∀ s ∈ srcs, SrcLive w2 s := by
    intro s hs b i hl'
    have hb' := ha.below s hs b i hl'
    obtain ⟨v, hv'⟩ := ha.live s hs b i hl'
    exact ⟨v, by rw [hoth2 b (by omega)]; exact hv'⟩
  have hsv2 : ∀ s ∈ srcs, srcVal w2 s = srcVal w s := fun s hs =>
    srcVal_congr w w2 s (fun b i hl' => by rw [hoth2 b (by have := ha.below s hs b i hl'; omega)])
  -- 1. build the new elements
  have hfill := uninitGen_nonmoving_sat cfg w.next (w.hdr c).size srcs 0 w2 ha.nonmoving hlive2 (fun j h => by omega)
    (fun k hk => hraw2 _ (by omega))
  refine sat_bind (sat_tryCatch (Q := fun _ w3 => Built cfg w w3 c ncap ∧
      (∀ k (h : k < srcs.length), (w3.mem w.next)[(w.hdr c).size + k]? = some (.obj (srcVal w srcs[k]))) ∧
      (∀ i, i < ncap → ¬ ((w.hdr c).size ≤ i ∧ i < (w.hdr c).size + srcs.length) → IsRaw w3 w.next i) ∧
      (∀ i : Nat, (w3.mem (w.hdr c).data)[i]? = (w.mem (w.hdr c).data)[i]?))
      (E := fun _ w' => (strong = true → Strong w w') ∧ Basic cfg w w' c ∧ w'.hdr c = w.hdr c ∧ w'.live = w.live)
      (Res.sat_mono hfill ?_ (fun _ _ h => h)) ?_) ?_ (fun _ _ h => h)
  · intro _ w3 ⟨hc3, hv3, hrest3⟩
    have hb3 : Built cfg w w3 c ncap := hb2.step hc3
      (fun i hi => isObj_of_eq (hrest3 _ i (by intro ⟨h, _, _⟩; exact hnd h.symm)) (hb2.objs i hi))
      (fun b i hb' _ => hrest3 b i (by intro ⟨h, _, _⟩; exact hb' h))
    refine ⟨hb3, ?_, ?_, ?_⟩
    · intro k hk
      have := hv3 k hk
      simp only [Nat.add_zero] at this
      rw [this, hsv2 _ (List.getElem_mem hk)]
    · intro i hi hn
      exact isRaw_of_eq (hrest3 _ i (by intro ⟨_, h1, h2⟩; exact hn ⟨by omega, by omega⟩)) (hraw2 i hi)
    · intro i
      rw [hrest3 _ i (by intro ⟨h, _, _⟩; exact hnd h.symm), hdata2]
  · -- building threw: everything is raw again
    intro e w3 ⟨_, hc3, hr3, hrest3⟩
    have hb3 : Built cfg w w3 c ncap := hb2.step hc3
      (fun i hi => isObj_of_eq (hrest3 _ i (by intro ⟨h, _, _⟩; exact hnd h.symm)) (hb2.objs i hi))
      (fun b i hb' _ => hrest3 b i (by intro ⟨h, _, _⟩; exact hb' h))
    obtain ⟨w6, hd, hs6⟩ := abort_realloc hv hl hb3
      (fun i _ => by rw [hrest3 _ i (by intro ⟨h, _, _⟩; exact hnd h.symm), hdata2])
      (fun i hi => by
        by_cases h : (w.hdr c).size ≤ i ∧ i < (w.hdr c).size + 0 + srcs.length
        · exact hr3 i h.1 h.2
        · exact isRaw_of_eq (hrest3 _ i (by intro ⟨_, h1, h2⟩; exact h ⟨h1, h2⟩)) (hraw2 i hi))
    rw [bind_run, hd]
    exact strongOut _ hs6
  · -- 2. relocate the old elements
    intro _ w3 ⟨hb3, hnew3, hraw3, hdata3⟩
    have hmv := uninitializedMove_sat cfg strong (w.hdr c).data 0 (w.hdr c).size w.next 0 w3
      (fun k hk => by simpa using hb3.objs k hk)
      (fun k hk => by simpa using hraw3 k (by omega) (by intro ⟨h, _⟩; omega))
    refine sat_bind (sat_tryCatch (Q := fun _ w4 => Built cfg w w4 c ncap ∧
        (∀ i, i < (w.hdr c).size → (w4.mem w.next)[i]? = (w.mem (w.hdr c).data)[i]?) ∧
        (∀ k (h : k < srcs.length), (w4.mem w.next)[(w.hdr c).size + k]? = some (.obj (srcVal w srcs[k]))) ∧
        (∀ i, (w.hdr c).size + srcs.length ≤ i → i < ncap → IsRaw w4 w.next i))
        (E := fun _ w' => (strong = true → Strong w w') ∧ Basic cfg w w' c ∧ w'.hdr c = w.hdr c ∧ w'.live = w.live)
        (Res.sat_mono hmv ?_ (fun _ _ h => h)) ?_) ?_ (fun _ _ h => h)
    · intro _ w4 hr
      have hb4 : Built cfg w w4 c ncap := hb3.step hr.ctl (fun i hi => by simpa using hr.src i hi)
        (fun b i hb' hn' => hr.rest b i (by intro ⟨h, _, _⟩; exact hb' h) (by intro ⟨h1, _, h3⟩; exact hn' ⟨h1, by omega⟩))
      refine ⟨hb4, ?_, ?_, ?_⟩
      · intro i hi
        have := hr.dst i hi
        simp only [Nat.zero_add] at this
        rw [this, hdata3]
      · intro k hk
        rw [hr.rest _ _ (by intro ⟨_, _, h⟩; omega) (by intro ⟨h, _, _⟩; exact hnd h)]; exact hnew3 k hk
      · intro i h1 h2
        exact isRaw_of_eq (hr.rest _ i (by intro ⟨_, _, h⟩; omega) (by intro ⟨h, _, _⟩; exact hnd h)) (hraw3 i h2 (by intro ⟨_, h⟩; omega))
    · -- relocation threw: destroy the new elements, give the block back
      intro e w4 ⟨_, hf⟩
      have hb4 : Built cfg w w4 c ncap := hb3.step hf.ctl (fun i hi => by simpa using hf.src i hi)
        (fun b i hb' hn' => hf.rest b i (by intro ⟨h, _, _⟩; exact hb' h) (by intro ⟨h1, _, h3⟩; exact hn' ⟨h1, by omega⟩))
      have hobj4 : ∀ i, (w.hdr c).size ≤ i → i < (w.hdr c).size + srcs.length → IsObj w4 w.next i := by
        intro i h1 h2
        have := hnew3 (i - (w.hdr c).size) (by omega)
        rw [show (w.hdr c).size + (i - (w.hdr c).size) = i by omega] at this
        exact ⟨_, by rw [hf.rest _ i (by intro ⟨_, _, h⟩; omega) (by intro ⟨h, _, _⟩; exact hnd h)]; exact this⟩
      refine sat_bind (destroyRange_sat cfg w.next srcs.length (w.hdr c).size w4 hobj4) (fun _ w5 h5 => ?_) (fun _ _ h => h.elim)
      obtain ⟨hc5, hr5, hrest5⟩ := h5
      have hb5 : Built cfg w w5 c ncap := hb4.step hc5
        (fun i hi => isObj_of_eq (hrest5 _ i (by intro ⟨h, _, _⟩; exact hnd h.symm)) (hb4.objs i hi))
        (fun b i hb' _ => hrest5 b i (by intro ⟨h, _, _⟩; exact hb' h))
      have hraw5 : ∀ i, i < ncap → IsRaw w5 w.next i := by
        intro i hi
        by_cases h1 : (w.hdr c).size ≤ i ∧ i < (w.hdr c).size + srcs.length
        · exact hr5 i h1.1 h1.2
        · refine isRaw_of_eq (hrest5 _ i (by intro ⟨_, a, b⟩; exact h1 ⟨a, b⟩)) ?_
          by_cases h2 : i < (w.hdr c).size
          · simpa using hf.dst i h2
          · exact isRaw_of_eq (hf.rest _ i (by intro ⟨_, _, h⟩; omega) (by intro ⟨h, _, _⟩; exact hnd h)) (hraw3 i hi h1)
      by_cases hst : strong = true ∧ movesFor cfg strong = false
      · obtain ⟨w6, hd, hs6⟩ := abort_realloc hv hl hb5
          (fun i hi => by
            rw [hrest5 _ i (by intro ⟨h, _, _⟩; exact hnd h.symm)]
            have := hf.kept hst.2 i hi
            simp only [Nat.zero_add] at this
            rw [this, hdata3]) hraw5
        rw [bind_run, hd]
        exact strongOut _ hs6
      · obtain ⟨w6, hd, hbs, hh6, hlv6⟩ := abort_realloc_basic hv hl hb5 hraw5
        rw [bind_run, hd]
        refine ⟨fun hs => ?_, hbs, by rw [hh6], hlv6⟩
        exfalso
        subst hs
        have hm : movesFor cfg true = true := by
          cases hm : movesFor cfg true with
          | true => rfl
          | false => exact absurd ⟨rfl, hm⟩ hst
        have h1 := hstrong rfl hm
        have h2 := hf.can
        rw [hm] at h2; simp only [if_true] at h2
        rw [h1] at h2; cases h2
    · -- 3. reset_data
      intro _ w4 ⟨hb4, hcopy4, hnew4, hraw4⟩
      have hfin := finish_realloc (n' := (w.hdr c).size + srcs.length) hv hl hb4 hN hle hge
        (fun i hi => by
          by_cases h : i < (w.hdr c).size
          · exact isObj_of_eq (hcopy4 i h) (hv.objs i h)
          · have := hnew4 (i - (w.hdr c).size) (by omega)
            rw [show (w.hdr c).size + (i - (w.hdr c).size) = i by omega] at this
            exact ⟨_, this⟩)
        hraw4
      refine sat_bind hfin (fun _ w' h' => ?_) (fun _ _ h => h.elim)
      obtain ⟨hvec, hled, hframe, hub, hhc, hmemn, hnext⟩ := h'
      show (w.hdr c).size = (w.hdr c).size ∧ _
      refine ⟨rfl, ⟨hvec, hled, hub, hframe⟩, ?_, by rw [hhc]; simp, by rw [hhc], fun h => by simp at h; omega,
              fun _ => ⟨by rw [hhc], by rw [hhc]; simp [hncap]⟩⟩
      intro xs hx
      exact holds_append_of_slots hx rfl (by rw [hhc]; simp) (by rw [hhc])
        (fun i hi => by rw [hmemn]; exact hcopy4 i hi)
        (fun k hk => by
          have hk' : k < srcs.length := by simpa using hk
          rw [hmemn, hnew4 k hk']; simp)

theorem VecOK.cap_le_max {cfg : Cfg} {w : World α} {c : Nat} (hv : VecOK cfg w c) (hNmax : (w.hdr c).N ≤ cfg.maxSize) :
    (w.hdr c).cap ≤ cfg.maxSize := by
  have := hv.cap_max; rw [Nat.max_eq_left hNmax] at this; exact this

/-- what every append-style operation guarantees when it exits by an exception:
    strong guarantee under the strong relocation policy, basic guarantee with the header unchanged otherwise -/
def AppendFail (cfg : Cfg) (strong : Bool) (w w' : World α) (c : Nat) : Prop :=
  (strong = true → Strong w w') ∧ Basic cfg w w' c ∧ w'.hdr c = w.hdr c ∧ w'.live = w.live

theorem AppendFail.of_strong {cfg : Cfg} {strong : Bool} {w w' : World α} {c : Nat} (hl : Ledger w) (hv : VecOK cfg w c)
    (h : Strong w w') : AppendFail cfg strong w w' c := ⟨fun _ => h, h.basic hl hv, by rw [h.hdr], h.live⟩

/-- append of the sources `srcs` at the end (the common body of append_copies and append_range for forward ranges):
    in place when the spare capacity suffices, otherwise length_error or reallocation -/
theorem appendSrcs_sat (cfg : Cfg) (c : Nat) (strong : Bool) (srcs : List (Src α)) (w : World α)
    (hv : VecOK cfg w c) (hl : Ledger w) (hNmax : (w.hdr c).N ≤ cfg.maxSize)
    (ha : SrcsOK cfg w srcs) (hstrong : strong = true → movesFor cfg true = true → cfg.tMove = false) :
    ((if decide ((w.hdr c).cap - (w.hdr c).size < srcs.length) = true then
        (if decide (cfg.maxSize - (w.hdr c).size < srcs.length) = true then throwE .length else appendRealloc cfg c strong srcs)
      else
        uninitGen cfg (w.hdr c).data (w.hdr c).size 0 srcs >>= fun _ =>
        setSize c ((w.hdr c).size + srcs.length) >>= fun _ => pure (w.hdr c).size : M α Nat) w).sat
      (fun r w' => r = (w.hdr c).size ∧ Appended cfg w w' c (srcs.map (srcVal w)))
      (fun _ w' => AppendFail cfg strong w w' c) := by
  have hsl := hv.size_le
  have hcm := hv.cap_le_max hNmax
  by_cases h0 : (w.hdr c).cap - (w.hdr c).size < srcs.length
  · rw [if_pos (decide_eq_true h0)]
    by_cases h1 : cfg.maxSize - (w.hdr c).size < srcs.length
    · rw [if_pos (decide_eq_true h1)]
      exact AppendFail.of_strong hl hv (Strong.refl hl)
    · rw [if_neg (by simpa using h1)]
      exact appendRealloc_sat cfg c strong srcs w hv hl hNmax (by omega) (by omega) ha hstrong
  · rw [if_neg (by simpa using h0)]
    exact Res.sat_mono (appendInPlace_sat cfg c srcs w hv hl (by omega) ha) (fun _ _ h => h)
      (fun _ _ h => AppendFail.of_strong hl hv h)

theorem argsOK_replicate {cfg : Cfg} {w : World α} {c : Nat} {s : Src α} (n : Nat) (ha : ArgOK cfg w c s) :
    ArgsOK cfg w c (List.replicate n s) :=
  ⟨fun s' hs' => by rw [List.eq_of_mem_replicate hs']; exact ha.nonmoving,
   fun s' hs' => by rw [List.eq_of_mem_replicate hs']; exact ha.live,
   fun s' hs' => by rw [List.eq_of_mem_replicate hs']; exact ha.inside⟩

theorem map_srcVal_replicate (w : World α) (n : Nat) (s : Src α) :
    (List.replicate n s).map (srcVal w) = List.replicate n (srcVal w s) := by simp

/-- append_copies (insert(end, n, x) for n ≠ 1, and the tail of resize) -/
theorem appendCopies_sat (cfg : Cfg) (c count : Nat) (s : Src α) (w : World α)
    (hv : VecOK cfg w c) (hl : Ledger w) (hNmax : (w.hdr c).N ≤ cfg.maxSize) (ha : ArgOK cfg w c s) :
    (appendCopies cfg c count s w).sat
      (fun r w' => r = (w.hdr c).size ∧ Appended cfg w w' c (List.replicate count (srcVal w s)))
      (fun _ w' => AppendFail cfg false w w' c) := by
  unfold appendCopies
  rw [bind_run, getV_run]
  simp only []
  have e0 : guard_appendCopies_0 { genv cfg (w.hdr c) with count := count } = decide ((w.hdr c).cap - (w.hdr c).size < count) := rfl
  have e1 : guard_appendCopies_1 { genv cfg (w.hdr c) with count := count } = decide (cfg.maxSize - (w.hdr c).size < count) := rfl
  rw [e0, e1]
  have := appendSrcs_sat cfg c false (List.replicate count s) w hv hl hNmax ((argsOK_replicate count ha).srcs hv hl) (fun h => by cases h)
  simp only [List.length_replicate, map_srcVal_replicate] at this
  exact this

theorem argsOK_ext (cfg : Cfg) (w : World α) (c : Nat) (vs : List α) : ArgsOK cfg w c (vs.map Src.ext) :=
  ⟨fun s hs => by obtain ⟨a, _, rfl⟩ := List.mem_map.mp hs; rfl,
   fun s hs => by obtain ⟨a, _, rfl⟩ := List.mem_map.mp hs; intro _ _ h; simp [Src.loc] at h,
   fun s hs => by obtain ⟨a, _, rfl⟩ := List.mem_map.mp hs; intro _ _ h; simp [Src.loc] at h⟩

/-- append_range for forward iterators; `strong` = the public `append` (strong policy), false = insert(end, first, last) -/
theorem appendRangeFwd_sat (cfg : Cfg) (c : Nat) (strong : Bool) (srcs : List (Src α)) (w : World α)
    (hv : VecOK cfg w c) (hl : Ledger w) (hNmax : (w.hdr c).N ≤ cfg.maxSize)
    (ha : SrcsOK cfg w srcs) (hstrong : strong = true → movesFor cfg true = true → cfg.tMove = false) :
    (appendRangeFwd cfg c strong srcs w).sat
      (fun r w' => r = (w.hdr c).size ∧ Appended cfg w w' c (srcs.map (srcVal w)))
      (fun _ w' => AppendFail cfg strong w w' c) := by
  unfold appendRangeFwd
  rw [bind_run, getV_run]
  simp only []
  have e0 : guard_appendRange2_0 { genv cfg (w.hdr c) with numInsert := srcs.length } = decide ((w.hdr c).cap - (w.hdr c).size < srcs.length) := rfl
  have e1 : guard_appendRange2_1 { genv cfg (w.hdr c) with numInsert := srcs.length } = decide (cfg.maxSize - (w.hdr c).size < srcs.length) := rfl
  rw [e0, e1]
  exact appendSrcs_sat cfg c strong srcs w hv hl hNmax ha hstrong

/-- outcome of a successful resize to `n` with fill value `x` -/
structure Resized (cfg : Cfg) (w w' : World α) (c n : Nat) (x : Val α) : Prop where
  basic : Basic cfg w w' c
  holds : ∀ xs, Holds w c xs → Holds w' c (L0.resize xs n x)
  size  : (w'.hdr c).size = n
  alloc : (w'.hdr c).alloc = (w.hdr c).alloc
  fits  : n ≤ (w.hdr c).cap → (w'.hdr c).data = (w.hdr c).data ∧ (w'.hdr c).cap = (w.hdr c).cap ∧ w'.next = w.next ∧ w'.live = w.live

theorem moveLeft_zero (cfg : Cfg) (b first dfirst : Nat) (w : World α) : moveLeft cfg b first 0 dfirst w = .ok () w := by
  simp [moveLeft, srcsMove, assignGen]; rfl

/-- erase_range up to the end never throws (there is no tail to shift) -/
theorem eraseRange_end_sat (cfg : Cfg) (c first : Nat) (w : World α) (hv : VecOK cfg w c) (hl : Ledger w)
    (h1 : first ≤ (w.hdr c).size) :
    (eraseRange cfg c first (w.hdr c).size w).sat (fun _ w' => Shrunk cfg w w' c (List.take first)) (fun _ _ => False) := by
  unfold eraseRange
  rw [bind_run, getV_run]
  simp only []
  have e : guard_eraseRange_0 { numInsert := (w.hdr c).size - first } = decide ((w.hdr c).size - first ≠ 0) := rfl
  rw [e]
  by_cases hz : (w.hdr c).size - first ≠ 0
  · rw [if_pos (decide_eq_true hz)]
    rw [bind_run, Nat.sub_self, moveLeft_zero]
    simp only [Nat.add_zero]
    refine sat_bind (eraseToEnd_sat cfg c first w hv hl h1) (fun _ w' h => ?_) (fun _ _ h => h)
    exact h
  · rw [if_neg (by simpa using hz)]
    have : first = (w.hdr c).size := by omega
    refine ⟨Strong.basic (Strong.refl hl) hl hv, ?_, rfl, rfl, rfl, rfl, rfl⟩
    intro xs hx
    rw [List.take_of_length_le (by rw [hx.1]; omega)]; exact hx

/-- resize(n) / resize(n, x): strong guarantee on every throw -/
theorem resizeWith_sat (cfg : Cfg) (c newSize : Nat) (s : Src α) (w : World α)
    (hv : VecOK cfg w c) (hl : Ledger w) (hNmax : (w.hdr c).N ≤ cfg.maxSize) (ha : ArgOK cfg w c s)
    (hstrong : movesFor cfg true = true → cfg.tMove = false) :
    (resizeWith cfg c newSize s w).sat
      (fun _ w' => Resized cfg w w' c newSize (srcVal w s))
      (fun _ w' => Strong w w') := by
  unfold resizeWith
  have e0 : guard_resizeWith_0 { newSize := newSize } = decide (newSize = 0) := rfl
  rw [e0]
  by_cases hz : newSize = 0
  · -- resize(0) = clear (the later branches are no-ops on the emptied container)
    subst hz
    simp only [decide_true, if_true]
    refine sat_bind (eraseAll_sat cfg c w hv hl) (fun _ w1 h1 => ?_) (fun _ _ h => h.elim)
    rw [bind_run, getV_run]
    simp only []
    have hs1 : (w1.hdr c).size = 0 := by
      obtain ⟨xs, hx⟩ := hv.holds_exists
      have := (h1.holds xs hx).1; simpa using this.symm
    have e1 : guard_resizeWith_1 { genv cfg (w1.hdr c) with newSize := 0 } = decide ((w1.hdr c).cap < 0) := rfl
    have e3 : guard_resizeWith_3 { genv cfg (w1.hdr c) with newSize := 0 } = decide ((w1.hdr c).size < 0) := rfl
    rw [e1, e3]
    simp only [Nat.not_lt_zero, decide_false, Bool.false_eq_true, if_false]
    have her := eraseToEnd_sat cfg c 0 w1 h1.basic.vec h1.basic.led (Nat.zero_le _)
    refine Res.sat_mono her (fun _ w2 h2 => ?_) (fun _ _ h => h.elim)
    show Resized cfg w w2 c 0 (srcVal w s)
    refine ⟨Basic.trans hl hv h1.basic h2.basic, ?_, ?_, by rw [h2.alloc, h1.alloc], fun _ => ⟨by rw [h2.data, h1.data], by rw [h2.cap, h1.cap],
            by rw [h2.noalloc.1, h1.noalloc.1], by rw [h2.noalloc.2, h1.noalloc.2]⟩⟩
    · intro xs hx
      have := h2.holds _ (h1.holds xs hx)
      simpa [L0.resize] using this
    · obtain ⟨xs, hx⟩ := hv.holds_exists
      have := (h2.holds _ (h1.holds xs hx)).1
      simpa using this.symm
  · rw [if_neg (by simpa using hz)]
    rw [pure_bind_run, bind_run, getV_run]
    simp only []
    have hsl := hv.size_le
    have hcm := hv.cap_le_max hNmax
    have e1 : guard_resizeWith_1 { genv cfg (w.hdr c) with newSize := newSize } = decide ((w.hdr c).cap < newSize) := rfl
    have e2 : guard_resizeWith_2 { genv cfg (w.hdr c) with newSize := newSize } = decide (cfg.maxSize < newSize) := rfl
    have e3 : guard_resizeWith_3 { genv cfg (w.hdr c) with newSize := newSize } = decide ((w.hdr c).size < newSize) := rfl
    rw [e1, e2, e3]
    by_cases hgrow : (w.hdr c).cap < newSize
    · rw [if_pos (decide_eq_true hgrow)]
      by_cases hbig : cfg.maxSize < newSize
      · rw [if_pos (decide_eq_true hbig)]; exact Strong.refl hl
      · rw [if_neg (by simpa using hbig)]
        have hk : (List.replicate (newSize - (w.hdr c).size) s).length = newSize - (w.hdr c).size := by simp
        have hap := appendRealloc_sat cfg c true (List.replicate (newSize - (w.hdr c).size) s) w hv hl hNmax
          (by rw [hk]; omega) (by rw [hk]; omega) ((argsOK_replicate _ ha).srcs hv hl) (fun _ => hstrong)
        refine sat_bind hap (fun _ w' h => ?_) (fun _ _ h => h.1 rfl)
        obtain ⟨_, h⟩ := h
        rw [map_srcVal_replicate] at h
        show Resized cfg w w' c newSize (srcVal w s)
        refine ⟨h.basic, ?_, by rw [h.size]; simp; omega, h.alloc, fun hf => absurd hf (by omega)⟩
        intro xs hx
        have := h.holds xs hx
        unfold L0.resize
        rw [List.take_of_length_le (by rw [hx.1]; omega), hx.1]; exact this
    · rw [if_neg (by simpa using hgrow)]
      by_cases hmore : (w.hdr c).size < newSize
      · rw [if_pos (decide_eq_true hmore)]
        have hk : (List.replicate (newSize - (w.hdr c).size) s).length = newSize - (w.hdr c).size := by simp
        have hap := appendInPlace_sat cfg c (List.replicate (newSize - (w.hdr c).size) s) w hv hl (by rw [hk]; omega) ((argsOK_replicate _ ha).srcs hv hl)
        rw [hk, show (w.hdr c).size + (newSize - (w.hdr c).size) = newSize by omega] at hap
        -- the model's body is the same computation without the final `pure size`
        have hrun : (uninitGen cfg (w.hdr c).data (w.hdr c).size 0 (List.replicate (newSize - (w.hdr c).size) s) >>= fun _ =>
              setSize c newSize) w =
            match (uninitGen cfg (w.hdr c).data (w.hdr c).size 0 (List.replicate (newSize - (w.hdr c).size) s) >>= fun _ =>
              setSize c newSize >>= fun _ => (pure (w.hdr c).size : M α Nat)) w with
            | .ok _ w' => .ok () w'
            | .thrown e w' => .thrown e w' := by
          rw [bind_run, bind_run]
          cases uninitGen cfg (w.hdr c).data (w.hdr c).size 0 (List.replicate (newSize - (w.hdr c).size) s) w with
          | thrown e w1 => rfl
          | ok u w1 => simp only []; rfl
        rw [hrun]
        cases hr : (uninitGen cfg (w.hdr c).data (w.hdr c).size 0 (List.replicate (newSize - (w.hdr c).size) s) >>= fun _ =>
              setSize c newSize >>= fun _ => (pure (w.hdr c).size : M α Nat)) w with
        | thrown e w' => rw [hr] at hap; exact hap
        | ok r w' =>
          rw [hr] at hap
          obtain ⟨_, h⟩ := hap
          rw [map_srcVal_replicate] at h
          show Resized cfg w w' c newSize (srcVal w s)
          have hfit := h.inplace (by simp; omega)
          refine ⟨h.basic, ?_, by rw [h.size]; simp; omega, h.alloc, fun _ => ⟨hfit.1, hfit.2.1, hfit.2.2.1, hfit.2.2.2.1⟩⟩
          intro xs hx
          have := h.holds xs hx
          unfold L0.resize
          rw [List.take_of_length_le (by rw [hx.1]; omega), hx.1]; exact this
      · rw [if_neg (by simpa using hmore)]
        refine Res.sat_mono (eraseToEnd_sat cfg c newSize w hv hl (by omega)) (fun _ w' h => ?_) (fun _ _ h => h.elim)
        show Resized cfg w w' c newSize (srcVal w s)
        refine ⟨h.basic, ?_, ?_, h.alloc, fun _ => ⟨h.data, h.cap, h.noalloc.1, h.noalloc.2⟩⟩
        · intro xs hx
          have := h.holds xs hx
          unfold L0.resize
          rw [show newSize - xs.length = 0 by rw [hx.1]; omega]; simpa using this
        · obtain ⟨xs, hx⟩ := hv.holds_exists
          have := (h.holds xs hx).1
          rw [← this]; simp [hx.1]; omega

end SvModel
