/-
Hoare layer: results are inspected through `Res.sat r Q E` (normal and exceptional post-condition); composition rules
for bind / tryCatch / finally_.  All rules are four-line proofs by `cases` on the first computation.
-/
import SvModel.Basic

namespace SvModel
variable {α β γ : Type}

def Res.sat (r : Res (World α) β) (Q : β → World α → Prop) (E : Exc → World α → Prop) : Prop :=
  match r with
  | .ok b w => Q b w
  | .thrown e w => E e w

@[simp] theorem Res.sat_ok (b : β) (w : World α) (Q : β → World α → Prop) (E : Exc → World α → Prop) :
    (Res.ok b w : Res (World α) β).sat Q E = Q b w := rfl
@[simp] theorem Res.sat_thrown (e : Exc) (w : World α) (Q : β → World α → Prop) (E : Exc → World α → Prop) :
    (Res.thrown e w : Res (World α) β).sat Q E = E e w := rfl

theorem Res.sat_mono {r : Res (World α) β} {Q Q' : β → World α → Prop} {E E' : Exc → World α → Prop}
    (h : r.sat Q E) (hq : ∀ b w, Q b w → Q' b w) (he : ∀ e w, E e w → E' e w) : r.sat Q' E' := by
  cases r with
  | ok b w => exact hq b w h
  | thrown e w => exact he e w h

/-- sequencing: the continuation runs from every normal outcome of `m`; a throw of `m` propagates -/
theorem sat_bind {m : M α β} {f : β → M α γ} {w : World α}
    {Q : β → World α → Prop} {E1 : Exc → World α → Prop}
    {R : γ → World α → Prop} {E : Exc → World α → Prop}
    (h1 : (m w).sat Q E1)
    (h2 : ∀ b w', Q b w' → (f b w').sat R E)
    (h3 : ∀ e w', E1 e w' → E e w') :
    ((m >>= f) w).sat R E := by
  rw [bind_run]
  cases hm : m w with
  | ok b w' => rw [hm] at h1; exact h2 b w' h1
  | thrown e w' => rw [hm] at h1; exact h3 e w' h1

theorem sat_tryCatch {m : M α β} {h : Exc → M α β} {w : World α}
    {Q : β → World α → Prop} {E1 E : Exc → World α → Prop}
    (h1 : (m w).sat Q E1)
    (h2 : ∀ e w', E1 e w' → (h e w').sat Q E) :
    (tryCatch m h w).sat Q E := by
  rw [tryCatch_run]
  cases hm : m w with
  | ok b w' => rw [hm] at h1; exact h1
  | thrown e w' => rw [hm] at h1; exact h2 e w' h1

theorem finally_run (m : M α β) (fin : M α Unit) (w : World α) :
    finally_ m fin w = match m w with
      | .ok b w' => (match fin w' with | .ok _ w'' => .ok b w'' | .thrown e w'' => .thrown e w'')
      | .thrown e w' => (match fin w' with | .ok _ w'' => .thrown e w'' | .thrown e' w'' => .thrown e' w'') := rfl

/-- RAII: `fin` never throws (a destructor); it runs on both exits -/
theorem sat_finally {m : M α β} {fin : M α Unit} {w : World α}
    {Q1 : β → World α → Prop} {E1 : Exc → World α → Prop}
    {Q : β → World α → Prop} {E : Exc → World α → Prop}
    (h1 : (m w).sat Q1 E1)
    (h2 : ∀ b w', Q1 b w' → (fin w').sat (fun _ w'' => Q b w'') (fun _ _ => False))
    (h3 : ∀ e w', E1 e w' → (fin w').sat (fun _ w'' => E e w'') (fun _ _ => False)) :
    (finally_ m fin w).sat Q E := by
  rw [finally_run]
  cases hm : m w with
  | ok b w' =>
    rw [hm] at h1
    have := h2 b w' h1
    simp only []
    cases hf : fin w' with
    | ok u w'' => rw [hf] at this; exact this
    | thrown e w'' => rw [hf] at this; exact this.elim
  | thrown e w' =>
    rw [hm] at h1
    have := h3 e w' h1
    simp only []
    cases hf : fin w' with
    | ok u w'' => rw [hf] at this; exact this
    | thrown e' w'' => rw [hf] at this; exact this.elim

theorem sat_pure {b : β} {w : World α} {Q : β → World α → Prop} {E : Exc → World α → Prop} (h : Q b w) :
    ((pure b : M α β) w).sat Q E := h

theorem sat_throwE {e : Exc} {w : World α} {Q : β → World α → Prop} {E : Exc → World α → Prop} (h : E e w) :
    ((throwE e : M α β) w).sat Q E := h

/-- a computation that cannot throw -/
def NoThrow (m : M α β) : Prop := ∀ w, ∃ b w', m w = .ok b w'

end SvModel

namespace SvModel
variable {α β : Type}
theorem sat_of_ok {m : M α β} {w w' : World α} {b : β} {Q : β → World α → Prop} {E : Exc → World α → Prop}
    (h : (m w).sat Q E) (hr : m w = .ok b w') : Q b w' := by rw [hr] at h; exact h
theorem sat_of_thrown {m : M α β} {w w' : World α} {e : Exc} {Q : β → World α → Prop} {E : Exc → World α → Prop}
    (h : (m w).sat Q E) (hr : m w = .thrown e w') : E e w' := by rw [hr] at h; exact h
end SvModel

namespace SvModel
variable {α β γ δ : Type}
theorem bind_assoc_run (m : M α β) (g : β → M α γ) (f : γ → M α δ) (w : World α) :
    ((m >>= g) >>= f) w = (m >>= fun b => g b >>= f) w := by
  rw [bind_run, bind_run, bind_run]
  cases m w <;> rfl
theorem pure_bind_run (b : β) (f : β → M α γ) (w : World α) : ((pure b : M α β) >>= f) w = f b w := rfl
end SvModel
