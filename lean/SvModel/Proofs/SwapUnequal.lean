/-
`swap_unequal_no_propagate`, reallocating path (hpp:4504-4532): the allocators are unequal and do not propagate, and `o`'s
elements do not fit into `c`'s buffer.  `c` obtains a new block from its OWN allocator, `o`'s elements are move-constructed
into it, `c`'s elements are move-assigned over the front of `o`'s buffer and the rest of `o`'s buffer is destroyed; then
`c`'s old elements are destroyed, its old block released, it switches to the new block and the sizes are exchanged.
Two nested roll-back handlers: a throw while assigning destroys the new block's elements, any throw releases the block.

Outcome, as everywhere: a chain of single-container `Basic` steps through fictitious intermediate worlds.
-/
import SvModel.Proofs.Swap
import SvModel.Proofs.MoveAssignRealloc

namespace SvModel
open Gen
variable {α : Type}

/-- `o` changed in place (contents and size): the first half of `two_inplace` -/
theorem mid_basic (cfg : Cfg) {w w' : World α} {o no : Nat} (hvo : VecOK cfg w o) (hl : Ledger w)
    (hlen : (w'.mem (w.hdr o).data).length = (w.mem (w.hdr o).data).length) (hno : no ≤ (w.hdr o).cap)
    (hoobj : ∀ i, i < no → IsObj w' (w.hdr o).data i) (horaw : ∀ i, no ≤ i → i < (w.hdr o).cap → IsRaw w' (w.hdr o).data i) :
    Basic cfg w (mid w w' o no) o := by
  have hmb : (mid w w' o no).mem (w.hdr o).data = w'.mem (w.hdr o).data := by simp [mid]
  have hmo : ∀ b, b ≠ (w.hdr o).data → (mid w w' o no).mem b = w.mem b := fun b h => by simp [mid, upd_other _ _ _ _ h]
  have hc1 : Ctl0 w (mid w w' o no) := by
    refine ⟨rfl, rfl, rfl, rfl, ⟨Nat.le_refl _, rfl⟩, fun b _ => ?_⟩
    by_cases hb : b = (w.hdr o).data
    · rw [hb, hmb]; exact hlen
    · rw [hmo b hb]
  obtain ⟨a1, a2, a3⟩ := inplace_ok cfg (w' := mid w w' o no) (n' := no) hvo hl hc1 rfl hno
    (fun i hi' => by unfold IsObj; rw [hmb]; exact hoobj i hi')
    (fun i x y => by unfold IsRaw; rw [hmb]; exact horaw i x y)
    (fun b i hb _ => by rw [hmo b hb])
  exact ⟨a1, a2, rfl, a3⟩

theorem mid_mem_b (w w' : World α) (o no : Nat) : (mid w w' o no).mem (w.hdr o).data = w'.mem (w.hdr o).data := by simp [mid]
theorem mid_mem_other (w w' : World α) (o no b : Nat) (h : b ≠ (w.hdr o).data) : (mid w w' o no).mem b = w.mem b := by
  simp [mid, upd_other _ _ _ _ h]

/-- `c` is untouched in a world that differs only in `o`'s block and size -/
theorem mid_vecOK (cfg : Cfg) {w w' : World α} {c o no : Nat} (hv : VecOK cfg w c) (hco : c ≠ o)
    (hd : (w.hdr o).data ≠ (w.hdr c).data) (hi : (w.hdr o).data ≠ (w.hdr c).inl) : VecOK cfg (mid w w' o no) c := by
  have hmc : (mid w w' o no).hdr c = w.hdr c := by show (upd w.hdr o _) c = _; rw [upd_other _ _ _ _ hco]
  refine hv.transfer hmc (by rw [mid_mem_other _ _ _ _ _ (Ne.symm hd)]) ?_ ?_ (fun hne => hv.heap hne) ?_
  · intro i hi'; unfold IsObj; rw [mid_mem_other _ _ _ _ _ (Ne.symm hd)]; exact hv.objs i hi'
  · intro i h1 h2; unfold IsRaw; rw [mid_mem_other _ _ _ _ _ (Ne.symm hd)]; exact hv.raws i h1 h2
  · intro hne
    obtain ⟨h1, h2⟩ := hv.idle hne
    exact ⟨by rw [mid_mem_other _ _ _ _ _ (Ne.symm hi)]; exact h1, fun i hi' => by unfold IsRaw; rw [mid_mem_other _ _ _ _ _ (Ne.symm hi)]; exact h2 i hi'⟩

theorem tryCatch_thrown {β : Type} {m : M α β} {h : Exc → M α β} {w w1 : World α} {e : Exc} (hm : m w = .thrown e w1) :
    tryCatch m h w = h e w1 := by unfold tryCatch; rw [hm]
theorem tryCatch_ok {β : Type} {m : M α β} {h : Exc → M α β} {w w1 : World α} {b : β} (hm : m w = .ok b w1) :
    tryCatch m h w = .ok b w1 := by unfold tryCatch; rw [hm]

/-- the state after the guarded part of the reallocating swap: new block built, `o`'s buffer overwritten/trimmed,
    `c`'s old elements moved-from, headers untouched -/
structure SwapBuilt (w w5 : World α) (c o ncap : Nat) : Prop where
  hdr   : w5.hdr = w.hdr
  live  : w5.live = w.next :: w.live
  owner : w5.owner = upd w.owner w.next (w.hdr c).alloc
  next  : w5.next = w.next + 2
  ntmp  : w5.ntmp = w.ntmp
  ub    : w5.ub = w.ub
  lenN  : (w5.mem w.next).length = ncap
  len   : ∀ b, b ≠ w.next → (w5.mem b).length = (w.mem b).length
  newv  : ∀ k, k < (w.hdr o).size → (w5.mem w.next)[k]? = (w.mem (w.hdr o).data)[k]?
  newr  : ∀ i, (w.hdr o).size ≤ i → i < ncap → IsRaw w5 w.next i
  odv   : ∀ k, k < (w.hdr c).size → (w5.mem (w.hdr o).data)[k]? = (w.mem (w.hdr c).data)[k]?
  otail : ∀ i, (w.hdr c).size ≤ i → i < (w.hdr o).size → IsRaw w5 (w.hdr o).data i
  orest : ∀ i, (w.hdr o).size ≤ i → (w5.mem (w.hdr o).data)[i]? = (w.mem (w.hdr o).data)[i]?
  cobj  : ∀ k, k < (w.hdr c).size → IsObj w5 (w.hdr c).data k
  crest : ∀ i, (w.hdr c).size ≤ i → (w5.mem (w.hdr c).data)[i]? = (w.mem (w.hdr c).data)[i]?
  other : ∀ (b i : Nat), b ≠ w.next → b ≠ (w.hdr o).data → b ≠ (w.hdr c).data → (w5.mem b)[i]? = (w.mem b)[i]?

/-- a failed reallocating swap: a chain of `Basic` steps (on `o`, on `c`) followed by an unobservable change -/
def SwapAbort (cfg : Cfg) (w w' : World α) (c o : Nat) : Prop :=
  ∃ wh wh2, Basic cfg w wh o ∧ Basic cfg wh wh2 c ∧ Strong wh2 w' ∧ wh.live = w.live ∧ wh2.live = w.live

theorem swapUneq_build_sat (cfg : Cfg) (c o : Nat) (w : World α) (ncap : Nat)
    (hv : VecOK cfg w c) (hl : Ledger w) (hvo : VecOK cfg w o) (hco : c ≠ o)
    (hle : (w.hdr c).size ≤ (w.hdr o).size) (hfit : (w.hdr o).size ≤ ncap)
    (hd : (w.hdr o).data ≠ (w.hdr c).data) (hi : (w.hdr o).data ≠ (w.hdr c).inl) :
    ((allocate cfg (w.hdr c).alloc ncap >>= fun nb =>
      tryCatch
        (uninitializedMove cfg false (w.hdr o).data 0 (w.hdr o).size nb 0 >>= fun _ =>
          tryCatch
            (assignGen cfg (w.hdr o).data 0 (srcsMove (w.hdr c).data 0 (w.hdr c).size) >>= fun _ =>
              destroyRange cfg (w.hdr o).data (w.hdr c).size ((w.hdr o).size - (w.hdr c).size))
            (fun ex => destroyRange cfg nb 0 (w.hdr o).size >>= fun _ => throwE ex))
        (fun ex => deallocate (w.hdr c).alloc nb ncap >>= fun _ => throwE ex) >>= fun _ => pure nb) w).sat
      (fun nb w5 => nb = w.next ∧ SwapBuilt w w5 c o ncap)
      (fun e w' => (e = .alloc ∨ e = .elem) ∧ SwapAbort cfg w w' c o) := by
  have hoc : o ≠ c := fun e => hco e.symm
  generalize hod : (w.hdr o).data = od at *
  generalize hos : (w.hdr o).size = os at *
  generalize hcd : (w.hdr c).data = cd at *
  generalize hcs : (w.hdr c).size = cs at *
  have hoobj : ∀ i, i < os → IsObj w od i := fun i hi' => by rw [← hod]; exact hvo.objs i (by rw [hos]; exact hi')
  have hcobj : ∀ i, i < cs → IsObj w cd i := fun i hi' => by rw [← hcd]; exact hv.objs i (by rw [hcs]; exact hi')
  obtain ⟨hnd, hni⟩ := hv.next_ne hl
  rw [hcd] at hnd
  have hod_lt : od < w.next := by rw [← hod]; exact hvo.data_lt_next hl
  have hod_next : od ≠ w.next := by omega
  have hcd_next : cd ≠ w.next := Ne.symm hnd
  have hbasic0 : Basic cfg w w c := (Strong.refl hl).basic hl hv
  have hbasic0o : Basic cfg w w o := (Strong.refl hl).basic hl hvo
  refine sat_bind (allocate_sat cfg (w.hdr c).alloc ncap w) (fun nb w2 h2 => ?_)
    (fun e w2 h => ⟨Or.inl h.1, w, w, hbasic0o, hbasic0, Strong.of_quiet hl h.2, rfl, rfl⟩)
  obtain ⟨hnb, hm2, ho2, hlv2, hn2, hh2, ht2, hu2⟩ := h2
  subst hnb
  have hoth2 : ∀ b, b ≠ w.next → w2.mem b = w.mem b := fun b hb => by rw [hm2, upd_other _ _ _ _ hb]
  have hraw2 : ∀ i, i < ncap → IsRaw w2 w.next i := fun i hi' => by unfold IsRaw; rw [hm2]; simp [hi']
  have hlen2 : (w2.mem w.next).length = ncap := by rw [hm2]; simp
  have hmv := uninitializedMove_sat cfg false od 0 os w.next 0 w2
    (fun k hk => by unfold IsObj; rw [hoth2 od hod_next, Nat.zero_add]; exact hoobj k hk)
    (fun k hk => by simpa using hraw2 k (by omega))
  -- shared: the source-side step and the `BuiltA` relation for a world in which only od / cd / the new block changed
  have chain : ∀ (w3 : World α), Ctl w2 w3 → (∀ k, k < os → IsObj w3 od k) → (∀ k, k < cs → IsObj w3 cd k) →
      (∀ i, os ≤ i → (w3.mem od)[i]? = (w.mem od)[i]?) → (∀ i, cs ≤ i → (w3.mem cd)[i]? = (w.mem cd)[i]?) →
      (∀ (b i : Nat), b ≠ w.next → b ≠ od → b ≠ cd → (w3.mem b)[i]? = (w.mem b)[i]?) →
      (∀ i, i < ncap → IsRaw w3 w.next i) →
      ∃ w6, deallocate (w.hdr c).alloc w.next ncap w3 = .ok () w6 ∧ SwapAbort cfg w w6 c o := by
    intro w3 hc3 hoo hcc horest hcrest hother hrawN
    have hlen_od : (w3.mem od).length = (w.mem od).length := by rw [hc3.len, hoth2 od hod_next]
    have hlen_cd : (w3.mem cd).length = (w.mem cd).length := by rw [hc3.len, hoth2 cd hcd_next]
    have hb1 : Basic cfg w (husked w w3 od) o := by
      have := basic_husked cfg (w' := w3) hvo hl (by rw [hod]; exact hlen_od) (by rw [hod, hos]; exact hoo) (by rw [hod, hos]; exact horest)
      rw [hod] at this; exact this
    have hvh : VecOK cfg (husked w w3 od) c := by
      refine hv.transfer rfl (by rw [hcd, husked_mem_other _ _ _ _ (Ne.symm hd)]) ?_ ?_ (fun hne => hv.heap hne) ?_
      · intro i hi'; unfold IsObj; rw [hcd, husked_mem_other _ _ _ _ (Ne.symm hd)]; exact hcobj i (by rw [← hcs]; exact hi')
      · intro i h1 h2; unfold IsRaw; rw [hcd, husked_mem_other _ _ _ _ (Ne.symm hd), ← hcd]; exact hv.raws i h1 h2
      · intro hne
        obtain ⟨h1, h2⟩ := hv.idle hne
        exact ⟨by rw [husked_mem_other _ _ _ _ (Ne.symm hi)]; exact h1, fun i hi' => by unfold IsRaw; rw [husked_mem_other _ _ _ _ (Ne.symm hi)]; exact h2 i hi'⟩
    -- second step: c's live slots
    have hcdh : ((husked w w3 od).hdr c).data = cd := hcd
    have hb2 : Basic cfg (husked w w3 od) (husked (husked w w3 od) w3 cd) c := by
      have := basic_husked cfg (w := husked w w3 od) (w' := w3) (o := c) hvh hb1.led
        (by rw [hcdh, husked_mem_other _ _ _ _ (Ne.symm hd)]; exact hlen_cd)
        (by rw [hcdh]; show ∀ i, i < (w.hdr c).size → _; rw [hcs]; exact hcc)
        (by rw [hcdh]; show ∀ i, (w.hdr c).size ≤ i → _; rw [hcs]; intro i hi'; rw [husked_mem_other _ _ _ _ (Ne.symm hd)]; exact hcrest i hi')
      rw [hcdh] at this; exact this
    generalize hwh2 : husked (husked w w3 od) w3 cd = wh2 at hb2
    have hm2b : ∀ (b i : Nat), b ≠ w.next → (w3.mem b)[i]? = (wh2.mem b)[i]? := by
      intro b i hb
      subst hwh2
      by_cases hbc : b = cd
      · rw [hbc, husked_mem_b]
      · rw [husked_mem_other _ _ _ _ hbc]
        by_cases hbo : b = od
        · rw [hbo, husked_mem_b]
        · rw [husked_mem_other _ _ _ _ hbo]; exact hother b i hb hbo hbc
    have hwh2_ctl : wh2.hdr = w.hdr ∧ wh2.live = w.live ∧ wh2.owner = w.owner ∧ wh2.next = w.next ∧ wh2.ntmp = w.ntmp ∧ wh2.ub = w.ub := by
      subst hwh2; exact ⟨rfl, rfl, rfl, rfl, rfl, rfl⟩
    obtain ⟨e1, e2, e3, e4, e5, e6⟩ := hwh2_ctl
    have hlen2b : ∀ b, b ≠ w.next → (w3.mem b).length = (wh2.mem b).length := by
      intro b hb
      subst hwh2
      by_cases hbc : b = cd
      · rw [hbc, husked_mem_b]
      · rw [husked_mem_other _ _ _ _ hbc]
        by_cases hbo : b = od
        · rw [hbo, husked_mem_b]
        · rw [husked_mem_other _ _ _ _ hbo, hc3.len, hoth2 b hb]
    have hbA : BuiltA cfg wh2 w3 c ncap (w.hdr c).alloc := by
      refine ⟨by rw [e1]; exact hc3.hdr.trans hh2, by rw [e2, e4]; exact hc3.live.trans hlv2, by rw [e3, e4]; exact hc3.owner.trans ho2,
              by rw [e4]; exact hc3.next.trans hn2, by rw [e5]; exact hc3.ntmp.trans ht2, by rw [e6]; exact hc3.ub.trans hu2, ?_, ?_, ?_, ?_⟩
      · rw [e4, hc3.len]; exact hlen2
      · intro b hb; rw [e4] at hb; exact hlen2b b hb
      · intro i hi'
        rw [e1] at hi' ⊢
        rw [hcd]; rw [hcs] at hi'
        exact hcc i hi'
      · intro b i hb _
        rw [e4] at hb
        exact hm2b b i hb
    have hab := abort_realloc_alloc (w := wh2) hb2.vec hb2.led hbA
      (fun i _ => by rw [e1, hcd]; exact hm2b cd i hcd_next)
      (fun i hi' => by rw [e4]; exact hrawN i hi')
    obtain ⟨w6, hd6, hs6⟩ := hab
    rw [e4] at hd6
    exact ⟨w6, hd6, _, _, hb1, hb2, hs6, rfl, e2⟩
  -- the body of the outer try
  cases h3 : uninitializedMove cfg false od 0 os w.next 0 w2 with
  | thrown e w3 =>
    obtain ⟨he, hf⟩ := sat_of_thrown hmv h3
    obtain ⟨w6, hd6, hab⟩ := chain w3 hf.ctl (fun k hk => by have := hf.src k hk; simpa using this)
      (fun k hk => by
        unfold IsObj
        rw [hf.rest cd k (by intro ⟨x, _⟩; exact hcd_next x) (by intro ⟨x, _⟩; exact hd x.symm), hoth2 cd hcd_next]; exact hcobj k hk)
      (fun i hi' => by rw [hf.rest od i (by intro ⟨x, _⟩; exact hod_next x) (by intro ⟨_, _, y⟩; omega), hoth2 od hod_next])
      (fun i hi' => by rw [hf.rest cd i (by intro ⟨x, _⟩; exact hcd_next x) (by intro ⟨x, _⟩; exact hd x.symm), hoth2 cd hcd_next])
      (fun b i h1 h2 _ => by rw [hf.rest b i (by intro ⟨x, _⟩; exact h1 x) (by intro ⟨x, _⟩; exact h2 x), hoth2 b h1])
      (fun i hi' => by
        by_cases h : i < os
        · have := hf.dst i h; simpa using this
        · exact isRaw_of_eq (hf.rest _ i (by intro ⟨_, _, y⟩; omega) (by intro ⟨x, _⟩; exact hod_next x.symm)) (hraw2 i hi'))
    have htc : (tryCatch (uninitializedMove cfg false od 0 os w.next 0 >>= fun _ =>
          tryCatch (assignGen cfg od 0 (srcsMove cd 0 cs) >>= fun _ => destroyRange cfg od cs (os - cs))
            (fun ex => destroyRange cfg w.next 0 os >>= fun _ => throwE ex))
        (fun ex => deallocate (w.hdr c).alloc w.next ncap >>= fun _ => throwE ex) >>= fun _ => pure w.next) w2 = .thrown e w6 := by
      have hbody : (uninitializedMove cfg false od 0 os w.next 0 >>= fun _ =>
          tryCatch (assignGen cfg od 0 (srcsMove cd 0 cs) >>= fun _ => destroyRange cfg od cs (os - cs))
            (fun ex => destroyRange cfg w.next 0 os >>= fun _ => throwE ex)) w2 = .thrown e w3 := by
        rw [bind_run, h3]
      rw [bind_run, tryCatch_thrown hbody, bind_run, hd6]; rfl
    rw [htc]
    exact ⟨Or.inr he, hab⟩
  | ok u3 w3 =>
    have hr := sat_of_ok hmv h3
    have hnew3 : ∀ k, k < os → (w3.mem w.next)[k]? = (w.mem od)[k]? := fun k hk => by
      have := hr.dst k hk
      simp only [Nat.zero_add] at this
      rw [this, hoth2 od hod_next]
    have hcd3 : ∀ i : Nat, (w3.mem cd)[i]? = (w.mem cd)[i]? := fun i => by
      rw [hr.rest cd i (by intro ⟨x, _⟩; exact hcd_next x) (by intro ⟨x, _⟩; exact hd x.symm), hoth2 cd hcd_next]
    have hod3 : ∀ i, os ≤ i → (w3.mem od)[i]? = (w.mem od)[i]? := fun i hi' => by
      rw [hr.rest od i (by intro ⟨x, _⟩; exact hod_next x) (by intro ⟨_, _, y⟩; omega), hoth2 od hod_next]
    have hoth3 : ∀ (b i : Nat), b ≠ w.next → b ≠ od → (w3.mem b)[i]? = (w.mem b)[i]? := fun b i h1 h2 => by
      rw [hr.rest b i (by intro ⟨x, _⟩; exact h1 x) (by intro ⟨x, _⟩; exact h2 x), hoth2 b h1]
    have hrawN3 : ∀ i, os ≤ i → i < ncap → IsRaw w3 w.next i := fun i x y =>
      isRaw_of_eq (hr.rest _ i (by intro ⟨_, _, z⟩; omega) (by intro ⟨z, _⟩; exact hod_next z.symm)) (hraw2 i y)
    have hasg := assignGen_move_sat cfg od cd (Ne.symm hd) cs 0 0 w3
      (fun k hk => by rw [Nat.zero_add]; exact isObj_of_eq (hcd3 k) (hcobj k hk))
      (fun k hk => by have := hr.src k (by omega); simpa using this)
    cases h4 : assignGen cfg od 0 (srcsMove cd 0 cs) w3 with
    | thrown e w4 =>
      obtain ⟨he, hc34, hdo4, hsc4, hrest4⟩ := sat_of_thrown hasg h4
      -- inner handler: destroy the new block's elements
      have hnew4 : ∀ i : Nat, (w4.mem w.next)[i]? = (w3.mem w.next)[i]? := fun i =>
        hrest4 _ i (by intro ⟨x, _⟩; exact hod_next x.symm) (by intro ⟨x, _⟩; exact hcd_next x.symm)
      have hds := destroyRange_sat cfg w.next os 0 w4 (fun i _ y => by
        obtain ⟨v, hv'⟩ := hoobj i (by omega)
        exact ⟨v, by rw [hnew4 i, hnew3 i (by omega)]; exact hv'⟩)
      cases h5 : destroyRange cfg w.next 0 os w4 with
      | thrown e' w5 => exact (sat_of_thrown hds h5).elim
      | ok u5 w5 =>
        obtain ⟨hc45, hr5, hrest5⟩ := sat_of_ok hds h5
        have hc25 : Ctl w2 w5 := (hr.ctl.trans hc34).trans hc45
        have keep5 : ∀ (b i : Nat), b ≠ w.next → (w5.mem b)[i]? = (w4.mem b)[i]? := fun b i hb => hrest5 b i (by intro ⟨x, _⟩; exact hb x)
        obtain ⟨w6, hd6, hab⟩ := chain w5 hc25
          (fun k hk => by
            refine isObj_of_eq (keep5 od k hod_next) ?_
            by_cases h : k < cs
            · have := hdo4 k h; simpa using this
            · refine isObj_of_eq (hrest4 od k (by intro ⟨_, _, y⟩; omega) (by intro ⟨x, _⟩; exact hd x)) ?_
              have := hr.src k hk; simpa using this)
          (fun k hk => by
            refine isObj_of_eq (keep5 cd k hcd_next) ?_
            have := hsc4 k hk; simpa using this)
          (fun i hi' => by rw [keep5 od i hod_next, hrest4 od i (by intro ⟨_, _, y⟩; omega) (by intro ⟨x, _⟩; exact hd x), hod3 i hi'])
          (fun i hi' => by rw [keep5 cd i hcd_next, hrest4 cd i (by intro ⟨x, _⟩; exact hd x.symm) (by intro ⟨_, _, y⟩; omega), hcd3 i])
          (fun b i h1 h2 h3' => by rw [keep5 b i h1, hrest4 b i (by intro ⟨x, _⟩; exact h2 x) (by intro ⟨x, _⟩; exact h3' x), hoth3 b i h1 h2])
          (fun i hi' => by
            by_cases h : i < os
            · exact hr5 i (Nat.zero_le _) (by omega)
            · exact isRaw_of_eq ((hrest5 _ i (by intro ⟨_, _, y⟩; omega)).trans (hnew4 i)) (hrawN3 i (by omega) hi'))
        have htc : (tryCatch (uninitializedMove cfg false od 0 os w.next 0 >>= fun _ =>
              tryCatch (assignGen cfg od 0 (srcsMove cd 0 cs) >>= fun _ => destroyRange cfg od cs (os - cs))
                (fun ex => destroyRange cfg w.next 0 os >>= fun _ => throwE ex))
            (fun ex => deallocate (w.hdr c).alloc w.next ncap >>= fun _ => throwE ex) >>= fun _ => pure w.next) w2 = .thrown e w6 := by
          have hin0 : (assignGen cfg od 0 (srcsMove cd 0 cs) >>= fun _ => destroyRange cfg od cs (os - cs)) w3 = .thrown e w4 := by
            rw [bind_run, h4]
          have hin : tryCatch (assignGen cfg od 0 (srcsMove cd 0 cs) >>= fun _ => destroyRange cfg od cs (os - cs))
              (fun ex => destroyRange cfg w.next 0 os >>= fun _ => throwE ex) w3 = .thrown e w5 := by
            rw [tryCatch_thrown hin0, bind_run, h5]; rfl
          have hbody : (uninitializedMove cfg false od 0 os w.next 0 >>= fun _ =>
              tryCatch (assignGen cfg od 0 (srcsMove cd 0 cs) >>= fun _ => destroyRange cfg od cs (os - cs))
                (fun ex => destroyRange cfg w.next 0 os >>= fun _ => throwE ex)) w2 = .thrown e w5 := by
            rw [bind_run, h3]; exact hin
          rw [bind_run, tryCatch_thrown hbody, bind_run, hd6]; rfl
        rw [htc]
        exact ⟨Or.inr he, hab⟩
    | ok u4 w4 =>
      obtain ⟨hc34, hv4, hh4, hrest4⟩ := sat_of_ok hasg h4
      have hds := destroyRange_sat cfg od (os - cs) cs w4 (fun i x y => by
        refine isObj_of_eq (hrest4 od i (by intro ⟨_, _, z⟩; omega) (by intro ⟨z, _⟩; exact hd z)) ?_
        have := hr.src i (by omega); simpa using this)
      cases h5 : destroyRange cfg od cs (os - cs) w4 with
      | thrown e' w5 => exact (sat_of_thrown hds h5).elim
      | ok u5 w5 =>
        obtain ⟨hc45, hr5, hrest5⟩ := sat_of_ok hds h5
        have hc25 : Ctl w2 w5 := (hr.ctl.trans hc34).trans hc45
        have htc : (tryCatch (uninitializedMove cfg false od 0 os w.next 0 >>= fun _ =>
              tryCatch (assignGen cfg od 0 (srcsMove cd 0 cs) >>= fun _ => destroyRange cfg od cs (os - cs))
                (fun ex => destroyRange cfg w.next 0 os >>= fun _ => throwE ex))
            (fun ex => deallocate (w.hdr c).alloc w.next ncap >>= fun _ => throwE ex) >>= fun _ => pure w.next) w2 = .ok w.next w5 := by
          have hin0 : (assignGen cfg od 0 (srcsMove cd 0 cs) >>= fun _ => destroyRange cfg od cs (os - cs)) w3 = .ok u5 w5 := by
            rw [bind_run, h4]; exact h5
          have hbody : (uninitializedMove cfg false od 0 os w.next 0 >>= fun _ =>
              tryCatch (assignGen cfg od 0 (srcsMove cd 0 cs) >>= fun _ => destroyRange cfg od cs (os - cs))
                (fun ex => destroyRange cfg w.next 0 os >>= fun _ => throwE ex)) w2 = .ok u5 w5 := by
            rw [bind_run, h3]; exact tryCatch_ok hin0
          rw [bind_run, tryCatch_ok hbody]; rfl
        rw [htc]
        refine ⟨rfl, ?_⟩
        have keep5 : ∀ (b i : Nat), ¬ (b = od ∧ cs ≤ i ∧ i < cs + (os - cs)) → (w5.mem b)[i]? = (w4.mem b)[i]? := hrest5
        refine ⟨hc25.hdr.trans hh2, hc25.live.trans hlv2, hc25.owner.trans ho2, hc25.next.trans hn2, hc25.ntmp.trans ht2, hc25.ub.trans hu2,
                by rw [hc25.len]; exact hlen2, fun b hb => by rw [hc25.len, hoth2 b hb], ?_, ?_, ?_, ?_, ?_, ?_, ?_, ?_⟩ <;>
          simp only [hod, hos, hcd, hcs]
        · intro k hk
          rw [keep5 _ k (by intro ⟨x, _⟩; exact hod_next x.symm), hrest4 _ k (by intro ⟨x, _⟩; exact hod_next x.symm) (by intro ⟨x, _⟩; exact hcd_next x.symm)]
          exact hnew3 k hk
        · intro i x y
          exact isRaw_of_eq ((keep5 _ i (by intro ⟨z, _⟩; exact hod_next z.symm)).trans
            (hrest4 _ i (by intro ⟨z, _⟩; exact hod_next z.symm) (by intro ⟨z, _⟩; exact hcd_next z.symm))) (hrawN3 i x y)
        · intro k hk
          rw [keep5 od k (by intro ⟨_, z, _⟩; omega)]
          have := hv4 k hk
          simp only [Nat.zero_add] at this
          rw [this, hcd3 k]
        · intro i x y; exact hr5 i x (by omega)
        · intro i x
          rw [keep5 od i (by intro ⟨_, _, z⟩; omega), hrest4 od i (by intro ⟨_, _, z⟩; omega) (by intro ⟨z, _⟩; exact hd z)]
          exact hod3 i x
        · intro k hk
          refine isObj_of_eq (keep5 cd k (by intro ⟨z, _⟩; exact hd z.symm)) ?_
          have := hh4 k hk
          simp only [Nat.zero_add] at this
          unfold IsObj; rw [this]
          by_cases hrm : cfg.realMove = true
          · exact ⟨.husk, by simp [hrm]⟩
          · obtain ⟨v, hv'⟩ := hcobj k hk; exact ⟨v, by simp [hrm, hcd3 k, hv']⟩
        · intro i x
          rw [keep5 cd i (by intro ⟨z, _⟩; exact hd z.symm), hrest4 cd i (by intro ⟨z, _⟩; exact hd z.symm) (by intro ⟨_, _, z⟩; omega)]
          exact hcd3 i
        · intro b i h1 h2 h3'
          rw [keep5 b i (by intro ⟨z, _⟩; exact h2 z), hrest4 b i (by intro ⟨z, _⟩; exact h2 z) (by intro ⟨z, _⟩; exact h3' z)]
          exact hoth3 b i h1 h2

/-- the unguarded tail of the reallocating swap: destroy `c`'s old elements, release its old block, switch it to the new
    block, exchange the sizes -/
theorem swapUneq_finish_sat (cfg : Cfg) (c o : Nat) (w w5 : World α) (ncap : Nat)
    (hv : VecOK cfg w c) (hl : Ledger w) (hvo : VecOK cfg w o) (hco : c ≠ o) (hb : SwapBuilt w w5 c o ncap)
    (hN : (w.hdr c).N < ncap) (hmax : ncap ≤ cfg.maxSize)
    (hle : (w.hdr c).size ≤ (w.hdr o).size) (hfit : (w.hdr o).size ≤ ncap)
    (hd : (w.hdr o).data ≠ (w.hdr c).data) (hi : (w.hdr o).data ≠ (w.hdr c).inl) :
    ((destroyRange cfg (w.hdr c).data 0 (w.hdr c).size >>= fun _ =>
      (if decide ((w.hdr c).N < (w.hdr c).cap) = true then deallocate (w.hdr c).alloc (w.hdr c).data (w.hdr c).cap else pure ()) >>= fun _ =>
      setDataPtr c w.next >>= fun _ => setCapacity c ncap >>= fun _ => swapSize c o) w5).sat
      (fun _ w' => ∃ wh, Basic cfg w wh o ∧ Basic cfg wh w' c ∧
          w'.hdr c = { w.hdr c with data := w.next, cap := ncap, size := (w.hdr o).size } ∧
          w'.hdr o = { w.hdr o with size := (w.hdr c).size } ∧
          (∀ k, k < (w.hdr o).size → (w'.mem w.next)[k]? = (w.mem (w.hdr o).data)[k]?) ∧
          (∀ k, k < (w.hdr c).size → (w'.mem (w.hdr o).data)[k]? = (w.mem (w.hdr c).data)[k]?))
      (fun _ _ => False) := by
  have hoc : o ≠ c := fun e => hco e.symm
  obtain ⟨hnd, hni⟩ := hv.next_ne hl
  have hod_lt : (w.hdr o).data < w.next := hvo.data_lt_next hl
  have hod_next : (w.hdr o).data ≠ w.next := by omega
  have hcd_next : (w.hdr c).data ≠ w.next := Ne.symm hnd
  have hds := destroyRange_sat cfg (w.hdr c).data (w.hdr c).size 0 w5 (fun i _ y => hb.cobj i (by omega))
  rw [bind_run]
  cases h6 : destroyRange cfg (w.hdr c).data 0 (w.hdr c).size w5 with
  | thrown e w6 => exact (sat_of_thrown hds h6).elim
  | ok u6 w6 =>
    obtain ⟨hc56, hr6, hrest6⟩ := sat_of_ok hds h6
    try simp only []
    have hraw6 : ∀ i, i < (w.hdr c).cap → IsRaw w6 (w.hdr c).data i := by
      intro i hi'
      by_cases h : i < (w.hdr c).size
      · exact hr6 i (Nat.zero_le _) (by omega)
      · exact isRaw_of_eq ((hrest6 _ i (by intro ⟨_, _, h3⟩; omega)).trans (hb.crest i (by omega))) (hv.raws i (by omega) hi')
    have keep6 : ∀ (b i : Nat), b ≠ (w.hdr c).data → (w6.mem b)[i]? = (w5.mem b)[i]? := fun b i hb' => hrest6 b i (by intro ⟨x, _⟩; exact hb' x)
    -- after the optional deallocation
    have step7 : ∃ w7, (if decide ((w.hdr c).N < (w.hdr c).cap) = true then deallocate (w.hdr c).alloc (w.hdr c).data (w.hdr c).cap else pure ()) w6 = .ok () w7 ∧
        w7.hdr = w.hdr ∧ w7.owner = upd w.owner w.next (w.hdr c).alloc ∧ w7.next = w.next + 2 ∧ w7.ntmp = w.ntmp ∧ w7.ub = w.ub ∧
        w7.live = (if (w.hdr c).N < (w.hdr c).cap then (w.next :: w.live).erase (w.hdr c).data else w.next :: w.live) ∧
        (∀ b, b ≠ (w.hdr c).data → w7.mem b = w6.mem b) ∧
        (if (w.hdr c).N < (w.hdr c).cap then w7.mem (w.hdr c).data = []
         else (w7.mem (w.hdr c).data).length = (w.hdr c).cap ∧ ∀ i, i < (w.hdr c).cap → IsRaw w7 (w.hdr c).data i) := by
      by_cases hch : (w.hdr c).N < (w.hdr c).cap
      · have hne : (w.hdr c).data ≠ (w.hdr c).inl := (hv.heap_iff).mp hch
        obtain ⟨hlive, hown⟩ := hv.heap hne
        rw [if_pos (decide_eq_true hch)]
        rw [deallocate_run _ _ _ w6 (by rw [hc56.live, hb.live]; simp [hlive]) (by rw [hc56.len, hb.len _ hcd_next, hv.len]) hraw6
          (by rw [hc56.owner, hb.owner, upd_other _ _ _ _ hcd_next]; exact hown)]
        refine ⟨_, rfl, hc56.hdr.trans hb.hdr, hc56.owner.trans hb.owner, hc56.next.trans hb.next, hc56.ntmp.trans hb.ntmp, hc56.ub.trans hb.ub, ?_, ?_, ?_⟩
        · show w6.live.erase _ = _; rw [hc56.live, hb.live, if_pos hch]
        · intro b hb'; show upd w6.mem _ [] b = _; rw [upd_other _ _ _ _ hb']
        · rw [if_pos hch]; show upd w6.mem _ [] _ = _; simp
      · rw [if_neg (by simpa using hch)]
        refine ⟨w6, rfl, hc56.hdr.trans hb.hdr, hc56.owner.trans hb.owner, hc56.next.trans hb.next, hc56.ntmp.trans hb.ntmp, hc56.ub.trans hb.ub, ?_, fun _ _ => rfl, ?_⟩
        · rw [hc56.live, hb.live, if_neg hch]
        · rw [if_neg hch]; exact ⟨by rw [hc56.len, hb.len _ hcd_next, hv.len], hraw6⟩
    obtain ⟨w7, hrun7, hh7, ho7, hn7, ht7, hu7, hlv7, hoth7, hold7⟩ := step7
    rw [bind_run, hrun7]
    simp only []
    have htail : (setDataPtr c w.next >>= fun _ => setCapacity c ncap >>= fun _ => swapSize c o) w7 =
        .ok () { w7 with hdr := upd (upd w.hdr o { w.hdr o with size := (w.hdr c).size }) c { w.hdr c with data := w.next, cap := ncap, size := (w.hdr o).size } } := by
      show Res.ok () _ = Res.ok () _
      congr 1
      apply world_hdr_ext
      intro x
      rw [hh7]
      by_cases hxc : x = c
      · rw [hxc]; simp [upd_other _ _ _ _ hco, upd_other _ _ _ _ hoc]
      · by_cases hxo : x = o
        · rw [hxo]; simp [upd_other _ _ _ _ hco, upd_other _ _ _ _ hoc]
        · simp [upd_other _ _ _ _ hxc, upd_other _ _ _ _ hxo]
    rw [htail]
    generalize hw8 : ({ w7 with hdr := upd (upd w.hdr o { w.hdr o with size := (w.hdr c).size }) c { w.hdr c with data := w.next, cap := ncap, size := (w.hdr o).size } } : World α) = w8
    have hm8 : w8.mem = w7.mem := by subst hw8; rfl
    have hh8 : w8.hdr = upd (upd w.hdr o { w.hdr o with size := (w.hdr c).size }) c { w.hdr c with data := w.next, cap := ncap, size := (w.hdr o).size } := by subst hw8; rfl
    have hq8 : w8.live = w7.live ∧ w8.next = w7.next ∧ w8.ntmp = w7.ntmp ∧ w8.owner = w7.owner ∧ w8.ub = w7.ub := by subst hw8; exact ⟨rfl, rfl, rfl, rfl, rfl⟩
    have mem8 : ∀ (b i : Nat), b ≠ (w.hdr c).data → (w8.mem b)[i]? = (w5.mem b)[i]? := fun b i hb' => by
      rw [hm8, hoth7 b hb', keep6 b i hb']
    have len8 : ∀ b, b ≠ (w.hdr c).data → (w8.mem b).length = (w5.mem b).length := fun b hb' => by
      rw [hm8, hoth7 b hb', hc56.len]
    -- the step on o
    have hb1 : Basic cfg w (mid w w8 o (w.hdr c).size) o := by
      refine mid_basic cfg hvo hl (by rw [len8 _ hd, hb.len _ hod_next]) (Nat.le_trans hle hvo.size_le) ?_ ?_
      · intro i hi'
        obtain ⟨v, hv'⟩ := hv.objs i hi'
        exact ⟨v, by rw [mem8 _ i hd, hb.odv i hi']; exact hv'⟩
      · intro i x y
        by_cases h : i < (w.hdr o).size
        · exact isRaw_of_eq (mem8 _ i hd) (hb.otail i x h)
        · exact isRaw_of_eq ((mem8 _ i hd).trans (hb.orest i (by omega))) (hvo.raws i (by omega) y)
    have hvh : VecOK cfg (mid w w8 o (w.hdr c).size) c := mid_vecOK cfg hv hco hd hi
    have hmc : (mid w w8 o (w.hdr c).size).hdr c = w.hdr c := by show (upd w.hdr o _) c = _; rw [upd_other _ _ _ _ hco]
    have hres := realloc_ok_alloc cfg (w := mid w w8 o (w.hdr c).size) (w' := w8) (c := c) (ncap := ncap) (n' := (w.hdr o).size) (w.hdr c).alloc
      hvh hb1.led (by rw [hmc]; exact hN) hmax hfit
      (by
        rw [hh8]
        show upd (upd w.hdr o _) c _ = upd (upd w.hdr o _) c _
        congr 1
        rw [hmc]; rfl)
      (by rw [hq8.2.1]; exact hn7) (by rw [hq8.2.2.1]; exact ht7)
      (by rw [hq8.1, hlv7, hmc]; rfl)
      (by rw [hq8.2.2.2.1]; exact ho7)
      (by show (w8.mem w.next).length = ncap; rw [len8 _ hnd]; exact hb.lenN)
      (by
        show ∀ i, i < (w.hdr o).size → IsObj w8 w.next i
        intro i hi'
        obtain ⟨v, hv'⟩ := hvo.objs i hi'
        exact ⟨v, by rw [mem8 _ i hnd, hb.newv i hi']; exact hv'⟩)
      (by
        show ∀ i, (w.hdr o).size ≤ i → i < ncap → IsRaw w8 w.next i
        intro i x y
        exact isRaw_of_eq (mem8 _ i hnd) (hb.newr i x y))
      (by
        rw [hmc]
        by_cases hch : (w.hdr c).N < (w.hdr c).cap
        · rw [if_pos hch] at hold7 ⊢; rw [hm8]; exact hold7
        · rw [if_neg hch] at hold7 ⊢
          exact ⟨by rw [hm8]; exact hold7.1, fun i hi' => by unfold IsRaw; rw [hm8]; exact hold7.2 i hi'⟩)
      (by
        rw [hmc]
        intro b h1 h2
        have h2' : b ≠ w.next := h2
        by_cases hbo : b = (w.hdr o).data
        · rw [hbo, mid_mem_b]
        · rw [mid_mem_other _ _ _ _ _ hbo]
          exact mem_eq_of_slots (by rw [len8 b h1, hb.len b h2']) (fun i => (mem8 b i h1).trans (hb.other b i h2' hbo h1)))
    obtain ⟨hvec, hled, hframe⟩ := hres
    have hub8 : w8.ub = w.ub := by rw [hq8.2.2.2.2]; exact hu7
    refine ⟨_, hb1, ⟨hvec, hled, hub8, hframe⟩, by rw [hh8]; simp, by rw [hh8]; simp [upd_other _ _ _ _ hoc], ?_, ?_⟩
    · intro k hk; rw [mem8 _ k hnd]; exact hb.newv k hk
    · intro k hk; rw [mem8 _ k hd]; exact hb.odv k hk

end SvModel
