/-
Element-wise move assignment, in-place paths (`move_assign_default` / `move_assign_unequal_no_propagate` when the
source's elements fit in the destination's current capacity and the buffer cannot be stolen):
move-assign over the common prefix, then move-construct the rest or destroy the surplus, then set the size.

The destination `c` and the source `o` both change (the source's elements become moved-from).  The outcome is described
through a FICTITIOUS intermediate world `husked w w' b` in which only the source's block has its final contents:
`Basic cfg w (husked …) o` (the source is still a valid container: same header, every slot in [0, size) an object) and
`Basic cfg (husked …) w' c` (relative to it the call is an ordinary in-place change of `c`).  Two applications of
`SysOK.step` then give the system invariant for `w'` without any new system-level machinery.
-/
import SvModel.Proofs.MoveAssignSpec
import SvModel.Proofs.SysInv

namespace SvModel
open Gen
variable {α : Type}

/-- `w` with block `b` taken from `w'` -/
def husked (w w' : World α) (b : Nat) : World α := { w with mem := upd w.mem b (w'.mem b) }

theorem husked_mem_b (w w' : World α) (b : Nat) : (husked w w' b).mem b = w'.mem b := by simp [husked]
theorem husked_mem_other (w w' : World α) (b b' : Nat) (h : b' ≠ b) : (husked w w' b).mem b' = w.mem b' := by
  simp [husked, upd_other _ _ _ _ h]

/-- the source side: only live slots of `o`'s buffer changed and they are still objects -/
theorem basic_husked (cfg : Cfg) {w w' : World α} {o : Nat} (hvo : VecOK cfg w o) (hl : Ledger w)
    (hlen : (w'.mem (w.hdr o).data).length = (w.mem (w.hdr o).data).length)
    (hobj : ∀ i, i < (w.hdr o).size → IsObj w' (w.hdr o).data i)
    (hrest : ∀ i, (w.hdr o).size ≤ i → (w'.mem (w.hdr o).data)[i]? = (w.mem (w.hdr o).data)[i]?) :
    Basic cfg w (husked w w' (w.hdr o).data) o := by
  refine basic_of_touched cfg (P := fun b i => b = (w.hdr o).data ∧ i < (w.hdr o).size) hvo hl ?_ (fun b i h => h)
  refine ⟨⟨rfl, rfl, rfl, rfl, rfl, rfl, fun b => ?_⟩, fun b i hn => ?_, fun b i hp _ => ?_⟩
  · by_cases hb : b = (w.hdr o).data
    · rw [hb, husked_mem_b]; exact hlen
    · rw [husked_mem_other _ _ _ _ hb]
  · by_cases hb : b = (w.hdr o).data
    · rw [hb, husked_mem_b]
      exact hrest i (by
        apply Nat.le_of_not_lt
        intro h; exact hn ⟨hb, h⟩)
    · rw [husked_mem_other _ _ _ _ hb]
  · obtain ⟨hb, hi⟩ := hp
    rw [hb]; unfold IsObj; rw [husked_mem_b]; exact hobj i hi

/-- the in-place element-wise move assignment `c = std::move (o)` (contents fit, no steal), followed by set_size -/
theorem moveAssignInPlace_sat (cfg : Cfg) (c o : Nat) (w : World α)
    (hv : VecOK cfg w c) (hl : Ledger w) (hvo : VecOK cfg w o)
    (hfit : (w.hdr o).size ≤ (w.hdr c).cap)
    (hd : (w.hdr o).data ≠ (w.hdr c).data) (hi : (w.hdr o).data ≠ (w.hdr c).inl) :
    ((moveAssignInPlace cfg c (w.hdr c) (w.hdr o) (decide ((w.hdr c).size < (w.hdr o).size)) >>= fun _ => setSize c (w.hdr o).size) w).sat
      (fun _ w' => Basic cfg w (husked w w' (w.hdr o).data) o ∧ Basic cfg (husked w w' (w.hdr o).data) w' c ∧
          w'.hdr c = { w.hdr c with size := (w.hdr o).size } ∧
          (∀ k, k < (w.hdr o).size → (w'.mem (w.hdr c).data)[k]? = (w.mem (w.hdr o).data)[k]?) ∧
          w'.live = w.live ∧ w'.next = w.next)
      (fun _ w' => Basic cfg w (husked w w' (w.hdr o).data) o ∧ Basic cfg (husked w w' (w.hdr o).data) w' c ∧
          w'.hdr c = w.hdr c ∧ w'.live = w.live ∧ w'.next = w.next) := by
  generalize hcd : (w.hdr c).data = cd at *
  generalize hod : (w.hdr o).data = od at *
  generalize hcs : (w.hdr c).size = cs at *
  generalize hos : (w.hdr o).size = os at *
  have hcobj : ∀ i, i < cs → IsObj w cd i := fun i hi => by rw [← hcd]; exact hv.objs i (by rw [hcs]; exact hi)
  have hcraw : ∀ i, cs ≤ i → i < (w.hdr c).cap → IsRaw w cd i := fun i h1 h2 => by rw [← hcd]; exact hv.raws i (by rw [hcs]; exact h1) h2
  have hoobj : ∀ i, i < os → IsObj w od i := fun i hi => by rw [← hod]; exact hvo.objs i (by rw [hos]; exact hi)
  -- finishing: from the facts about the final memory derive the two `Basic`s
  have finish : ∀ (w' : World α) (n' : Nat), Ctl0 w w' → w'.hdr = upd w.hdr c { w.hdr c with size := n' } → n' ≤ (w.hdr c).cap →
      (∀ i, i < n' → IsObj w' cd i) → (∀ i, n' ≤ i → i < (w.hdr c).cap → IsRaw w' cd i) →
      (∀ i, i < os → IsObj w' od i) → (∀ i, os ≤ i → (w'.mem od)[i]? = (w.mem od)[i]?) →
      (∀ (b i : Nat), b ≠ cd → b ≠ od → (w'.mem b)[i]? = (w.mem b)[i]?) →
      Basic cfg w (husked w w' od) o ∧ Basic cfg (husked w w' od) w' c := by
    intro w' n' hc hh hn hobj hraw hsobj hsrest hother
    have hb1 : Basic cfg w (husked w w' od) o := by
      have := basic_husked cfg (w' := w') hvo hl (by rw [hod]; exact hc.len od (by
          by_cases hne : (w.hdr o).data = (w.hdr o).inl
          · right; left; rw [← hod, hne]; have := hvo.inl_lt; omega
          · left; rw [← hod]; exact (hvo.data_odd hl hne).2.1))
        (by rw [hod, hos]; exact hsobj) (by rw [hod, hos]; exact hsrest)
      rw [hod] at this; exact this
    refine ⟨hb1, ?_⟩
    -- c in the intermediate world: untouched
    have hvh : VecOK cfg (husked w w' od) c := by
      refine hv.transfer rfl (by rw [hcd, husked_mem_other _ _ _ _ (Ne.symm hd)]) ?_ ?_ (fun hne => hv.heap hne) ?_
      · intro i hi; unfold IsObj; rw [hcd, husked_mem_other _ _ _ _ (Ne.symm hd), ← hcd]; exact hv.objs i hi
      · intro i h1 h2; unfold IsRaw; rw [hcd, husked_mem_other _ _ _ _ (Ne.symm hd), ← hcd]; exact hv.raws i h1 h2
      · intro hne
        obtain ⟨h1, h2⟩ := hv.idle hne
        exact ⟨by rw [husked_mem_other _ _ _ _ (Ne.symm hi)]; exact h1, fun i hi' => by unfold IsRaw; rw [husked_mem_other _ _ _ _ (Ne.symm hi)]; exact h2 i hi'⟩
    have hc' : Ctl0 (husked w w' od) w' := by
      refine ⟨hc.owner, hc.live, hc.next, hc.ub, hc.ntmp, fun b hb => ?_⟩
      by_cases hbo : b = od
      · rw [hbo, husked_mem_b]
      · rw [husked_mem_other _ _ _ _ hbo]; exact hc.len b hb
    obtain ⟨h1, h2, h3⟩ := inplace_ok cfg (n' := n') hvh hb1.led hc' hh hn
      (fun i hi => by show IsObj w' (w.hdr c).data i; rw [hcd]; exact hobj i hi)
      (fun i a b => by show IsRaw w' (w.hdr c).data i; rw [hcd]; exact hraw i a b)
      (fun b i hb _ => by
        by_cases hbo : b = od
        · rw [hbo, husked_mem_b]
        · rw [husked_mem_other _ _ _ _ hbo]; exact hother b i (by rw [← hcd]; exact hb) hbo)
    exact ⟨h1, h2, hc.ub, h3⟩
  have hcls_o : od % 2 = 1 ∨ od < 6 := by
    by_cases hne : (w.hdr o).data = (w.hdr o).inl
    · right; rw [← hod, hne]; have := hvo.inl_lt; omega
    · left; rw [← hod]; exact (hvo.data_odd hl hne).2.1
  have hss : ∀ (n : Nat) (x : World α), setSize c n x = .ok () { x with hdr := upd x.hdr c { x.hdr c with size := n } } := fun _ _ => rfl
  unfold moveAssignInPlace
  simp only [hcd, hod, hcs, hos]
  by_cases hless : cs < os
  · ------------------------------------------------------------------ grow: assign over [0, cs), construct [cs, os)
    simp only [hless, decide_true, if_true]
    rw [bind_run, bind_run]
    have hasg := assignGen_move_sat cfg cd od hd cs 0 0 w (fun k hk => by simpa using hoobj k (by omega)) (fun k hk => by simpa using hcobj k hk)
    cases ha : assignGen cfg cd 0 (srcsMove od 0 cs) w with
    | thrown e w1 =>
      obtain ⟨_, hc1, hd1, hs1, hrest1⟩ := sat_of_thrown hasg ha
      try simp only []
      have hh1 : w1.hdr = upd w.hdr c { w.hdr c with size := cs } := by rw [hc1.hdr, ← hcs]; exact (upd_self w.hdr c).symm
      obtain ⟨b1, b2⟩ := finish w1 cs hc1.to0 hh1 (by rw [← hcs]; exact hv.size_le)
        (fun i hi => by simpa using hd1 i hi)
        (fun i a b => isRaw_of_eq (hrest1 cd i (by intro ⟨_, _, h⟩; omega) (by intro ⟨h, _, _⟩; exact hd h.symm)) (hcraw i a b))
        (fun i hi => by
          by_cases h : i < cs
          · simpa using hs1 i h
          · exact isObj_of_eq (hrest1 od i (by intro ⟨h', _, _⟩; exact hd h') (by intro ⟨_, _, h'⟩; omega)) (hoobj i hi))
        (fun i hi => hrest1 od i (by intro ⟨h', _, _⟩; exact hd h') (by intro ⟨_, _, h'⟩; omega))
        (fun b i h1 h2 => hrest1 b i (by intro ⟨h', _, _⟩; exact h1 h') (by intro ⟨h', _, _⟩; exact h2 h'))
      exact ⟨b1, b2, by rw [hc1.hdr], hc1.live, hc1.next⟩
    | ok u1 w1 =>
      obtain ⟨hc1, hv1, hh1, hrest1⟩ := sat_of_ok hasg ha
      try simp only []
      have hsrc1 : ∀ k, k < os - cs → IsObj w1 od (cs + k) := fun k hk =>
        isObj_of_eq (hrest1 od (cs + k) (by intro ⟨h, _, _⟩; exact hd h) (by intro ⟨_, _, h⟩; omega)) (hoobj (cs + k) (by omega))
      have hraw1 : ∀ k, k < os - cs → IsRaw w1 cd (cs + k) := fun k hk =>
        isRaw_of_eq (hrest1 cd (cs + k) (by intro ⟨_, _, h⟩; omega) (by intro ⟨h, _, _⟩; exact hd h.symm)) (hcraw (cs + k) (by omega) (by omega))
      have hmv := uninitializedMove_sat cfg false od cs (os - cs) cd cs w1 hsrc1 hraw1
      -- the moved-from prefix of the source is made of objects
      have hpre1 : ∀ k, k < cs → IsObj w1 od k := by
        intro k hk
        have := hh1 k hk
        simp only [Nat.zero_add] at this
        unfold IsObj; rw [this]
        by_cases hrm : cfg.realMove = true
        · exact ⟨.husk, by simp [hrm]⟩
        · obtain ⟨v, hv'⟩ := hoobj k (by omega); exact ⟨v, by simp [hrm, hv']⟩
      cases hm : uninitializedMove cfg false od cs (os - cs) cd cs w1 with
      | thrown e w2 =>
        obtain ⟨_, hf⟩ := sat_of_thrown hmv hm
        try simp only []
        have hc2 : Ctl w w2 := hc1.trans hf.ctl
        have hh2 : w2.hdr = upd w.hdr c { w.hdr c with size := cs } := by rw [hc2.hdr, ← hcs]; exact (upd_self w.hdr c).symm
        obtain ⟨b1, b2⟩ := finish w2 cs hc2.to0 hh2 (by rw [← hcs]; exact hv.size_le)
          (fun i hi => by
            refine isObj_of_eq (hf.rest cd i (by intro ⟨_, h, _⟩; omega) (by intro ⟨h, _, _⟩; exact hd h.symm)) ?_
            have := hv1 i hi; simp only [Nat.zero_add] at this
            obtain ⟨v, hv'⟩ := hoobj i (by omega); exact ⟨v, by rw [this]; exact hv'⟩)
          (fun i a b => by
            by_cases h : i < os
            · have := hf.dst (i - cs) (by omega); rw [show cs + (i - cs) = i by omega] at this; exact this
            · exact isRaw_of_eq ((hf.rest cd i (by intro ⟨_, _, h'⟩; omega) (by intro ⟨h', _, _⟩; exact hd h'.symm)).trans
                (hrest1 cd i (by intro ⟨_, _, h'⟩; omega) (by intro ⟨h', _, _⟩; exact hd h'.symm))) (hcraw i a b))
          (fun i hi => by
            by_cases h : i < cs
            · exact isObj_of_eq (hf.rest od i (by intro ⟨h', _, _⟩; exact hd h') (by intro ⟨_, h', _⟩; omega)) (hpre1 i h)
            · have := hf.src (i - cs) (by omega); rw [show cs + (i - cs) = i by omega] at this; exact this)
          (fun i hi => (hf.rest od i (by intro ⟨h', _, _⟩; exact hd h') (by intro ⟨_, _, h'⟩; omega)).trans
            (hrest1 od i (by intro ⟨h', _, _⟩; exact hd h') (by intro ⟨_, _, h'⟩; omega)))
          (fun b i h1 h2 => (hf.rest b i (by intro ⟨h', _, _⟩; exact h1 h') (by intro ⟨h', _, _⟩; exact h2 h')).trans
            (hrest1 b i (by intro ⟨h', _, _⟩; exact h1 h') (by intro ⟨h', _, _⟩; exact h2 h')))
        exact ⟨b1, b2, by rw [hc2.hdr], hc2.live, hc2.next⟩
      | ok u2 w2 =>
        have hr := sat_of_ok hmv hm
        try simp only []
        rw [hss]
        generalize hw3 : ({ w2 with hdr := upd w2.hdr c { w2.hdr c with size := os } } : World α) = w3
        have hm3 : w3.mem = w2.mem := by subst hw3; rfl
        have hc2 : Ctl w w2 := hc1.trans hr.ctl
        have hc3 : Ctl0 w w3 := by
          have := hc2.to0
          subst hw3
          exact ⟨this.owner, this.live, this.next, this.ub, this.ntmp, this.len⟩
        have hh3 : w3.hdr = upd w.hdr c { w.hdr c with size := os } := by subst hw3; show upd w2.hdr c _ = _; rw [hc2.hdr]
        have hval3 : ∀ k, k < os → (w3.mem cd)[k]? = (w.mem od)[k]? := by
          intro k hk
          rw [hm3]
          by_cases h : k < cs
          · rw [hr.rest cd k (by intro ⟨_, h', _⟩; omega) (by intro ⟨h', _, _⟩; exact hd h'.symm)]
            have := hv1 k h; simpa using this
          · have := hr.dst (k - cs) (by omega)
            rw [show cs + (k - cs) = k by omega] at this
            rw [this]
            exact hrest1 od k (by intro ⟨h', _, _⟩; exact hd h') (by intro ⟨_, _, h'⟩; omega)
        obtain ⟨b1, b2⟩ := finish w3 os hc3 hh3 hfit
          (fun i hi => by obtain ⟨v, hv'⟩ := hoobj i hi; exact ⟨v, by rw [hval3 i hi]; exact hv'⟩)
          (fun i a b => by
            unfold IsRaw; rw [hm3]
            exact isRaw_of_eq ((hr.rest cd i (by intro ⟨_, _, h'⟩; omega) (by intro ⟨h', _, _⟩; exact hd h'.symm)).trans
              (hrest1 cd i (by intro ⟨_, _, h'⟩; omega) (by intro ⟨h', _, _⟩; exact hd h'.symm))) (hcraw i (by omega) b))
          (fun i hi => by
            unfold IsObj; rw [hm3]
            by_cases h : i < cs
            · exact isObj_of_eq (hr.rest od i (by intro ⟨h', _, _⟩; exact hd h') (by intro ⟨_, h', _⟩; omega)) (hpre1 i h)
            · have := hr.src (i - cs) (by omega); rw [show cs + (i - cs) = i by omega] at this; exact this)
          (fun i hi => by
            rw [hm3]
            exact (hr.rest od i (by intro ⟨h', _, _⟩; exact hd h') (by intro ⟨_, _, h'⟩; omega)).trans
              (hrest1 od i (by intro ⟨h', _, _⟩; exact hd h') (by intro ⟨_, _, h'⟩; omega)))
          (fun b i h1 h2 => by
            rw [hm3]
            exact (hr.rest b i (by intro ⟨h', _, _⟩; exact h1 h') (by intro ⟨h', _, _⟩; exact h2 h')).trans
              (hrest1 b i (by intro ⟨h', _, _⟩; exact h1 h') (by intro ⟨h', _, _⟩; exact h2 h')))
        refine ⟨b1, b2, by rw [hh3]; simp [hcd], hval3, hc3.live, hc3.next⟩
  · ------------------------------------------------------------------ shrink: assign over [0, os), destroy [os, cs)
    have hle : os ≤ cs := Nat.le_of_not_lt hless
    simp only [hless, decide_false, Bool.false_eq_true, if_false]
    rw [bind_run, bind_run]
    have hasg := assignGen_move_sat cfg cd od hd os 0 0 w (fun k hk => by simpa using hoobj k hk) (fun k hk => by simpa using hcobj k (by omega))
    cases ha : assignGen cfg cd 0 (srcsMove od 0 os) w with
    | thrown e w1 =>
      obtain ⟨_, hc1, hd1, hs1, hrest1⟩ := sat_of_thrown hasg ha
      try simp only []
      have hh1 : w1.hdr = upd w.hdr c { w.hdr c with size := cs } := by rw [hc1.hdr, ← hcs]; exact (upd_self w.hdr c).symm
      obtain ⟨b1, b2⟩ := finish w1 cs hc1.to0 hh1 (by rw [← hcs]; exact hv.size_le)
        (fun i hi => by
          by_cases h : i < os
          · simpa using hd1 i h
          · exact isObj_of_eq (hrest1 cd i (by intro ⟨_, _, h'⟩; omega) (by intro ⟨h', _, _⟩; exact hd h'.symm)) (hcobj i hi))
        (fun i a b => isRaw_of_eq (hrest1 cd i (by intro ⟨_, _, h⟩; omega) (by intro ⟨h, _, _⟩; exact hd h.symm)) (hcraw i a b))
        (fun i hi => by simpa using hs1 i hi)
        (fun i hi => hrest1 od i (by intro ⟨h', _, _⟩; exact hd h') (by intro ⟨_, _, h'⟩; omega))
        (fun b i h1 h2 => hrest1 b i (by intro ⟨h', _, _⟩; exact h1 h') (by intro ⟨h', _, _⟩; exact h2 h'))
      exact ⟨b1, b2, by rw [hc1.hdr], hc1.live, hc1.next⟩
    | ok u1 w1 =>
      obtain ⟨hc1, hv1, hh1, hrest1⟩ := sat_of_ok hasg ha
      try simp only []
      have hobj1 : ∀ i, os ≤ i → i < os + (cs - os) → IsObj w1 cd i := fun i a b =>
        isObj_of_eq (hrest1 cd i (by intro ⟨_, _, h⟩; omega) (by intro ⟨h, _, _⟩; exact hd h.symm)) (hcobj i (by omega))
      have hds := destroyRange_sat cfg cd (cs - os) os w1 hobj1
      cases hdr : destroyRange cfg cd os (cs - os) w1 with
      | thrown e w2 => exact (sat_of_thrown hds hdr).elim
      | ok u2 w2 =>
        obtain ⟨hc12, hr2, hrest2⟩ := sat_of_ok hds hdr
        try simp only []
        rw [hss]
        generalize hw3 : ({ w2 with hdr := upd w2.hdr c { w2.hdr c with size := os } } : World α) = w3
        have hm3 : w3.mem = w2.mem := by subst hw3; rfl
        have hc2 : Ctl w w2 := hc1.trans hc12
        have hc3 : Ctl0 w w3 := by
          have := hc2.to0
          subst hw3
          exact ⟨this.owner, this.live, this.next, this.ub, this.ntmp, this.len⟩
        have hh3 : w3.hdr = upd w.hdr c { w.hdr c with size := os } := by subst hw3; show upd w2.hdr c _ = _; rw [hc2.hdr]
        have hval3 : ∀ k, k < os → (w3.mem cd)[k]? = (w.mem od)[k]? := by
          intro k hk
          rw [hm3, hrest2 cd k (by intro ⟨_, h', _⟩; omega)]
          have := hv1 k hk; simpa using this
        obtain ⟨b1, b2⟩ := finish w3 os hc3 hh3 hfit
          (fun i hi => by obtain ⟨v, hv'⟩ := hoobj i hi; exact ⟨v, by rw [hval3 i hi]; exact hv'⟩)
          (fun i a b => by
            unfold IsRaw; rw [hm3]
            by_cases h : i < cs
            · exact hr2 i a (by omega)
            · exact isRaw_of_eq ((hrest2 cd i (by intro ⟨_, _, h'⟩; omega)).trans
                (hrest1 cd i (by intro ⟨_, _, h'⟩; omega) (by intro ⟨h', _, _⟩; exact hd h'.symm))) (hcraw i (by omega) b))
          (fun i hi => by
            unfold IsObj; rw [hm3, hrest2 od i (by intro ⟨h', _, _⟩; exact hd h')]
            have := hh1 i hi
            simp only [Nat.zero_add] at this
            rw [this]
            by_cases hrm : cfg.realMove = true
            · exact ⟨.husk, by simp [hrm]⟩
            · obtain ⟨v, hv'⟩ := hoobj i hi; exact ⟨v, by simp [hrm, hv']⟩)
          (fun i hi => by
            rw [hm3, hrest2 od i (by intro ⟨h', _, _⟩; exact hd h')]
            exact hrest1 od i (by intro ⟨h', _, _⟩; exact hd h') (by intro ⟨_, _, h'⟩; omega))
          (fun b i h1 h2 => by
            rw [hm3, hrest2 b i (by intro ⟨h', _, _⟩; exact h1 h')]
            exact hrest1 b i (by intro ⟨h', _, _⟩; exact h1 h') (by intro ⟨h', _, _⟩; exact h2 h'))
        refine ⟨b1, b2, by rw [hh3]; simp [hcd], hval3, hc3.live, hc3.next⟩

end SvModel
