/-
A step that changes TWO constructed containers at once (swap, and the hand-over paths of move assignment): the
counterpart of `SysOK.step` / `SysAll.step` when the outcome cannot be factorised into two single-container steps
because buffers change owner between the two containers.

`Frame2 w w' c o` lists what such a step may not touch; `SysAll.step2` is the preservation theorem, `Frame2.holds_other`
says that every third container keeps its header and its values.
-/
import SvModel.Proofs.SysInv

namespace SvModel
open Gen
variable {α : Type}

structure Frame2 (w w' : World α) (c o : Nat) : Prop where
  hdr_other : ∀ d, d ≠ c → d ≠ o → w'.hdr d = w.hdr d
  hdr_c     : (w'.hdr c).N = (w.hdr c).N ∧ (w'.hdr c).inl = (w.hdr c).inl
  hdr_o     : (w'.hdr o).N = (w.hdr o).N ∧ (w'.hdr o).inl = (w.hdr o).inl
  mem_other : ∀ b, b ≠ (w.hdr c).data → b ≠ (w.hdr c).inl → b ≠ (w.hdr o).data → b ≠ (w.hdr o).inl → b < w.next →
                b % 2 = 1 ∨ b < 5 → w'.mem b = w.mem b
  owner_old : ∀ b, b < w.next → w'.owner b = w.owner b
  next_mono : w.next ≤ w'.next
  /-- a heap buffer of `c` or `o` afterwards was a heap buffer of one of them before, or is new -/
  data_c    : (w'.hdr c).data ≠ (w'.hdr c).inl →
                ((w'.hdr c).data = (w.hdr c).data ∧ (w.hdr c).data ≠ (w.hdr c).inl) ∨
                ((w'.hdr c).data = (w.hdr o).data ∧ (w.hdr o).data ≠ (w.hdr o).inl) ∨ w.next ≤ (w'.hdr c).data
  data_o    : (w'.hdr o).data ≠ (w'.hdr o).inl →
                ((w'.hdr o).data = (w.hdr c).data ∧ (w.hdr c).data ≠ (w.hdr c).inl) ∨
                ((w'.hdr o).data = (w.hdr o).data ∧ (w.hdr o).data ≠ (w.hdr o).inl) ∨ w.next ≤ (w'.hdr o).data
  dist      : (w'.hdr c).data ≠ (w'.hdr c).inl → (w'.hdr o).data ≠ (w'.hdr o).inl → (w'.hdr c).data ≠ (w'.hdr o).data
  live_keep : ∀ b ∈ w.live, b ≠ (w.hdr c).data → b ≠ (w.hdr o).data → b ∈ w'.live
  live_acc  : ∀ b ∈ w'.live, b = (w'.hdr c).data ∨ b = (w'.hdr o).data ∨
                (b ∈ w.live ∧ b ≠ (w.hdr c).data ∧ b ≠ (w.hdr o).data)

/-- the in-object buffer of a third party (constructed or not) is untouched -/
theorem Frame2.inl_other {cfg : Cfg} {w w' : World α} {c o : Nat} (hf : Frame2 w w' c o)
    (hvc : VecOK cfg w c) (hvo : VecOK cfg w o) (hl : Ledger w) (hvc' : VecOK cfg w' c) (hvo' : VecOK cfg w' o)
    {i : Nat} (hi5 : i < 5)
    (hci : i ≠ (w.hdr c).inl ∨ ((w.hdr c).N = 0 ∧ w.mem i = []))
    (hoi : i ≠ (w.hdr o).inl ∨ ((w.hdr o).N = 0 ∧ w.mem i = [])) : w'.mem i = w.mem i := by
  have hn5 := hl.next_ok.2
  have notdata : ∀ {x : Nat}, VecOK cfg w x → i ≠ (w.hdr x).inl → i ≠ (w.hdr x).data := by
    intro x hvx hne h
    by_cases hch : (w.hdr x).data = (w.hdr x).inl
    · exact hne (h.trans hch)
    · have := (hvx.data_odd hl hch).1; omega
  by_cases h1 : i = (w.hdr c).inl
  · rcases hci with h | ⟨hN, hm⟩
    · exact absurd h1 h
    · have hN' : (w'.hdr c).N = 0 := by rw [hf.hdr_c.1]; exact hN
      have e2 := hvc'.inl_nil hN'
      rw [hf.hdr_c.2] at e2
      rw [h1, e2, ← h1, hm]
  · by_cases h2 : i = (w.hdr o).inl
    · rcases hoi with h | ⟨hN, hm⟩
      · exact absurd h2 h
      · have hN' : (w'.hdr o).N = 0 := by rw [hf.hdr_o.1]; exact hN
        have e2 := hvo'.inl_nil hN'
        rw [hf.hdr_o.2] at e2
        rw [h2, e2, ← h2, hm]
    · exact hf.mem_other i (notdata hvc h1) h1 (notdata hvo h2) h2 (by omega) (Or.inr hi5)

/-- a third constructed container: same header, same buffer contents, same in-object buffer -/
theorem SysOK.other2 {cfg : Cfg} {w w' : World α} {A : List Nat} {c o : Nat} (hs : SysOK cfg w A) (hc : c ∈ A) (ho : o ∈ A)
    (hf : Frame2 w w' c o) (hvc' : VecOK cfg w' c) (hvo' : VecOK cfg w' o) : ∀ d ∈ A, d ≠ c → d ≠ o →
      w'.hdr d = w.hdr d ∧ w'.mem (w.hdr d).data = w.mem (w.hdr d).data ∧ w'.mem (w.hdr d).inl = w.mem (w.hdr d).inl := by
  have hvc := hs.vec c hc
  have hvo := hs.vec o ho
  have hl := hs.led
  have hn5 := hl.next_ok.2
  intro d hd hdc hdo
  have hvd := hs.vec d hd
  have hinl : w'.mem (w.hdr d).inl = w.mem (w.hdr d).inl := by
    refine hf.inl_other hvc hvo hl hvc' hvo' hvd.inl_lt ?_ ?_
    · rcases (hs.sep d hd c hc hdc).inl with h | ⟨h1, h2⟩
      · exact Or.inl h
      · exact Or.inr ⟨h2, hvd.inl_nil h1⟩
    · rcases (hs.sep d hd o ho hdo).inl with h | ⟨h1, h2⟩
      · exact Or.inl h
      · exact Or.inr ⟨h2, hvd.inl_nil h1⟩
  refine ⟨hf.hdr_other d hdc hdo, ?_, hinl⟩
  by_cases hdh : (w.hdr d).data = (w.hdr d).inl
  · rw [hdh]; exact hinl
  · have hodd := hvd.data_odd hl hdh
    have := hvc.inl_lt; have := hvo.inl_lt
    exact hf.mem_other _ ((hs.sep d hd c hc hdc).data hdh) (by omega) ((hs.sep d hd o ho hdo).data hdh) (by omega) hodd.2.2 (Or.inl hodd.2.1)

theorem SysOK.holds_other2 {cfg : Cfg} {w w' : World α} {A : List Nat} {c o d : Nat} {xs : List (Val α)} (hs : SysOK cfg w A)
    (hc : c ∈ A) (ho : o ∈ A) (hf : Frame2 w w' c o) (hvc' : VecOK cfg w' c) (hvo' : VecOK cfg w' o)
    (hd : d ∈ A) (hdc : d ≠ c) (hdo : d ≠ o) (hx : Holds w d xs) : Holds w' d xs := by
  obtain ⟨hh, hm, _⟩ := hs.other2 hc ho hf hvc' hvo' d hd hdc hdo
  exact ⟨by rw [hh]; exact hx.1, fun i hi => by rw [hh, hm]; exact hx.2 i hi⟩

/-- TWO-CONTAINER STEP -/
theorem SysAll.step2 {cfg : Cfg} {w w' : World α} {U A : List Nat} {c o : Nat} (hs : SysAll cfg w U A) (hc : c ∈ A) (ho : o ∈ A)
    (hco : c ≠ o) (hf : Frame2 w w' c o) (hvc' : VecOK cfg w' c) (hvo' : VecOK cfg w' o) (hl' : Ledger w') (hub : w'.ub = w.ub) :
    SysAll cfg w' U A := by
  have hvc := hs.ok.vec c hc
  have hvo := hs.ok.vec o ho
  have hl := hs.ok.led
  have hn5 := hl.next_ok.2
  have other := hs.ok.other2 hc ho hf hvc' hvo'
  have hN : ∀ d, (w'.hdr d).N = (w.hdr d).N ∧ (w'.hdr d).inl = (w.hdr d).inl := by
    intro d
    by_cases h1 : d = c
    · rw [h1]; exact hf.hdr_c
    · by_cases h2 : d = o
      · rw [h2]; exact hf.hdr_o
      · rw [hf.hdr_other d h1 h2]; exact ⟨rfl, rfl⟩
  have hci5 := hvc.inl_lt
  have hoi5 := hvo.inl_lt
  -- where a heap buffer of c / o comes from: never a third party's buffer
  have foreign : ∀ x, (x = c ∨ x = o) → (w'.hdr x).data ≠ (w'.hdr x).inl → ∀ d ∈ A, d ≠ c → d ≠ o → (w'.hdr x).data ≠ (w.hdr d).data := by
    intro x hx hne d hd hdc hdo
    have hvd := hs.ok.vec d hd
    have hdlt := hvd.data_lt_next hl
    have key : ((w'.hdr x).data = (w.hdr c).data ∧ (w.hdr c).data ≠ (w.hdr c).inl) ∨
               ((w'.hdr x).data = (w.hdr o).data ∧ (w.hdr o).data ≠ (w.hdr o).inl) ∨ w.next ≤ (w'.hdr x).data := by
      rcases hx with h | h
      · rw [h] at hne ⊢; exact hf.data_c hne
      · rw [h] at hne ⊢; exact hf.data_o hne
    rcases key with ⟨h1, h2⟩ | ⟨h1, h2⟩ | h
    · rw [h1]; exact (hs.ok.sep c hc d hd (Ne.symm hdc)).data h2
    · rw [h1]; exact (hs.ok.sep o ho d hd (Ne.symm hdo)).data h2
    · omega
  have hok : SysOK cfg w' A := by
    refine ⟨?_, ?_, hl', by rw [hub]; exact hs.ok.ub, ?_, ?_⟩
    · intro d hd
      by_cases hdc : d = c
      · rw [hdc]; exact hvc'
      by_cases hdo : d = o
      · rw [hdo]; exact hvo'
      obtain ⟨hh, hmd, hmi⟩ := other d hd hdc hdo
      have hvd := hs.ok.vec d hd
      refine hvd.transfer hh (by rw [hmd]) (fun i hi => by unfold IsObj; rw [hmd]; exact hvd.objs i hi)
        (fun i h1 h2 => by unfold IsRaw; rw [hmd]; exact hvd.raws i h1 h2) ?_ ?_
      · intro hne
        obtain ⟨h1, h2⟩ := hvd.heap hne
        have hodd := hvd.data_odd hl hne
        exact ⟨hf.live_keep _ h1 ((hs.ok.sep d hd c hc hdc).data hne) ((hs.ok.sep d hd o ho hdo).data hne),
               by rw [hf.owner_old _ hodd.2.2]; exact h2⟩
      · intro hne
        obtain ⟨h1, h2⟩ := hvd.idle hne
        exact ⟨by rw [hmi]; exact h1, fun i hi => by unfold IsRaw; rw [hmi]; exact h2 i hi⟩
    · intro d hd
      rw [(hN d).1]; exact hs.ok.nmax d hd
    · -- separation
      intro x hx y hy hxy
      refine ⟨by rw [(hN x).1, (hN x).2, (hN y).1, (hN y).2]; exact (hs.ok.sep x hx y hy hxy).inl, fun hne => ?_⟩
      -- y's data pointer is its in-object buffer (< 5), or a heap block
      by_cases hyi : (w'.hdr y).data = (w'.hdr y).inl
      · rw [hyi]
        have hy5 : (w'.hdr y).inl < 5 := by rw [(hN y).2]; exact (hs.ok.vec y hy).inl_lt
        have hx5 : 5 ≤ (w'.hdr x).data := by
          by_cases hxc : x = c
          · rw [hxc] at hne ⊢; exact (hvc'.data_odd hl' hne).1
          by_cases hxo : x = o
          · rw [hxo] at hne ⊢; exact (hvo'.data_odd hl' hne).1
          rw [(other x hx hxc hxo).1] at hne ⊢; exact ((hs.ok.vec x hx).data_odd hl hne).1
        omega
      · by_cases hxc : x = c
        · by_cases hyo : y = o
          · rw [hxc] at hne ⊢; rw [hyo] at hyi ⊢; exact hf.dist hne hyi
          · have hyc : y ≠ c := fun h => hxy (hxc.trans h.symm)
            rw [(other y hy hyc hyo).1]
            exact foreign x (Or.inl hxc) hne y hy hyc hyo
        by_cases hxo : x = o
        · by_cases hyc : y = c
          · rw [hxo] at hne ⊢; rw [hyc] at hyi ⊢; exact fun h => hf.dist hyi hne h.symm
          · have hyo : y ≠ o := fun h => hxy (hxo.trans h.symm)
            rw [(other y hy hyc hyo).1]
            exact foreign x (Or.inr hxo) hne y hy hyc hyo
        have hhx := (other x hx hxc hxo).1
        by_cases hyc : y = c
        · rw [hyc] at hyi ⊢
          rw [hhx] at hne ⊢
          exact fun h => foreign c (Or.inl rfl) hyi x hx hxc hxo h.symm
        by_cases hyo : y = o
        · rw [hyo] at hyi ⊢
          rw [hhx] at hne ⊢
          exact fun h => foreign o (Or.inr rfl) hyi x hx hxc hxo h.symm
        rw [hhx] at hne ⊢
        rw [(other y hy hyc hyo).1]
        exact (hs.ok.sep x hx y hy hxy).data hne
    · intro b hbl
      rcases hf.live_acc b hbl with h | h | ⟨h1, h2, h3⟩
      · exact ⟨c, hc, h.symm⟩
      · exact ⟨o, ho, h.symm⟩
      · obtain ⟨d, hd, hdd⟩ := hs.ok.noleak b h1
        have hdc : d ≠ c := fun h => h2 (by rw [← hdd, h])
        have hdo : d ≠ o := fun h => h3 (by rw [← hdd, h])
        exact ⟨d, hd, by rw [(other d hd hdc hdo).1]; exact hdd⟩
  refine ⟨hs.sub, hok, ?_, fun d hd => by rw [(hN d).1]; exact hs.nmaxU d hd, ?_⟩
  · intro d hdU hdA
    have hdc : d ≠ c := fun h => hdA (h ▸ hc)
    have hdo : d ≠ o := fun h => hdA (h ▸ ho)
    have hud := hs.unborn d hdU hdA
    have hh := hf.hdr_other d hdc hdo
    have hm : w'.mem (w.hdr d).inl = w.mem (w.hdr d).inl := by
      refine hf.inl_other hvc hvo hl hvc' hvo' hud.inl_lt ?_ ?_
      · rcases hs.inlsep d hdU c (hs.sub c hc) hdc with h | ⟨h1, h2⟩
        · exact Or.inl h
        · exact Or.inr ⟨h2, hud.inl_nil h1⟩
      · rcases hs.inlsep d hdU o (hs.sub o ho) hdo with h | ⟨h1, h2⟩
        · exact Or.inl h
        · exact Or.inr ⟨h2, hud.inl_nil h1⟩
    exact ⟨by rw [hh]; exact hud.inl_lt, by rw [hh, hm]; exact hud.len, fun i hi => by rw [hh] at hi ⊢; unfold IsRaw; rw [hm]; exact hud.raws i hi⟩
  · intro x hx y hy hxy
    unfold InlSep
    rw [(hN x).1, (hN x).2, (hN y).1, (hN y).2]
    exact hs.inlsep x hx y hy hxy

end SvModel
