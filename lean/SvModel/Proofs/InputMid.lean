/-
C15 for the MID-SEQUENCE insert of a single-pass range (hpp:4084-4094): the range is consumed into a temporary container
(`append_range` element by element), whose elements are then moved in by `insert_range_helper`; the temporary is
destroyed on every exit.

The iterator protocol is a property of the event trace alone, so it is proved for EVERY world (no invariant needed):
the consuming loop adds exactly the events `deref p, incr p, deref p+1, …` — all of them when it returns, a prefix ending
in the dereference whose element failed when it throws — and no other part of the operation (temporary container,
reallocation, shifting, roll-back, destruction of the temporary) touches the iterator at all.
-/
import SvModel.Proofs.InputRange

namespace SvModel
open Gen
variable {α : Type}

theorem NoIter.emit (e : Ev) (he : e.isIter = false) : NoIter (emit e : M α Unit) := by
  intro w; show iterEvs (w.trace ++ [e]) = _; exact iterEvs_snoc _ _ he

theorem NoIter.allocTempN (n : Nat) : NoIter (allocTempN n : M α Nat) := fun _ => rfl

theorem NoIter.moveBackward (c : Cfg) (b a k : Nat) : ∀ n, NoIter (moveBackward c b a k n : M α Unit)
  | 0 => NoIter.pure ()
  | n+1 => NoIter.bind (NoIter.assignSrc _ _ _ _) (fun _ => NoIter.moveBackward c b a k n)

theorem NoIter.setSize (c n : Nat) : NoIter (setSize c n : M α Unit) := by
  unfold SvModel.setSize; exact NoIter.modV _ _

theorem NoIter.shiftIntoUninitialized (cfg : Cfg) (c pos n : Nat) : NoIter (shiftIntoUninitialized cfg c pos n : M α Nat) := by
  unfold SvModel.shiftIntoUninitialized
  exact NoIter.bind (NoIter.getV _) (fun v => NoIter.bind (NoIter.uninitializedMove _ _ _ _ _ _ _) (fun _ =>
    NoIter.bind (NoIter.setSize _ _) (fun _ => NoIter.bind (NoIter.moveBackward _ _ _ _ _) (fun _ => NoIter.pure _))))

theorem NoIter.rollbackShift (cfg : Cfg) (c pos ie d : Nat) (e : Exc) : NoIter (rollbackShift cfg c pos ie d e : M α Unit) := by
  unfold SvModel.rollbackShift
  exact NoIter.bind (NoIter.getV _) (fun v => NoIter.bind (NoIter.moveLeft _ _ _ _ _) (fun _ =>
    NoIter.bind (NoIter.destroyRange _ _ _ _) (fun _ => NoIter.bind (NoIter.setSize _ _) (fun _ => NoIter.throwE _))))

theorem NoIter.insertInPlaceSmall (cfg : Cfg) (c pos k : Nat) (fill : M α Unit) (hf : NoIter fill) :
    NoIter (insertInPlaceSmall cfg c pos k fill) := by
  unfold SvModel.insertInPlaceSmall
  exact NoIter.bind (NoIter.shiftIntoUninitialized _ _ _ _) (fun _ => NoIter.tryCatch hf (fun e => NoIter.rollbackShift _ _ _ _ _ e))

theorem NoIter.insertInPlaceLarge (cfg : Cfg) (c pos : Nat) (tailSrcs : List (Src α)) (headFill : Nat → M α Unit)
    (hf : ∀ t, NoIter (headFill t)) : NoIter (insertInPlaceLarge cfg c pos tailSrcs none headFill) := by
  unfold SvModel.insertInPlaceLarge
  refine NoIter.bind (NoIter.getV _) (fun v => NoIter.bind (NoIter.uninitGen _ _ _ _ _) (fun _ =>
    NoIter.bind (NoIter.setSize _ _) (fun _ => NoIter.tryCatch ?_ (fun e => ?_))))
  · exact NoIter.bind (NoIter.uninitializedMove _ _ _ _ _ _ _) (fun _ => NoIter.bind (NoIter.setSize _ _) (fun _ =>
      NoIter.tryCatch (hf 0) (fun e => NoIter.rollbackShift _ _ _ _ _ e)))
  · exact NoIter.bind (NoIter.getV _) (fun v' => NoIter.bind (NoIter.destroyRange _ _ _ _) (fun _ =>
      NoIter.bind (NoIter.setSize _ _) (fun _ => NoIter.throwE _)))

theorem NoIter.insertRealloc (cfg : Cfg) (c pos : Nat) (srcs : List (Src α)) : NoIter (insertRealloc cfg c pos srcs) := by
  unfold SvModel.insertRealloc
  refine NoIter.bind (NoIter.getV _) (fun v => NoIter.bind (NoIter.allocate _ _ _) (fun nb => ?_))
  refine NoIter.bind (NoIter.tryCatch (NoIter.uninitGen _ _ _ _ _) (fun e => NoIter.bind (NoIter.deallocate _ _ _) (fun _ => NoIter.throwE e))) (fun _ => ?_)
  refine NoIter.bind (NoIter.tryCatch (NoIter.uninitializedMove _ _ _ _ _ _ _)
    (fun e => NoIter.bind (NoIter.destroyRange _ _ _ _) (fun _ => NoIter.bind (NoIter.deallocate _ _ _) (fun _ => NoIter.throwE e)))) (fun _ => ?_)
  refine NoIter.bind (NoIter.tryCatch (NoIter.uninitializedMove _ _ _ _ _ _ _)
    (fun e => NoIter.bind (NoIter.destroyRange _ _ _ _) (fun _ => NoIter.bind (NoIter.deallocate _ _ _) (fun _ => NoIter.throwE e)))) (fun _ => ?_)
  exact NoIter.bind (NoIter.resetData _ _ _ _ _) (fun _ => NoIter.pure _)

theorem NoIter.insertRangeHelper (cfg : Cfg) (c pos : Nat) (srcs : List (Src α)) : NoIter (insertRangeHelper cfg c pos srcs) := by
  unfold SvModel.insertRangeHelper
  refine NoIter.bind (NoIter.getV _) (fun v => ?_)
  refine NoIter.ite (NoIter.ite (NoIter.throwE _) (NoIter.insertRealloc _ _ _ _)) (NoIter.ite ?_ ?_)
  · exact NoIter.bind (NoIter.insertInPlaceLarge _ _ _ _ _ (fun _ => NoIter.assignGen _ _ _ _)) (fun _ => NoIter.pure _)
  · exact NoIter.bind (NoIter.insertInPlaceSmall _ _ _ _ _ (NoIter.assignGen _ _ _ _)) (fun _ => NoIter.pure _)

/-- the consuming loop, trace only, ANY world: all positions on return, a prefix ending in a dereference on a throw -/
theorem appendRangeInputLoop_iter (cfg : Cfg) (c : Nat) (strong : Bool) (orig sid : Nat) :
    ∀ (xs : List α) (p : Nat) (w : World α),
      match appendRangeInputLoop cfg c strong orig sid p xs w with
      | .ok _ w' => iterEvs w'.trace = iterEvs w.trace ++ streamEvs sid p xs.length
      | .thrown _ w' => ∃ k, k < xs.length ∧ iterEvs w'.trace = iterEvs w.trace ++ streamEvs sid p k ++ [.deref sid (p + k)]
  | [], p, w => by simp [appendRangeInputLoop, streamEvs, pure, M.pure]
  | x :: xs, p, w => by
    unfold appendRangeInputLoop
    rw [bind_run, emit_run]
    simp only []
    generalize hw1 : ({ w with trace := w.trace ++ [Ev.deref sid p] } : World α) = w1
    have ht1 : iterEvs w1.trace = iterEvs w.trace ++ [.deref sid p] := by
      subst hw1; show iterEvs (w.trace ++ [_]) = _; rw [iterEvs_append]; rfl
    -- the element step adds no iterator event
    have hstep : NoIter (if strong then
        tryCatch (appendElement cfg c (.ext x))
          (fun e => getV c >>= fun v => eraseRange cfg c orig v.size >>= fun _ => throwE e)
       else appendElement cfg c (.ext x) : M α Nat) := by
      refine NoIter.ite (NoIter.tryCatch (NoIter.appendElement _ _ _) (fun e => ?_)) (NoIter.appendElement _ _ _)
      exact NoIter.bind (NoIter.getV _) (fun v => NoIter.bind (NoIter.eraseRange _ _ _ _) (fun _ => NoIter.throwE e))
    have h1 := hstep w1
    rw [bind_run]
    cases hs : (if strong then
        tryCatch (appendElement cfg c (.ext x))
          (fun e => getV c >>= fun v => eraseRange cfg c orig v.size >>= fun _ => throwE e)
       else appendElement cfg c (.ext x) : M α Nat) w1 with
    | thrown e w2 =>
      rw [hs] at h1; simp only [Res.world] at h1
      simp only []
      exact ⟨0, by simp, by rw [h1, ht1]; simp [streamEvs]⟩
    | ok r w2 =>
      rw [hs] at h1; simp only [Res.world] at h1
      simp only []
      rw [bind_run, emit_run]
      simp only []
      generalize hw3 : ({ w2 with trace := w2.trace ++ [Ev.incr sid p] } : World α) = w3
      have ht3 : iterEvs w3.trace = iterEvs w.trace ++ [.deref sid p, .incr sid p] := by
        subst hw3; show iterEvs (w2.trace ++ [_]) = _; rw [iterEvs_append, h1, ht1]; simp [iterEvs, Ev.isIter]
      have ih := appendRangeInputLoop_iter cfg c strong orig sid xs (p + 1) w3
      cases hr : appendRangeInputLoop cfg c strong orig sid (p + 1) xs w3 with
      | ok u w4 =>
        rw [hr] at ih; simp only [] at ih ⊢
        rw [ih, ht3]; simp [streamEvs]
      | thrown e w4 =>
        rw [hr] at ih; simp only [] at ih ⊢
        obtain ⟨k, hk, hev⟩ := ih
        refine ⟨k + 1, by simp; omega, ?_⟩
        rw [hev, ht3]
        simp [streamEvs, Nat.add_assoc, Nat.add_comm 1 k]

/-- `insert (pos, first, last)` with a single-pass range and `pos ≠ end ()`, for every world and every fault list:
    on return every position was dereferenced once and incremented once, in order, nothing beyond; on a throw either the
    whole range had been consumed (the throw came from the insertion proper) or a prefix, ending in the dereference of the
    element whose construction failed -/
theorem insertRangeInputMid_iter (cfg : Cfg) (c pos sid : Nat) (xs : List α) (w : World α) :
    match insertRangeInputMid cfg c pos sid xs w with
    | .ok _ w' => iterEvs w'.trace = iterEvs w.trace ++ streamEvs sid 0 xs.length
    | .thrown _ w' => iterEvs w'.trace = iterEvs w.trace ++ streamEvs sid 0 xs.length ∨
        ∃ k, k < xs.length ∧ iterEvs w'.trace = iterEvs w.trace ++ streamEvs sid 0 k ++ [.deref sid (0 + k)] := by
  unfold insertRangeInputMid
  rw [bind_run, getV_run]
  simp only []
  -- the temporary container's storage and header: no iterator event
  have hpre : NoIter ((if (w.hdr c).N = 0 then pure nullBlk else allocTempN (w.hdr c).N : M α Nat)) :=
    NoIter.ite (NoIter.pure _) (NoIter.allocTempN _)
  rw [bind_run]
  have h0 := hpre w
  cases hp : (if (w.hdr c).N = 0 then pure nullBlk else allocTempN (w.hdr c).N : M α Nat) w with
  | thrown e w1 =>
    -- cannot happen (neither branch throws), but the trace claim holds anyway
    exfalso
    by_cases hz : (w.hdr c).N = 0
    · rw [if_pos hz] at hp; cases hp
    · rw [if_neg hz] at hp; cases hp
  | ok tb w1 =>
    rw [hp] at h0; simp only [Res.world] at h0
    simp only []
    rw [bind_run, modV_run]
    simp only []
    generalize hw2 : ({ w1 with hdr := upd w1.hdr scratch { N := (w.hdr c).N, inl := tb, cap := (w.hdr c).N, size := 0, data := tb, alloc := (w.hdr c).alloc } } : World α) = w2
    have ht2 : iterEvs w2.trace = iterEvs w.trace := by subst hw2; exact h0
    -- consumption
    have hloop := appendRangeInputLoop_iter cfg scratch false (w2.hdr scratch).size sid xs 0 w2
    have hwipe := NoIter.wipe cfg scratch (α := α)
    rw [bind_run, tryCatch_run, bind_run]
    unfold appendRangeInput
    rw [bind_run, getV_run]
    simp only []
    rw [bind_run]
    cases hl : appendRangeInputLoop cfg scratch false (w2.hdr scratch).size sid 0 xs w2 with
    | thrown e w3 =>
      rw [hl] at hloop; simp only [] at hloop ⊢
      obtain ⟨k, hk, hev⟩ := hloop
      rw [bind_run]
      have hw' := hwipe w3
      cases hwp : wipe cfg scratch w3 with
      | ok u w4 =>
        rw [hwp] at hw'; simp only [Res.world] at hw'
        simp only []
        exact Or.inr ⟨k, hk, by show iterEvs w4.trace = _; rw [hw', hev, ht2]⟩
      | thrown e' w4 =>
        rw [hwp] at hw'; simp only [Res.world] at hw'
        simp only []
        exact Or.inr ⟨k, hk, by rw [hw', hev, ht2]⟩
    | ok u w3 =>
      rw [hl] at hloop; simp only [] at hloop ⊢
      have ht3 : iterEvs w3.trace = iterEvs w.trace ++ streamEvs sid 0 xs.length := by rw [hloop, ht2]
      show (match (getV scratch >>= fun tv => finally_ (insertRangeHelper cfg c pos (srcsMove tv.data 0 tv.size)) (wipe cfg scratch)) w3 with
            | .ok _ w' => _ | .thrown _ w' => _)
      rw [bind_run, getV_run]
      simp only []
      have hfin := NoIter.finally (NoIter.insertRangeHelper cfg c pos (srcsMove (w3.hdr scratch).data 0 (w3.hdr scratch).size)) hwipe w3
      cases hf : finally_ (insertRangeHelper cfg c pos (srcsMove (w3.hdr scratch).data 0 (w3.hdr scratch).size)) (wipe cfg scratch) w3 with
      | ok r w4 =>
        rw [hf] at hfin; simp only [Res.world] at hfin
        simp only []
        rw [hfin, ht3]
      | thrown e w4 =>
        rw [hf] at hfin; simp only [Res.world] at hfin
        simp only []
        exact Or.inl (by rw [hfin, ht3])

end SvModel
