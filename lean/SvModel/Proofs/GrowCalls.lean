/-
The growing paths that rely on a checked primitive for C12 (`assign (n, x)`, `assign (first, last)`, `reserve`): which
capacity computation / allocation primitive they call is GENERATED from the header (Gen/Calls.lean).  The proofs of those
paths were written for "checked computation, unchecked allocation"; these rewriting lemmas are where that is used — they
stop elaborating when the header calls different primitives.
-/
import SvModel.Ops

namespace SvModel
open Gen
variable {α : Type}

theorem calcNewCapacity_checked (cfg : Cfg) (v : Vec) (req : Nat) :
    (calcNewCapacity cfg true v req : M α Nat) = checkedCalcNewCapacity cfg v req := rfl
theorem allocateBy_unchecked (cfg : Cfg) (a n : Nat) : (allocateBy cfg false a n : M α Nat) = allocate cfg a n := rfl

theorem requestCapacity_calls : requestCapacityCalcChecked = true ∧ requestCapacityAllocChecked = false := ⟨rfl, rfl⟩
theorem assignWithCopies_calls : assignWithCopiesCalcChecked = true ∧ assignWithCopiesAllocChecked = false := ⟨rfl, rfl⟩
theorem assignWithRange_calls : assignWithRangeCalcChecked = true ∧ assignWithRangeAllocChecked = false := ⟨rfl, rfl⟩

end SvModel
