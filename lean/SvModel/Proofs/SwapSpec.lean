/-
`std::swap` of two elements through a stack temporary, and `std::swap_ranges`.
`swapAt`:      tmp (move x); x = move y; y = move tmp; ~tmp.   On return the two values are exchanged (whether the type
               really moves or "move" is a copy); when the move constructor or one of the two move assignments throws,
               both slots still hold objects (possibly moved-from), the temporary is gone, nothing else changed.
`swapRanges`:  element-wise over two ranges of different blocks.
-/
import SvModel.Proofs.InPlace

namespace SvModel
variable {α : Type}

/-- what any outcome of a swap loop over slots `S` guarantees: control state up to temporaries, every block other than
    the temporaries untouched outside `S` -/
structure SwapFrame (w w' : World α) (S : Nat → Nat → Prop) : Prop where
  ctl  : Ctl0 w w'
  hdr  : w'.hdr = w.hdr
  rest : ∀ b i, b < w.ntmp ∨ b % 2 = 1 → ¬ S b i → (w'.mem b)[i]? = (w.mem b)[i]?
  tmp  : ∀ b, w'.ntmp ≤ b → b % 2 = 0 → w'.mem b = w.mem b

theorem SwapFrame.refl (w : World α) (S : Nat → Nat → Prop) : SwapFrame w w S :=
  ⟨Ctl0.refl w, rfl, fun _ _ _ _ => rfl, fun _ _ _ => rfl⟩

theorem SwapFrame.trans {a b c : World α} {S : Nat → Nat → Prop} (h1 : SwapFrame a b S) (h2 : SwapFrame b c S) : SwapFrame a c S :=
  ⟨h1.ctl.trans h2.ctl, h2.hdr.trans h1.hdr,
   fun x i hx hn => (h2.rest x i (by rcases hx with h | h; exact Or.inl (Nat.lt_of_lt_of_le h h1.ctl.ntmp.1); exact Or.inr h) hn).trans (h1.rest x i hx hn),
   fun x hx he => (h2.tmp x hx he).trans (h1.tmp x (Nat.le_trans h1.ctl.ntmp.1 (Nat.le_trans h2.ctl.ntmp.1 (Nat.le_refl _)) |> fun _ => Nat.le_trans h2.ctl.ntmp.1 hx) he)⟩

theorem SwapFrame.mono {w w' : World α} {S T : Nat → Nat → Prop} (h : SwapFrame w w' S) (hst : ∀ b i, S b i → T b i) : SwapFrame w w' T :=
  ⟨h.ctl, h.hdr, fun b i hb hn => h.rest b i hb (fun hs => hn (hst b i hs)), h.tmp⟩

theorem swapAt_sat (c : Cfg) (b1 i1 b2 i2 : Nat) (w : World α)
    (hnt : w.ntmp % 2 = 0 ∧ 6 ≤ w.ntmp) (hfresh : w.mem w.ntmp = [])
    (hc1 : b1 < w.ntmp ∨ b1 % 2 = 1) (hc2 : b2 < w.ntmp ∨ b2 % 2 = 1)
    (hne : (b1, i1) ≠ (b2, i2)) (h1 : IsObj w b1 i1) (h2 : IsObj w b2 i2) :
    (swapAt c b1 i1 b2 i2 w).sat
      (fun _ w' => SwapFrame w w' (fun b i => (b, i) = (b1, i1) ∨ (b, i) = (b2, i2)) ∧
          (w'.mem b1)[i1]? = (w.mem b2)[i2]? ∧ (w'.mem b2)[i2]? = (w.mem b1)[i1]?)
      (fun e w' => e = .elem ∧ SwapFrame w w' (fun b i => (b, i) = (b1, i1) ∨ (b, i) = (b2, i2)) ∧ IsObj w' b1 i1 ∧ IsObj w' b2 i2) := by
  obtain ⟨v1, hv1⟩ := h1
  obtain ⟨v2, hv2⟩ := h2
  have ht1 : w.ntmp ≠ b1 := by rcases hc1 with h | h <;> omega
  have ht2 : w.ntmp ≠ b2 := by rcases hc2 with h | h <;> omega
  unfold swapAt
  rw [bind_run, allocTemp_run]
  simp only []
  generalize hw1 : ({ w with mem := upd w.mem w.ntmp [.raw], ntmp := w.ntmp + 2 } : World α) = w1
  have hmem1 : ∀ b, b ≠ w.ntmp → w1.mem b = w.mem b := fun b hb => by subst hw1; show upd w.mem _ _ b = _; rw [upd_other _ _ _ _ hb]
  have hh1 : w1.hdr = w.hdr := by subst hw1; rfl
  have hnt1 : w1.ntmp = w.ntmp + 2 := by subst hw1; rfl
  have hc01 : Ctl0 w w1 := by
    subst hw1
    refine ⟨rfl, rfl, rfl, rfl, ⟨by show w.ntmp ≤ w.ntmp + 2; omega, by show (w.ntmp + 2) % 2 = _; omega⟩, ?_⟩
    intro b hb
    show (upd w.mem w.ntmp [.raw] b).length = _
    rw [upd_other _ _ _ _ (by
      intro h; subst h
      rcases hb with h | h | h
      · omega
      · omega
      · have : w.ntmp + 2 ≤ w.ntmp := h
        omega)]
  have hraw1 : (w1.mem w.ntmp)[0]? = some .raw := by subst hw1; show (upd w.mem w.ntmp [.raw] w.ntmp)[0]? = _; simp
  have hv1' : (w1.mem b1)[i1]? = some (.obj v1) := by rw [hmem1 b1 (Ne.symm ht1)]; exact hv1
  have hv2' : (w1.mem b2)[i2]? = some (.obj v2) := by rw [hmem1 b2 (Ne.symm ht2)]; exact hv2
  -- the frame of any world reached from w1 by touching only the two slots and the temporary
  have frame_of : ∀ (w' : World α), Ctl w1 w' →
      (∀ b i, b ≠ w.ntmp → (b, i) ≠ (b1, i1) → (b, i) ≠ (b2, i2) → (w'.mem b)[i]? = (w1.mem b)[i]?) →
      SwapFrame w w' (fun b i => (b, i) = (b1, i1) ∨ (b, i) = (b2, i2)) := by
    intro w' hc hrest
    refine ⟨hc01.trans hc.to0, by rw [hc.hdr, hh1], ?_, ?_⟩
    · intro b i hb hn
      have hbt : b ≠ w.ntmp := by rcases hb with h | h <;> omega
      rw [hrest b i hbt (fun h => hn (Or.inl h)) (fun h => hn (Or.inr h)), hmem1 b hbt]
    · intro b hb he
      rw [hc.ntmp, hnt1] at hb
      have hbt : b ≠ w.ntmp := by omega
      apply List.ext_getElem?
      intro i
      rw [hrest b i hbt (by intro h; injection h with h _; rcases hc1 with h' | h' <;> omega)
        (by intro h; injection h with h _; rcases hc2 with h' | h' <;> omega), hmem1 b hbt]
  have hlive1 : SrcLive w1 (Src.moveOf b1 i1 : Src α) := by
    intro b i hl; simp [Src.loc] at hl; obtain ⟨a1, a2⟩ := hl; subst a1; subst a2; exact ⟨v1, hv1'⟩
  refine sat_bind (constructSrc_sat c w.ntmp 0 (.moveOf b1 i1) w1 hraw1 hlive1) (fun _ w2 hw2 => ?_) (fun e w2 hq => ?_)
  rotate_left
  · -- the move constructor of the temporary threw: nothing happened
    obtain ⟨he, hq⟩ := hq
    refine ⟨he.1, frame_of w2 hq.2 (fun b i _ _ _ => by rw [hq.1]), ⟨v1, by rw [hq.1]; exact hv1'⟩, ⟨v2, by rw [hq.1]; exact hv2'⟩⟩
  -- after tmp (move x)
  have htmp_ne1 : (b1, i1) ≠ (w.ntmp, 0) := by intro h; injection h with h _; exact ht1 h.symm
  have htmp_ne2 : (b2, i2) ≠ (w.ntmp, 0) := by intro h; injection h with h _; exact ht2 h.symm
  have hx2 : IsObj w2 b1 i1 := ⟨_, hw2.src b1 i1 rfl htmp_ne1⟩
  have hy2 : (w2.mem b2)[i2]? = some (.obj v2) := by
    rw [hw2.rest b2 i2 htmp_ne2 (by simp only [Src.loc]; intro h; injection h with h; exact hne h)]; exact hv2'
  have ht2v : (w2.mem w.ntmp)[0]? = some (.obj v1) := by rw [hw2.dst]; simp [srcVal, hv1']
  have hrest2 : ∀ b i, b ≠ w.ntmp → (b, i) ≠ (b1, i1) → (w2.mem b)[i]? = (w1.mem b)[i]? := by
    intro b i hb hn
    exact hw2.rest b i (by intro h; injection h with h _; exact hb h) (by simp only [Src.loc]; intro h; injection h with h; exact hn h.symm)
  -- the two assignments, then the temporary's destructor on both exits
  obtain ⟨u1, hu1⟩ := hx2
  have hlive2 : SrcLive w2 (Src.moveOf b2 i2 : Src α) := by
    intro b i hl; simp [Src.loc] at hl; obtain ⟨a1, a2⟩ := hl; subst a1; subst a2; exact ⟨v2, hy2⟩
  have hbody : ((assignSrc c b1 i1 (.moveOf b2 i2) >>= fun _ => assignSrc c b2 i2 (.moveOf w.ntmp 0)) w2).sat
      (fun _ w4 => Ctl w2 w4 ∧ (w4.mem b1)[i1]? = some (.obj v2) ∧ (w4.mem b2)[i2]? = some (.obj v1) ∧ IsObj w4 w.ntmp 0 ∧
          ∀ b i, b ≠ w.ntmp → (b, i) ≠ (b1, i1) → (b, i) ≠ (b2, i2) → (w4.mem b)[i]? = (w2.mem b)[i]?)
      (fun e w4 => e = .elem ∧ Ctl w2 w4 ∧ IsObj w4 b1 i1 ∧ IsObj w4 b2 i2 ∧ IsObj w4 w.ntmp 0 ∧
          ∀ b i, b ≠ w.ntmp → (b, i) ≠ (b1, i1) → (b, i) ≠ (b2, i2) → (w4.mem b)[i]? = (w2.mem b)[i]?) := by
    refine sat_bind (assignSrc_sat c b1 i1 (.moveOf b2 i2) w2 u1 hu1 hlive2 (by simp only [Src.loc]; intro h; injection h with h; exact hne h.symm))
      (fun _ w3 hw3 => ?_) (fun e w3 hq => ?_)
    · -- x = move y done
      have hx3 : (w3.mem b1)[i1]? = some (.obj v2) := by rw [hw3.dst]; simp [srcVal, hy2]
      obtain ⟨u2, hu2⟩ : IsObj w3 b2 i2 := ⟨_, hw3.src b2 i2 rfl (fun h => hne h.symm)⟩
      have ht3 : (w3.mem w.ntmp)[0]? = some (.obj v1) := by
        rw [hw3.rest w.ntmp 0 (fun h => htmp_ne1 h.symm) (by simp only [Src.loc]; intro h; injection h with h; exact htmp_ne2 h)]; exact ht2v
      have hlive3 : SrcLive w3 (Src.moveOf w.ntmp 0 : Src α) := by
        intro b i hl; simp [Src.loc] at hl; obtain ⟨a1, a2⟩ := hl; subst a1; subst a2; exact ⟨v1, ht3⟩
      refine Res.sat_mono (assignSrc_sat c b2 i2 (.moveOf w.ntmp 0) w3 u2 hu2 hlive3 (by simp only [Src.loc]; intro h; injection h with h; exact htmp_ne2 h.symm)) ?_ ?_
      · intro _ w4 hw4
        refine ⟨hw3.ctl.trans hw4.ctl, ?_, ?_, ⟨_, hw4.src w.ntmp 0 rfl (fun h => htmp_ne2 h.symm)⟩, ?_⟩
        · rw [hw4.rest b1 i1 hne (by simp only [Src.loc]; intro h; injection h with h; exact htmp_ne1 h.symm)]; exact hx3
        · rw [hw4.dst]; simp [srcVal, ht3]
        · intro b i hb n1 n2
          rw [hw4.rest b i n2 (by simp only [Src.loc]; intro h; injection h with h; injection h with h _; exact hb h.symm)]
          exact hw3.rest b i n1 (by simp only [Src.loc]; intro h; injection h with h; exact n2 h.symm)
      · intro e w4 ⟨he, hq⟩
        refine ⟨he.1, hw3.ctl.trans hq.2, ⟨v2, by rw [hq.1]; exact hx3⟩, ⟨u2, by rw [hq.1]; exact hu2⟩, ⟨v1, by rw [hq.1]; exact ht3⟩, ?_⟩
        intro b i hb n1 n2
        rw [hq.1]
        exact hw3.rest b i n1 (by simp only [Src.loc]; intro h; injection h with h; exact n2 h.symm)
    · obtain ⟨he, hq⟩ := hq
      exact ⟨he.1, hq.2, ⟨u1, by rw [hq.1]; exact hu1⟩, ⟨v2, by rw [hq.1]; exact hy2⟩, ⟨v1, by rw [hq.1]; exact ht2v⟩, fun b i _ _ _ => by rw [hq.1]⟩
  refine sat_finally hbody ?_ ?_
  · intro _ w4 ⟨hc4, hx4, hy4, hto4, hrest4⟩
    refine Res.sat_mono (destroyAt_sat c w.ntmp 0 w4 hto4) ?_ (fun _ _ h => h)
    intro _ w5 ⟨hc5, _, hrest5⟩
    refine ⟨frame_of w5 ((hw2.ctl.trans hc4).trans hc5) ?_, ?_, ?_⟩
    · intro b i hb n1 n2
      rw [hrest5 b i (by intro h; injection h with h _; exact hb h), hrest4 b i hb n1 n2, hrest2 b i hb n1]
    · rw [hrest5 b1 i1 htmp_ne1, hx4, hv2]
    · rw [hrest5 b2 i2 htmp_ne2, hy4, hv1]
  · intro e w4 ⟨he, hc4, hx4, hy4, hto4, hrest4⟩
    refine Res.sat_mono (destroyAt_sat c w.ntmp 0 w4 hto4) ?_ (fun _ _ h => h)
    intro _ w5 ⟨hc5, _, hrest5⟩
    refine ⟨he, frame_of w5 ((hw2.ctl.trans hc4).trans hc5) ?_, isObj_of_eq (hrest5 b1 i1 htmp_ne1) hx4, isObj_of_eq (hrest5 b2 i2 htmp_ne2) hy4⟩
    intro b i hb n1 n2
    rw [hrest5 b i (by intro h; injection h with h _; exact hb h), hrest4 b i hb n1 n2, hrest2 b i hb n1]

/-- `std::swap_ranges` over ranges of two DIFFERENT blocks -/
theorem swapRanges_sat (c : Cfg) (b1 b2 : Nat) (hb : b1 ≠ b2) : ∀ (n a1 a2 : Nat) (w : World α),
    (w.ntmp % 2 = 0 ∧ 6 ≤ w.ntmp) → (∀ b, w.ntmp ≤ b → b % 2 = 0 → w.mem b = []) →
    (b1 < w.ntmp ∨ b1 % 2 = 1) → (b2 < w.ntmp ∨ b2 % 2 = 1) →
    (∀ k, k < n → IsObj w b1 (a1 + k)) → (∀ k, k < n → IsObj w b2 (a2 + k)) →
    (swapRanges c b1 a1 b2 a2 n w).sat
      (fun _ w' => SwapFrame w w' (fun b i => (b = b1 ∧ a1 ≤ i ∧ i < a1 + n) ∨ (b = b2 ∧ a2 ≤ i ∧ i < a2 + n)) ∧
          (∀ k, k < n → (w'.mem b1)[a1 + k]? = (w.mem b2)[a2 + k]?) ∧ (∀ k, k < n → (w'.mem b2)[a2 + k]? = (w.mem b1)[a1 + k]?))
      (fun e w' => e = .elem ∧ SwapFrame w w' (fun b i => (b = b1 ∧ a1 ≤ i ∧ i < a1 + n) ∨ (b = b2 ∧ a2 ≤ i ∧ i < a2 + n)) ∧
          (∀ k, k < n → IsObj w' b1 (a1 + k)) ∧ (∀ k, k < n → IsObj w' b2 (a2 + k)))
  | 0, a1, a2, w, _, _, _, _, _, _ => by
    show SwapFrame w w _ ∧ _
    exact ⟨SwapFrame.refl w _, fun k h => by omega, fun k h => by omega⟩
  | n+1, a1, a2, w, hnt, htf, hc1, hc2, h1, h2 => by
    unfold swapRanges
    have hfirst := swapAt_sat c b1 a1 b2 a2 w hnt (htf w.ntmp (Nat.le_refl _) hnt.1) hc1 hc2
      (by intro h; injection h with h _; exact hb h) (by simpa using h1 0 (by omega)) (by simpa using h2 0 (by omega))
    refine sat_bind hfirst (fun _ w1 ⟨hf1, hx1, hy1⟩ => ?_) (fun e w1 ⟨he, hf1, ho1, ho2⟩ => ?_)
    · have hnt1 : w1.ntmp % 2 = 0 ∧ 6 ≤ w1.ntmp := ⟨by rw [hf1.ctl.ntmp.2]; exact hnt.1, Nat.le_trans hnt.2 hf1.ctl.ntmp.1⟩
      have htf1 : ∀ b, w1.ntmp ≤ b → b % 2 = 0 → w1.mem b = [] := fun b h1' h2' => by
        rw [hf1.tmp b h1' h2']; exact htf b (Nat.le_trans hf1.ctl.ntmp.1 h1') h2'
      have hc1' : b1 < w1.ntmp ∨ b1 % 2 = 1 := by rcases hc1 with h | h; exact Or.inl (Nat.lt_of_lt_of_le h hf1.ctl.ntmp.1); exact Or.inr h
      have hc2' : b2 < w1.ntmp ∨ b2 % 2 = 1 := by rcases hc2 with h | h; exact Or.inl (Nat.lt_of_lt_of_le h hf1.ctl.ntmp.1); exact Or.inr h
      have keep1 : ∀ k, 0 < k → (w1.mem b1)[a1 + k]? = (w.mem b1)[a1 + k]? := fun k hk =>
        hf1.rest b1 (a1 + k) hc1 (by intro h; rcases h with h | h <;> injection h with h1' h2' <;> first | omega | exact hb h1')
      have keep2 : ∀ k, 0 < k → (w1.mem b2)[a2 + k]? = (w.mem b2)[a2 + k]? := fun k hk =>
        hf1.rest b2 (a2 + k) hc2 (by intro h; rcases h with h | h <;> injection h with h1' h2' <;> first | omega | exact hb h1'.symm)
      have h1' : ∀ k, k < n → IsObj w1 b1 (a1 + 1 + k) := fun k hk => by
        rw [show a1 + 1 + k = a1 + (k + 1) by omega]; exact isObj_of_eq (keep1 (k + 1) (by omega)) (h1 (k + 1) (by omega))
      have h2' : ∀ k, k < n → IsObj w1 b2 (a2 + 1 + k) := fun k hk => by
        rw [show a2 + 1 + k = a2 + (k + 1) by omega]; exact isObj_of_eq (keep2 (k + 1) (by omega)) (h2 (k + 1) (by omega))
      have hS : ∀ b i, ((b, i) = (b1, a1) ∨ (b, i) = (b2, a2)) → (b = b1 ∧ a1 ≤ i ∧ i < a1 + (n + 1)) ∨ (b = b2 ∧ a2 ≤ i ∧ i < a2 + (n + 1)) := by
        intro b i h
        rcases h with h | h <;> injection h with h1' h2'
        · left; exact ⟨h1', by omega, by omega⟩
        · right; exact ⟨h1', by omega, by omega⟩
      have hS' : ∀ b i, ((b = b1 ∧ a1 + 1 ≤ i ∧ i < a1 + 1 + n) ∨ (b = b2 ∧ a2 + 1 ≤ i ∧ i < a2 + 1 + n)) →
          (b = b1 ∧ a1 ≤ i ∧ i < a1 + (n + 1)) ∨ (b = b2 ∧ a2 ≤ i ∧ i < a2 + (n + 1)) := by
        intro b i h
        rcases h with ⟨x, y, z⟩ | ⟨x, y, z⟩
        · left; exact ⟨x, by omega, by omega⟩
        · right; exact ⟨x, by omega, by omega⟩
      refine Res.sat_mono (swapRanges_sat c b1 b2 hb n (a1 + 1) (a2 + 1) w1 hnt1 htf1 hc1' hc2' h1' h2') ?_ ?_
      · intro _ w2 ⟨hf2, hx2, hy2⟩
        refine ⟨(hf1.mono hS).trans (hf2.mono hS'), ?_, ?_⟩
        · intro k hk
          cases k with
          | zero =>
            simp only [Nat.add_zero]
            rw [hf2.rest b1 a1 hc1' (by intro h; rcases h with ⟨_, h, _⟩ | ⟨h, _, _⟩; omega; exact hb h)]; exact hx1
          | succ k =>
            have := hx2 k (by omega)
            rw [show a1 + 1 + k = a1 + (k + 1) by omega, show a2 + 1 + k = a2 + (k + 1) by omega] at this
            rw [this]; exact keep2 (k + 1) (by omega)
        · intro k hk
          cases k with
          | zero =>
            simp only [Nat.add_zero]
            rw [hf2.rest b2 a2 hc2' (by intro h; rcases h with ⟨h, _, _⟩ | ⟨_, h, _⟩; exact hb h.symm; omega)]; exact hy1
          | succ k =>
            have := hy2 k (by omega)
            rw [show a1 + 1 + k = a1 + (k + 1) by omega, show a2 + 1 + k = a2 + (k + 1) by omega] at this
            rw [this]; exact keep1 (k + 1) (by omega)
      · intro e w2 ⟨he, hf2, ho1, ho2⟩
        obtain ⟨vx, hvx⟩ : IsObj w b2 a2 := by simpa using h2 0 (by omega)
        obtain ⟨vy, hvy⟩ : IsObj w b1 a1 := by simpa using h1 0 (by omega)
        refine ⟨he, (hf1.mono hS).trans (hf2.mono hS'), ?_, ?_⟩
        · intro k hk
          cases k with
          | zero =>
            simp only [Nat.add_zero]
            exact isObj_of_eq (hf2.rest b1 a1 hc1' (by intro h; rcases h with ⟨_, h, _⟩ | ⟨h, _, _⟩; omega; exact hb h)) ⟨vx, by rw [hx1]; exact hvx⟩
          | succ k => have := ho1 k (by omega); rw [show a1 + 1 + k = a1 + (k + 1) by omega] at this; exact this
        · intro k hk
          cases k with
          | zero =>
            simp only [Nat.add_zero]
            exact isObj_of_eq (hf2.rest b2 a2 hc2' (by intro h; rcases h with ⟨h, _, _⟩ | ⟨_, h, _⟩; exact hb h.symm; omega)) ⟨vy, by rw [hy1]; exact hvy⟩
          | succ k => have := ho2 k (by omega); rw [show a2 + 1 + k = a2 + (k + 1) by omega] at this; exact this
    · have hS : ∀ b i, ((b, i) = (b1, a1) ∨ (b, i) = (b2, a2)) → (b = b1 ∧ a1 ≤ i ∧ i < a1 + (n + 1)) ∨ (b = b2 ∧ a2 ≤ i ∧ i < a2 + (n + 1)) := by
        intro b i h
        rcases h with h | h <;> injection h with h1' h2'
        · left; exact ⟨h1', by omega, by omega⟩
        · right; exact ⟨h1', by omega, by omega⟩
      refine ⟨he, hf1.mono hS, ?_, ?_⟩
      · intro k hk
        cases k with
        | zero => simpa using ho1
        | succ k =>
          exact isObj_of_eq (hf1.rest b1 (a1 + (k + 1)) hc1 (by intro h; rcases h with h | h <;> injection h with x y <;> first | omega | exact hb x)) (h1 (k + 1) hk)
      · intro k hk
        cases k with
        | zero => simpa using ho2
        | succ k =>
          exact isObj_of_eq (hf1.rest b2 (a2 + (k + 1)) hc2 (by intro h; rcases h with h | h <;> injection h with x y <;> first | omega | exact hb x.symm)) (h2 (k + 1) hk)

end SvModel
