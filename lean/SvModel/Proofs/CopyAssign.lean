/-
Copy assignment (`copy_assign_default`, `copy_assign`; operator= (const small_vector&) and assign (const small_vector&),
for every pair of inline capacities).

The same-allocator / non-propagating path `copy_assign_default` IS `assign_with_range` over the source's elements
followed by the allocator hand-over: `copyAssignDefault_eq` proves the two model programs equal (the source's size never
exceeds max_size, so the checked and the unchecked capacity computations agree; destroying the surplus and setting the
size commute).  Its specification is therefore the one of `assignWithRangeFwd_foreign_sat` with the source's elements
as `Foreign` sources: refinement (the destination holds the source's values, the source is untouched), `Basic` in both
outcomes (C02/C03/C04/C06), in place when the contents fit (C10), strong when it reallocates.
-/
import SvModel.Proofs.Assign
import SvModel.Proofs.SysInv
import SvModel.Proofs.GrowCalls

namespace SvModel
open Gen
variable {α : Type}

theorem srcsCopy_take (b i n k : Nat) (h : k ≤ n) : ((srcsCopy b i n : List (Src α)).take k) = srcsCopy b i k := by
  unfold srcsCopy
  rw [← List.map_take, List.take_range, Nat.min_eq_left h]

theorem srcsCopy_drop (b i n k : Nat) : ((srcsCopy b i n : List (Src α)).drop k) = srcsCopy b (i + k) (n - k) := by
  apply List.ext_getElem
  · simp [srcsCopy]
  · intro j h1 h2
    simp [srcsCopy, Nat.add_assoc]

/-- world transformer on results -/
def Res.mapW {β : Type} (f : World α → World α) : Res (World α) β → Res (World α) β
  | .ok b w => .ok b (f w)
  | .thrown e w => .thrown e (f w)

theorem destroyAt_hdr (cfg : Cfg) (b i : Nat) (w : World α) (h : Nat → Vec) :
    destroyAt cfg b i { w with hdr := h } = Res.mapW (fun w' => { w' with hdr := h }) (destroyAt cfg b i w) := by
  unfold destroyAt
  simp only []
  split <;> rfl

theorem destroyRange_hdr (cfg : Cfg) (b : Nat) : ∀ (n first : Nat) (w : World α) (h : Nat → Vec),
    destroyRange cfg b first n { w with hdr := h } = Res.mapW (fun w' => { w' with hdr := h }) (destroyRange cfg b first n w)
  | 0, _, _, _ => rfl
  | n+1, first, w, h => by
    unfold destroyRange
    rw [bind_run, bind_run, destroyAt_hdr]
    cases hd : destroyAt cfg b first w with
    | ok u w1 => simp only [Res.mapW]; exact destroyRange_hdr cfg b n (first + 1) w1 h
    | thrown e w1 => rfl

/-! ### computations that never touch the container headers -/
def HdrKept {β : Type} (m : M α β) : Prop := ∀ w, (m w).world.hdr = w.hdr

theorem HdrKept.bind {β γ : Type} {m : M α β} {f : β → M α γ} (h1 : HdrKept m) (h2 : ∀ b, HdrKept (f b)) : HdrKept (m >>= f) := by
  intro w
  have a := h1 w
  rw [bind_run]
  cases hm : m w with
  | ok b w' => rw [hm] at a; simp only [Res.world] at a; simp only []; rw [h2 b w', a]
  | thrown e w' => rw [hm] at a; exact a

theorem HdrKept.tick (on : Bool) (e : Exc) : HdrKept (tick on e : M α Unit) := by
  intro w; unfold SvModel.tick
  cases on
  · rfl
  · match w.faults with
    | [] => rfl
    | 0 :: _ => rfl
    | (_+1) :: _ => rfl

theorem HdrKept.readSlot (b i : Nat) : HdrKept (readSlot b i : M α (Val α)) := by
  intro w; unfold SvModel.readSlot; split <;> rfl
theorem HdrKept.setObj (cfg : Cfg) (b i : Nat) (v : Val α) (e : Ev) : HdrKept (setObj cfg b i v e : M α Unit) := by
  intro w; unfold SvModel.setObj; split <;> rfl
theorem HdrKept.huskSlot (cfg : Cfg) (b i : Nat) : HdrKept (huskSlot cfg b i : M α Unit) := by
  intro w; unfold SvModel.huskSlot; split
  · split <;> rfl
  · rfl
theorem HdrKept.destroyAt (cfg : Cfg) (b i : Nat) : HdrKept (destroyAt cfg b i : M α Unit) := by
  intro w; unfold SvModel.destroyAt; split <;> rfl

theorem HdrKept.destroyRange (cfg : Cfg) (b : Nat) : ∀ (n first : Nat), HdrKept (destroyRange cfg b first n : M α Unit)
  | 0, _ => fun _ => rfl
  | n+1, first => by
    unfold SvModel.destroyRange
    exact HdrKept.bind (HdrKept.destroyAt cfg b first) (fun _ => HdrKept.destroyRange cfg b n (first + 1))

theorem destroyAt_noThrow (cfg : Cfg) (b i : Nat) : NoThrow (destroyAt cfg b i : M α Unit) := by
  intro w; unfold SvModel.destroyAt; split <;> exact ⟨(), _, rfl⟩

theorem destroyRange_noThrow (cfg : Cfg) (b : Nat) : ∀ (n first : Nat), NoThrow (destroyRange cfg b first n : M α Unit)
  | 0, _ => fun w => ⟨(), w, rfl⟩
  | n+1, first => by
    intro w
    unfold SvModel.destroyRange
    rw [bind_run]
    obtain ⟨u, w1, h1⟩ := destroyAt_noThrow cfg b first w
    rw [h1]
    exact destroyRange_noThrow cfg b n (first + 1) w1

theorem HdrKept.assignSrc (cfg : Cfg) (b i : Nat) (s : Src α) : HdrKept (assignSrc cfg b i s : M α Unit) := by
  cases s with
  | ext a => exact HdrKept.bind (HdrKept.tick _ _) (fun _ => HdrKept.setObj _ _ _ _ _)
  | extMove a => exact HdrKept.bind (HdrKept.tick _ _) (fun _ => HdrKept.setObj _ _ _ _ _)
  | copyOf b' i' => exact HdrKept.bind (HdrKept.tick _ _) (fun _ => HdrKept.bind (HdrKept.readSlot _ _) (fun _ => HdrKept.setObj _ _ _ _ _))
  | moveOf b' i' =>
    exact HdrKept.bind (HdrKept.tick _ _) (fun _ => HdrKept.bind (HdrKept.readSlot _ _)
      (fun _ => HdrKept.bind (HdrKept.setObj _ _ _ _ _) (fun _ => HdrKept.huskSlot _ _ _)))
  | value a => exact HdrKept.bind (HdrKept.tick _ _) (fun _ => HdrKept.setObj _ _ _ _ _)

theorem HdrKept.assignGen (cfg : Cfg) (b : Nat) : ∀ (srcs : List (Src α)) (d : Nat), HdrKept (assignGen cfg b d srcs : M α Unit)
  | [], _ => fun _ => rfl
  | s :: rest, d => by
    unfold SvModel.assignGen
    exact HdrKept.bind (HdrKept.assignSrc cfg b d s) (fun _ => HdrKept.assignGen cfg b rest (d + 1))

theorem setSize_run (c n : Nat) (w : World α) : setSize c n w = .ok () { w with hdr := upd w.hdr c { w.hdr c with size := n } } := rfl

/-- destroying a range and setting the size commute (neither reads what the other writes) -/
theorem destroy_then_setSize (cfg : Cfg) (c b f n k : Nat) (w : World α) :
    (destroyRange cfg b f n >>= fun _ => setSize c k) w = (setSize c k >>= fun _ => destroyRange cfg b f n) w := by
  rw [bind_run, bind_run, setSize_run]
  simp only []
  rw [destroyRange_hdr cfg b n f w (upd w.hdr c { w.hdr c with size := k })]
  have hk := HdrKept.destroyRange cfg b n f w
  cases hd : destroyRange cfg b f n w with
  | thrown e w2 =>
    obtain ⟨_, w3, h3⟩ := destroyRange_noThrow cfg b n f w
    rw [hd] at h3; cases h3
  | ok u w2 =>
    rw [hd] at hk
    simp only [Res.world] at hk
    simp only [Res.mapW]
    rw [setSize_run, hk]

/-- `copy_assign_default` is `assign_with_range` over the source's elements, then the allocator hand-over -/
theorem copyAssignDefault_eq (cfg : Cfg) (c o : Nat) (w : World α) (hsz : (w.hdr o).size ≤ cfg.maxSize) :
    copyAssignDefault cfg c o w =
      (assignWithRangeFwd cfg c (srcsCopy (w.hdr o).data 0 (w.hdr o).size) >>= fun _ =>
        setAlloc c (maybeCopy cfg.policy (w.hdr c).alloc (w.hdr o).alloc)) w := by
  unfold copyAssignDefault assignWithRangeFwd
  rw [assignWithRange_calls.1, assignWithRange_calls.2]
  simp only [calcNewCapacity_checked, allocateBy_unchecked]
  rw [bind_run, getV_run]
  simp only []
  rw [bind_run, getV_run]
  simp only []
  rw [bind_run (m := getV c >>= _), bind_run (m := getV c), getV_run]
  simp only [srcsCopy_length]
  have e0 : guard_copyAssignDefault_0 (genv2 cfg (w.hdr c) (w.hdr o)) = decide ((w.hdr c).cap < (w.hdr o).size) := rfl
  have e1 : guard_copyAssignDefault_1 (genv2 cfg (w.hdr c) (w.hdr o)) = decide ((w.hdr c).size < (w.hdr o).size) := rfl
  have f0 : guard_assignWithRange1_0 { genv cfg (w.hdr c) with count := (w.hdr o).size } = decide ((w.hdr c).cap < (w.hdr o).size) := rfl
  have f1 : guard_assignWithRange1_1 { genv cfg (w.hdr c) with count := (w.hdr o).size } = decide ((w.hdr c).size < (w.hdr o).size) := rfl
  rw [e0, e1, f0, f1]
  by_cases hgrow : (w.hdr c).cap < (w.hdr o).size
  · simp only [hgrow, decide_true, if_true]
    simp only [bind_run, checkedCalc_run, if_neg (show ¬ cfg.maxSize < (w.hdr o).size by omega)]
  · simp only [hgrow, decide_false, Bool.false_eq_true, if_false]
    by_cases hless : (w.hdr c).size < (w.hdr o).size
    · simp only [hless, decide_true, if_true]
      unfold copyAssignInPlace
      simp only [if_true]
      rw [srcsCopy_take _ _ _ _ (Nat.le_of_lt hless), srcsCopy_drop, Nat.zero_add]
      simp only [bind_run]
      cases assignGen cfg (w.hdr c).data 0 (srcsCopy (w.hdr o).data 0 (w.hdr c).size) w with
      | thrown e w1 => rfl
      | ok u w1 => rfl
    · simp only [hless, decide_false, Bool.false_eq_true, if_false]
      unfold copyAssignInPlace
      simp only [Bool.false_eq_true, if_false]
      simp only [bind_run]
      cases h1 : assignGen cfg (w.hdr c).data 0 (srcsCopy (w.hdr o).data 0 (w.hdr o).size) w with
      | thrown e w1 => rfl
      | ok u w1 =>
        simp only []
        have hh1 : w1.hdr = w.hdr := by have := HdrKept.assignGen cfg (w.hdr c).data (srcsCopy (w.hdr o).data 0 (w.hdr o).size) 0 w; rw [h1] at this; exact this
        unfold eraseRange
        rw [bind_run, getV_run, hh1]
        simp only []
        have g0 : guard_eraseRange_0 { numInsert := (w.hdr c).size - (w.hdr o).size } = decide ((w.hdr c).size - (w.hdr o).size ≠ 0) := rfl
        rw [g0]
        by_cases heq : (w.hdr c).size - (w.hdr o).size = 0
        · -- same size: nothing to destroy, the size is what it was
          simp only [heq, ne_eq, not_true_eq_false, decide_false, Bool.false_eq_true, if_false]
          have hd0 : destroyRange cfg (w.hdr c).data (w.hdr o).size 0 w1 = .ok () w1 := rfl
          rw [hd0]
          simp only []
          rw [setSize_run]
          have hsame : (w.hdr o).size = (w1.hdr c).size := by rw [hh1]; omega
          have : ({ w1 with hdr := upd w1.hdr c { w1.hdr c with size := (w.hdr o).size } } : World α) = w1 := by
            rw [hsame, upd_self]
          rw [this]
          rfl
        · simp only [heq, ne_eq, not_false_eq_true, decide_true, if_true]
          rw [bind_run, Nat.sub_self, moveLeft_zero]
          simp only [Nat.add_zero]
          unfold eraseToEnd
          rw [bind_run, bind_run, getV_run, hh1]
          simp only []
          have g1 : guard_eraseToEnd_0 { genv cfg (w.hdr c) with pos := (w.hdr o).size } = decide ((w.hdr c).size - (w.hdr o).size ≠ 0) := rfl
          rw [g1]
          simp only [heq, ne_eq, not_false_eq_true, decide_true, if_true]
          rw [bind_run, setSize_run]
          simp only []
          have hR := destroyRange_hdr cfg (w.hdr c).data ((w.hdr c).size - (w.hdr o).size) (w.hdr o).size w1
            (upd w1.hdr c { w1.hdr c with size := (w.hdr o).size })
          rw [hR]
          have hk := HdrKept.destroyRange cfg (w.hdr c).data ((w.hdr c).size - (w.hdr o).size) (w.hdr o).size w1
          cases hd : destroyRange cfg (w.hdr c).data (w.hdr o).size ((w.hdr c).size - (w.hdr o).size) w1 with
          | thrown e w2 =>
            obtain ⟨_, w3, h3⟩ := destroyRange_noThrow cfg (w.hdr c).data ((w.hdr c).size - (w.hdr o).size) (w.hdr o).size w1
            rw [hd] at h3; cases h3
          | ok u2 w2 =>
            rw [hd] at hk
            simp only [Res.world] at hk
            simp only [Res.mapW]
            rw [setSize_run, hk]
            rfl

/-- the in-place part of copy assignment (source fits in the current capacity) is the in-place part of `assign_with_range` -/
theorem copyInPlace_eq (cfg : Cfg) (c o : Nat) (w : World α) (hfit : ¬ (w.hdr c).cap < (w.hdr o).size) :
    (copyAssignInPlace cfg c (w.hdr c) (w.hdr o) (decide ((w.hdr c).size < (w.hdr o).size)) >>= fun _ => setSize c (w.hdr o).size) w =
      assignWithRangeFwd cfg c (srcsCopy (w.hdr o).data 0 (w.hdr o).size) w := by
  unfold assignWithRangeFwd
  rw [assignWithRange_calls.1, assignWithRange_calls.2]
  simp only [calcNewCapacity_checked, allocateBy_unchecked]
  rw [bind_run (m := getV c), getV_run]
  simp only [srcsCopy_length]
  have f0 : guard_assignWithRange1_0 { genv cfg (w.hdr c) with count := (w.hdr o).size } = decide ((w.hdr c).cap < (w.hdr o).size) := rfl
  have f1 : guard_assignWithRange1_1 { genv cfg (w.hdr c) with count := (w.hdr o).size } = decide ((w.hdr c).size < (w.hdr o).size) := rfl
  rw [f0, f1]
  simp only [hfit, decide_false, Bool.false_eq_true, if_false]
  by_cases hless : (w.hdr c).size < (w.hdr o).size
  · simp only [hless, decide_true, if_true]
    unfold copyAssignInPlace
    simp only [if_true]
    rw [srcsCopy_take _ _ _ _ (Nat.le_of_lt hless), srcsCopy_drop, Nat.zero_add]
    simp only [bind_run]
    cases assignGen cfg (w.hdr c).data 0 (srcsCopy (w.hdr o).data 0 (w.hdr c).size) w with
    | thrown e w1 => rfl
    | ok u w1 => rfl
  · simp only [hless, decide_false, Bool.false_eq_true, if_false]
    unfold copyAssignInPlace
    simp only [Bool.false_eq_true, if_false]
    simp only [bind_run]
    cases h1 : assignGen cfg (w.hdr c).data 0 (srcsCopy (w.hdr o).data 0 (w.hdr o).size) w with
    | thrown e w1 => rfl
    | ok u w1 =>
      simp only []
      have hh1 : w1.hdr = w.hdr := by have := HdrKept.assignGen cfg (w.hdr c).data (srcsCopy (w.hdr o).data 0 (w.hdr o).size) 0 w; rw [h1] at this; exact this
      unfold eraseRange
      rw [bind_run, getV_run, hh1]
      simp only []
      have g0 : guard_eraseRange_0 { numInsert := (w.hdr c).size - (w.hdr o).size } = decide ((w.hdr c).size - (w.hdr o).size ≠ 0) := rfl
      rw [g0]
      by_cases heq : (w.hdr c).size - (w.hdr o).size = 0
      · simp only [heq, ne_eq, not_true_eq_false, decide_false, Bool.false_eq_true, if_false]
        have hd0 : destroyRange cfg (w.hdr c).data (w.hdr o).size 0 w1 = .ok () w1 := rfl
        rw [hd0]
        simp only []
        rw [setSize_run]
        have hsame : (w.hdr o).size = (w1.hdr c).size := by rw [hh1]; omega
        have : ({ w1 with hdr := upd w1.hdr c { w1.hdr c with size := (w.hdr o).size } } : World α) = w1 := by
          rw [hsame, upd_self]
        rw [this]
        rfl
      · simp only [heq, ne_eq, not_false_eq_true, decide_true, if_true]
        rw [bind_run, Nat.sub_self, moveLeft_zero]
        simp only [Nat.add_zero]
        unfold eraseToEnd
        rw [bind_run, bind_run, getV_run, hh1]
        simp only []
        have g1 : guard_eraseToEnd_0 { genv cfg (w.hdr c) with pos := (w.hdr o).size } = decide ((w.hdr c).size - (w.hdr o).size ≠ 0) := rfl
        rw [g1]
        simp only [heq, ne_eq, not_false_eq_true, decide_true, if_true]
        rw [bind_run, setSize_run]
        simp only []
        have hR := destroyRange_hdr cfg (w.hdr c).data ((w.hdr c).size - (w.hdr o).size) (w.hdr o).size w1
          (upd w1.hdr c { w1.hdr c with size := (w.hdr o).size })
        rw [hR]
        have hk := HdrKept.destroyRange cfg (w.hdr c).data ((w.hdr c).size - (w.hdr o).size) (w.hdr o).size w1
        cases hd : destroyRange cfg (w.hdr c).data (w.hdr o).size ((w.hdr c).size - (w.hdr o).size) w1 with
        | thrown e w2 =>
          obtain ⟨_, w3, h3⟩ := destroyRange_noThrow cfg (w.hdr c).data ((w.hdr c).size - (w.hdr o).size) (w.hdr o).size w1
          rw [hd] at h3; cases h3
        | ok u2 w2 =>
          rw [hd] at hk
          simp only [Res.world] at hk
          simp only [Res.mapW]
          rw [setSize_run, hk]
          rfl

/-- the elements of another container `o` as assignment sources for `c` -/
theorem foreign_of_other {cfg : Cfg} {w : World α} {c o : Nat} (hvo : VecOK cfg w o) (hl : Ledger w)
    (hd : (w.hdr o).data ≠ (w.hdr c).data) (hi : (w.hdr o).data ≠ (w.hdr c).inl) :
    Foreign cfg w c (srcsCopy (w.hdr o).data 0 (w.hdr o).size) := by
  refine ⟨fun s hs => ?_, fun s hs b i hl' => ?_, fun s hs b i hl' => ?_⟩
  · obtain ⟨k, _, rfl⟩ := mem_srcsCopy hs; rfl
  · obtain ⟨k, hk, rfl⟩ := mem_srcsCopy hs
    simp [Src.loc] at hl'
    obtain ⟨h1, h2⟩ := hl'
    subst h1; subst h2
    have := hvo.objs k hk
    unfold IsObj at this
    simpa using this
  · obtain ⟨k, hk, rfl⟩ := mem_srcsCopy hs
    simp [Src.loc] at hl'
    rw [← hl'.1]
    exact ⟨hd, hi, hvo.data_lt_next hl⟩

/-- the values of the source container, as a list -/
theorem srcsCopy_vals {w : World α} {o : Nat} {ys : List (Val α)} (hy : Holds w o ys) :
    (srcsCopy (w.hdr o).data 0 (w.hdr o).size).map (srcVal w) = ys := by
  apply List.ext_getElem (by simp [hy.1])
  intro i h1 h2
  simp only [List.getElem_map, srcsCopy_get]
  have := hy.2 i h2
  rw [Nat.zero_add, srcVal_copyOf w _ _ _ this]

theorem setAlloc_same (c : Nat) (w : World α) : setAlloc c (w.hdr c).alloc w = .ok () w := by
  show Res.ok () ({ w with hdr := upd w.hdr c { w.hdr c with alloc := (w.hdr c).alloc } } : World α) = _
  rw [upd_self]

/-- COPY ASSIGNMENT, same-allocator / non-propagating path (`copy_assign_default`): the destination ends up holding the
    source's values; `Basic` in both outcomes; in place when the source fits in the current capacity; a throw while
    reallocating changes nothing.  `hal`: the allocator the destination keeps/receives is (equal to) its own — the
    condition under which the header selects this path. -/
theorem copyAssignDefault_sat (cfg : Cfg) (c o : Nat) (w : World α)
    (hv : VecOK cfg w c) (hl : Ledger w) (hNmax : (w.hdr c).N ≤ cfg.maxSize)
    (hvo : VecOK cfg w o) (hNo : (w.hdr o).N ≤ cfg.maxSize)
    (hfor : Foreign cfg w c (srcsCopy (w.hdr o).data 0 (w.hdr o).size))
    (hal : maybeCopy cfg.policy (w.hdr c).alloc (w.hdr o).alloc = (w.hdr c).alloc) :
    (copyAssignDefault cfg c o w).sat
      (fun _ w' => Assigned cfg w w' c ((srcsCopy (w.hdr o).data 0 (w.hdr o).size).map (srcVal w)))
      (fun _ w' => InsBasic cfg w w' c ∧ ((w.hdr c).cap < (w.hdr o).size → Strong w w')) := by
  have hsz : (w.hdr o).size ≤ cfg.maxSize := Nat.le_trans hvo.size_le (hvo.cap_le_max hNo)
  rw [copyAssignDefault_eq cfg c o w hsz, hal]
  have h := assignWithRangeFwd_foreign_sat cfg c _ w hv hl hNmax hfor
  refine sat_bind h (fun _ w' ha => ?_) (fun e w' he => ⟨he.1, by simpa using he.2.2⟩)
  have : (w.hdr c).alloc = (w'.hdr c).alloc := ha.alloc.symm
  rw [this, setAlloc_same]
  exact ha

/-- inside a system: the elements of a constructed container `o ≠ c` are foreign to `c` -/
theorem SysOK.foreign {cfg : Cfg} {w : World α} {A : List Nat} {c o : Nat} (hs : SysOK cfg w A) (hc : c ∈ A) (ho : o ∈ A) (hoc : o ≠ c) :
    Foreign cfg w c (srcsCopy (w.hdr o).data 0 (w.hdr o).size) := by
  have hvo := hs.vec o ho
  have hvc := hs.vec c hc
  have hl := hs.led
  by_cases hz : (w.hdr o).size = 0
  · rw [hz]
    exact ⟨fun s h => by simp [srcsCopy] at h, fun s h => by simp [srcsCopy] at h, fun s h => by simp [srcsCopy] at h⟩
  · have hsep := hs.sep o ho c hc hoc
    by_cases hne : (w.hdr o).data = (w.hdr o).inl
    · -- the source sits in its (non-empty) in-object buffer
      have hcap : (w.hdr o).cap = (w.hdr o).N := (hvo.inl_iff).mpr hne
      have hN : (w.hdr o).N ≠ 0 := by have := hvo.size_le; omega
      have hii : (w.hdr o).inl ≠ (w.hdr c).inl := by
        rcases hsep.inl with h | ⟨h, _⟩
        · exact h
        · exact absurd h hN
      refine foreign_of_other hvo hl ?_ (by rw [hne]; exact hii)
      rw [hne]
      intro h
      by_cases hch : (w.hdr c).data = (w.hdr c).inl
      · exact hii (h.trans hch)
      · have := (hvc.data_odd hl hch).1; have := hvo.inl_lt; omega
    · refine foreign_of_other hvo hl (hsep.data hne) ?_
      have := (hvo.data_odd hl hne).1; have := hvc.inl_lt; omega

/-- the public copy assignment takes the default path when the allocators are equal or do not propagate -/
theorem copyAssign_default (cfg : Cfg) (c o : Nat) (w : World α)
    (h : (w.hdr o).alloc = (w.hdr c).alloc ∨ cfg.pocca = false) :
    copyAssign cfg c o w = copyAssignDefault cfg c o w ∧
    maybeCopy cfg.policy (w.hdr c).alloc (w.hdr o).alloc = (w.hdr c).alloc := by
  constructor
  · unfold copyAssign
    by_cases hp : copyAssignPropagating cfg.policy = true
    · rw [hp]; simp only [Bool.not_true, Bool.false_eq_true, if_false]
      rw [bind_run, getV_run]; simp only []
      rw [bind_run, getV_run]; simp only []
      have hpo : cfg.pocca = true := by
        unfold copyAssignPropagating Cfg.policy at hp; simp only [Bool.and_eq_true] at hp; exact hp.1
      rcases h with h | h
      · have g : guard_copyAssign0_0 (genv2 cfg (w.hdr c) (w.hdr o)) = ((w.hdr o).alloc == (w.hdr c).alloc) := rfl
        rw [g, h]; simp
      · rw [hpo] at h; cases h
    · have : copyAssignPropagating cfg.policy = false := by simpa using hp
      rw [this]; simp
  · unfold maybeCopy Cfg.policy
    simp only []
    rcases h with h | h
    · rw [h]; split <;> rfl
    · rw [h]; simp

end SvModel
