/-
push_back / emplace_back: `append_element` with its two branches `emplace_into_current_end` (in place) and
`emplace_into_reallocation_end` (allocate, build the new element, relocate under the strong policy, roll back on a
throw).  For every fault list: on normal return the invariants hold again, the container holds `xs ++ [x]`, nothing
outside the container changed; on a throw the world is observably unchanged (strong guarantee).
-/
import SvModel.Proofs.Kernel

namespace SvModel
open Gen
variable {α : Type}

/-- an element argument: an external value, or a copy of one of the container's own live elements (aliasing) -/
structure ArgOK (cfg : Cfg) (w : World α) (c : Nat) (s : Src α) : Prop where
  nonmoving : s.moving cfg = false
  live      : SrcLive w s
  inside    : ∀ b i, s.loc = some (b, i) → b = (w.hdr c).data ∧ i < (w.hdr c).size

/-- outcome of a successful push_back of value `x` -/
structure Pushed (cfg : Cfg) (w w' : World α) (c : Nat) (x : Val α) : Prop where
  vec     : VecOK cfg w' c
  led     : Ledger w'
  ub      : w'.ub = w.ub
  frame   : Frame1 w w' c
  size    : (w'.hdr c).size = (w.hdr c).size + 1
  alloc   : (w'.hdr c).alloc = (w.hdr c).alloc
  holds   : ∀ xs, Holds w c xs → Holds w' c (xs ++ [x])
  inplace : (w.hdr c).size < (w.hdr c).cap →
              (w'.hdr c).data = (w.hdr c).data ∧ (w'.hdr c).cap = (w.hdr c).cap ∧ w'.next = w.next ∧ w'.live = w.live ∧
              ∀ i, i < (w.hdr c).size → (w'.mem (w.hdr c).data)[i]? = (w.mem (w.hdr c).data)[i]?
  grown   : ¬ (w.hdr c).size < (w.hdr c).cap →
              (w'.hdr c).data = w.next ∧ (w'.hdr c).cap = newCapacity cfg.maxSize (w.hdr c).cap ((w.hdr c).size + 1)

theorem emplaceIntoCurrentEnd_sat (cfg : Cfg) (c : Nat) (s : Src α) (w : World α)
    (hv : VecOK cfg w c) (hl : Ledger w) (hlt : (w.hdr c).size < (w.hdr c).cap) (ha : ArgOK cfg w c s) :
    (emplaceIntoCurrentEnd cfg c s w).sat
      (fun r w' => r = (w.hdr c).size ∧ Pushed cfg w w' c (srcVal w s))
      (fun e w' => e = .elem ∧ Quiet w w') := by
  unfold emplaceIntoCurrentEnd
  rw [bind_run, getV_run]
  simp only []
  have hraw : (w.mem (w.hdr c).data)[(w.hdr c).size]? = some .raw := hv.raws _ (Nat.le_refl _) hlt
  refine sat_bind (constructSrc_sat cfg _ _ s w hraw ha.live) (fun _ w1 hw => ?_) (fun e w1 h => ⟨h.1.1, h.2⟩)
  have hsame := hw.same_of_nonmoving ha.nonmoving ha.live
  unfold setSize
  rw [bind_run, modV_run]
  simp only []
  generalize hw2 : ({ w1 with hdr := upd w1.hdr c { w1.hdr c with size := (w.hdr c).size + 1 } } : World α) = w2
  have hmem2 : w2.mem = w1.mem := by subst hw2; rfl
  have hhdr2 : w2.hdr = upd w.hdr c { w.hdr c with size := (w.hdr c).size + 1 } := by subst hw2; show upd w1.hdr _ _ = _; rw [hw.ctl.hdr]
  have hc02 : Ctl0 w w2 := by
    have := hw.ctl.to0
    subst hw2
    exact ⟨this.owner, this.live, this.next, this.ub, this.ntmp, this.len⟩
  have hslot : ∀ b i, (b, i) ≠ ((w.hdr c).data, (w.hdr c).size) → (w2.mem b)[i]? = (w.mem b)[i]? := by
    intro b i h; rw [hmem2]; exact hsame b i h
  have hnew : (w2.mem (w.hdr c).data)[(w.hdr c).size]? = some (.obj (srcVal w s)) := by rw [hmem2]; exact hw.dst
  obtain ⟨hvec, hled, hframe⟩ := inplace_ok cfg hv hl hc02 hhdr2 (by omega)
    (fun i hi => by
      by_cases h : i = (w.hdr c).size
      · subst h; exact ⟨_, hnew⟩
      · exact isObj_of_eq (hslot _ i (by intro h'; injection h' with _ h'; exact h h')) (hv.objs i (by omega)))
    (fun i h1 h2 => isRaw_of_eq (hslot _ i (by intro h'; injection h' with _ h'; omega)) (hv.raws i (by omega) h2))
    (fun b i hb _ => hslot b i (by intro h'; injection h' with h' _; exact hb h'))
  have hhc : w2.hdr c = { w.hdr c with size := (w.hdr c).size + 1 } := by rw [hhdr2]; simp
  show (w.hdr c).size = (w.hdr c).size ∧ _
  refine ⟨rfl, hvec, hled, hc02.ub, hframe, by rw [hhc], by rw [hhc], ?_, ?_, fun h => absurd hlt h⟩
  · intro xs ⟨hxl, hxv⟩
    refine ⟨by rw [hhc]; simp [hxl], ?_⟩
    intro i hi
    rw [hhc]; simp only []
    by_cases h : i < xs.length
    · rw [hslot _ i (by intro h'; injection h' with _ h'; omega), hxv i h]
      simp [List.getElem_append_left h]
    · have : i = (w.hdr c).size := by simp at hi; omega
      subst this
      rw [hnew]
      simp [List.getElem_append_right, hxl]
  · intro _
    refine ⟨by rw [hhc], by rw [hhc], hc02.next, hc02.live, ?_⟩
    intro i hi
    exact hslot _ i (by intro h'; injection h' with _ h'; omega)

/-- `emplace_into_reallocation_end`: strong guarantee on every throw, refinement and invariants on normal return -/
theorem emplaceIntoReallocationEnd_sat (cfg : Cfg) (c : Nat) (s : Src α) (w : World α)
    (hv : VecOK cfg w c) (hl : Ledger w) (hfull : (w.hdr c).size = (w.hdr c).cap) (hNmax : (w.hdr c).N ≤ cfg.maxSize)
    (ha : ArgOK cfg w c s) (hstrong : movesFor cfg true = true → cfg.tMove = false) :
    (emplaceIntoReallocationEnd cfg c s w).sat
      (fun r w' => r = (w.hdr c).size ∧ Pushed cfg w w' c (srcVal w s))
      (fun _ w' => Strong w w') := by
  unfold emplaceIntoReallocationEnd
  rw [bind_run, getV_run]
  simp only []
  by_cases hg : guard_emplaceIntoReallocationEnd_0 (genv cfg (w.hdr c)) = true
  · rw [if_pos hg]; exact Strong.refl hl
  rw [if_neg hg]
  have hsz_ne : cfg.maxSize ≠ (w.hdr c).size := by
    have e : guard_emplaceIntoReallocationEnd_0 (genv cfg (w.hdr c)) = decide (cfg.maxSize = (w.hdr c).size) := rfl
    rw [e] at hg; simpa using hg
  have hcapmax : (w.hdr c).cap ≤ cfg.maxSize := by
    have := hv.cap_max; rw [Nat.max_eq_left hNmax] at this; exact this
  generalize hncap : newCapacity cfg.maxSize (w.hdr c).cap ((w.hdr c).size + 1) = ncap
  obtain ⟨hge, hle⟩ : (w.hdr c).size + 1 ≤ ncap ∧ ncap ≤ cfg.maxSize := by
    rw [← hncap]; exact newCapacity_bounds _ _ _ (by omega) (by omega)
  obtain ⟨hnd, hni⟩ := hv.next_ne hl
  have hN : (w.hdr c).N < ncap := by have := hv.cap_ge; omega
  refine sat_bind (allocate_sat cfg (w.hdr c).alloc ncap w) (fun nb w2 h2 => ?_) (fun e w2 h => Strong.of_quiet hl h.2)
  obtain ⟨hnb, hm2, ho2, hlv2, hn2, hh2, ht2, hu2⟩ := h2
  subst hnb
  obtain ⟨hb2, hraw2, hoth2⟩ := Built.of_alloc (c := c) hv hl hm2 ho2 hlv2 hn2 hh2 ht2 hu2
  -- the try block
  have htry : (emplaceReallocEndTry cfg (w.hdr c) s w.next ncap w2).sat
      (fun _ w4 => Built cfg w w4 c ncap ∧
        (∀ i, i < (w.hdr c).size → (w4.mem w.next)[i]? = (w.mem (w.hdr c).data)[i]?) ∧
        (w4.mem w.next)[(w.hdr c).size]? = some (.obj (srcVal w s)) ∧
        (∀ i, (w.hdr c).size < i → i < ncap → IsRaw w4 w.next i))
      (fun _ w' => Strong w w') := by
    unfold emplaceReallocEndTry
    have hlive2 : SrcLive w2 s := by
      intro b i hl'
      obtain ⟨hb', hi'⟩ := ha.inside b i hl'
      obtain ⟨v, hv'⟩ := ha.live b i hl'
      exact ⟨v, by rw [hoth2 b (by rw [hb']; exact Ne.symm hnd)]; exact hv'⟩
    have hsv2 : srcVal w2 s = srcVal w s :=
      srcVal_congr w w2 s (fun b i hl' => by rw [hoth2 b (by rw [(ha.inside b i hl').1]; exact Ne.symm hnd)])
    refine sat_tryCatch (E1 := fun _ w5 => Built cfg w w5 c ncap ∧ (∀ i, i < ncap → IsRaw w5 w.next i) ∧
        (∀ i, i < (w.hdr c).size → (w5.mem (w.hdr c).data)[i]? = (w.mem (w.hdr c).data)[i]?)) ?_ ?_
    · -- body
      refine sat_bind (constructSrc_sat cfg w.next (w.hdr c).size s w2 (hraw2 _ (by omega)) hlive2) (fun _ w3 hw3 => ?_) ?_
      · have hsame3 := hw3.same_of_nonmoving ha.nonmoving hlive2
        have hb3 : Built cfg w w3 c ncap := hb2.step hw3.ctl
          (fun i hi => isObj_of_eq (hsame3 _ i (by intro h; injection h with h _; exact hnd h.symm)) (hb2.objs i hi))
          (fun b i hb' _ => hsame3 b i (by intro h; injection h with h _; exact hb' h))
        have hnew3 : (w3.mem w.next)[(w.hdr c).size]? = some (.obj (srcVal w s)) := by rw [hw3.dst, hsv2]
        have hraw3 : ∀ i, i < ncap → i ≠ (w.hdr c).size → IsRaw w3 w.next i := fun i hi hne =>
          isRaw_of_eq (hsame3 _ i (by intro h; injection h with _ h; exact hne h)) (hraw2 i hi)
        have hdata3 : ∀ i : Nat, (w3.mem (w.hdr c).data)[i]? = (w.mem (w.hdr c).data)[i]? := by
          intro i
          rw [hsame3 _ i (by intro h; injection h with h _; exact hnd h.symm), hoth2 _ (Ne.symm hnd)]
        have hmv := uninitializedMove_sat cfg true (w.hdr c).data 0 (w.hdr c).size w.next 0 w3
            (fun k hk => by simpa using hb3.objs k hk) (fun k hk => by simpa using hraw3 k (by omega) (by omega))
        refine sat_tryCatch (Res.sat_mono hmv ?_ (fun _ _ h => h)) ?_
        · -- relocation succeeded
          intro _ w4 hr
          have hb4 : Built cfg w w4 c ncap := hb3.step hr.ctl (fun i hi => by simpa using hr.src i hi)
            (fun b i hb' hn' => hr.rest b i (by intro ⟨h, _, _⟩; exact hb' h) (by intro ⟨h1, _, h3⟩; exact hn' ⟨h1, by omega⟩))
          refine ⟨hb4, ?_, ?_, ?_⟩
          · intro i hi
            have := hr.dst i hi
            simp only [Nat.zero_add] at this
            rw [this, hdata3]
          · rw [hr.rest _ _ (by intro ⟨_, _, h⟩; omega) (by intro ⟨h, _, _⟩; exact hnd h)]; exact hnew3
          · intro i h1 h2
            exact isRaw_of_eq (hr.rest _ i (by intro ⟨_, _, h⟩; omega) (by intro ⟨h, _, _⟩; exact hnd h)) (hraw3 i h2 (by omega))
        · -- relocation threw: destroy the new element, rethrow to the outer handler
          intro e w4 ⟨_, hf⟩
          have hkeep : movesFor cfg true = false := by
            cases hm : movesFor cfg true with
            | false => rfl
            | true =>
              have h1 := hstrong hm
              have h2 := hf.can
              rw [hm] at h2; simp only [if_true] at h2
              rw [h1] at h2; cases h2
          have hnew4 : IsObj w4 w.next (w.hdr c).size :=
            ⟨_, by rw [hf.rest _ _ (by intro ⟨_, _, h⟩; omega) (by intro ⟨h, _, _⟩; exact hnd h)]; exact hnew3⟩
          refine sat_bind (destroyAt_sat cfg w.next (w.hdr c).size w4 hnew4) (fun _ w5 h5 => ?_) (fun _ _ h => h.elim)
          obtain ⟨hc5, hr5, hrest5⟩ := h5
          have hb4 : Built cfg w w4 c ncap := hb3.step hf.ctl (fun i hi => by simpa using hf.src i hi)
            (fun b i hb' hn' => hf.rest b i (by intro ⟨h, _, _⟩; exact hb' h) (by intro ⟨h1, _, h3⟩; exact hn' ⟨h1, by omega⟩))
          have hb5 : Built cfg w w5 c ncap := hb4.step hc5
            (fun i hi => isObj_of_eq (hrest5 _ i (by intro h; injection h with h _; exact hnd h.symm)) (hb4.objs i hi))
            (fun b i hb' _ => hrest5 b i (by intro h; injection h with h _; exact hb' h))
          show Built cfg w w5 c ncap ∧ _
          refine ⟨hb5, ?_, ?_⟩
          · intro i hi
            by_cases h1 : i = (w.hdr c).size
            · subst h1; exact hr5
            · refine isRaw_of_eq (hrest5 _ i (by intro h; injection h with _ h; exact h1 h)) ?_
              by_cases h2 : i < (w.hdr c).size
              · simpa using hf.dst i h2
              · exact isRaw_of_eq (hf.rest _ i (by intro ⟨_, _, h⟩; omega) (by intro ⟨h, _, _⟩; exact hnd h)) (hraw3 i hi h1)
          · intro i hi
            rw [hrest5 _ i (by intro h; injection h with h _; exact hnd h.symm)]
            have := hf.kept hkeep i hi
            simp only [Nat.zero_add] at this
            rw [this, hdata3]
      · -- constructing the new element threw
        intro e w3 ⟨_, hq⟩
        refine ⟨hb2.of_quiet hq, fun i hi => by unfold IsRaw; rw [hq.1]; exact hraw2 i hi, fun i _ => ?_⟩
        rw [hq.1, hoth2 _ (Ne.symm hnd)]
    · -- outer handler: give the block back
      intro e w5 ⟨hb5, hraw5, hex5⟩
      obtain ⟨w6, hd, hs6⟩ := abort_realloc hv hl hb5 hex5 hraw5
      rw [bind_run, hd]
      exact hs6
  refine sat_bind htry (fun _ w4 h4 => ?_) (fun _ _ h => h)
  obtain ⟨hb4, hcopy4, hnew4, hraw4⟩ := h4
  have hfin := finish_realloc (n' := (w.hdr c).size + 1) hv hl hb4 hN hle hge
    (fun i hi => by
      by_cases h : i < (w.hdr c).size
      · exact isObj_of_eq (hcopy4 i h) (hv.objs i h)
      · have : i = (w.hdr c).size := by omega
        subst this; exact ⟨_, hnew4⟩)
    (fun i h1 h2 => hraw4 i (by omega) h2)
  refine sat_bind hfin (fun _ w' h' => ?_) (fun _ _ h => h.elim)
  obtain ⟨hvec, hled, hframe, hub, hhc, hmemn, hnext⟩ := h'
  show (w.hdr c).size = (w.hdr c).size ∧ _
  refine ⟨rfl, hvec, hled, hub, hframe, by rw [hhc], by rw [hhc], ?_, fun h => absurd h (by omega), fun _ => ⟨by rw [hhc], by rw [hhc]; exact hncap.symm⟩⟩
  intro xs ⟨hxl, hxv⟩
  refine ⟨by rw [hhc]; simp [hxl], ?_⟩
  intro i hi
  rw [hhc]; simp only []
  rw [hmemn]
  by_cases h : i < xs.length
  · rw [hcopy4 i (by omega), hxv i h]
    simp [List.getElem_append_left h]
  · have : i = (w.hdr c).size := by simp at hi; omega
    subst this
    rw [hnew4]
    simp [List.getElem_append_right, hxl]

/-- append_element = push_back / emplace_back -/
theorem appendElement_sat (cfg : Cfg) (c : Nat) (s : Src α) (w : World α)
    (hv : VecOK cfg w c) (hl : Ledger w) (hNmax : (w.hdr c).N ≤ cfg.maxSize)
    (ha : ArgOK cfg w c s) (hstrong : movesFor cfg true = true → cfg.tMove = false) :
    (appendElement cfg c s w).sat
      (fun r w' => r = (w.hdr c).size ∧ Pushed cfg w w' c (srcVal w s))
      (fun _ w' => Strong w w') := by
  unfold appendElement
  rw [bind_run, getV_run]
  simp only []
  by_cases hg : guard_appendElement_0 (genv cfg (w.hdr c)) = true
  · rw [if_pos hg]
    have e : guard_appendElement_0 (genv cfg (w.hdr c)) = decide ((w.hdr c).size < (w.hdr c).cap) := rfl
    have hlt : (w.hdr c).size < (w.hdr c).cap := by rw [e] at hg; simpa using hg
    exact Res.sat_mono (emplaceIntoCurrentEnd_sat cfg c s w hv hl hlt ha) (fun _ _ h => h) (fun _ _ h => Strong.of_quiet hl h.2)
  · rw [if_neg hg]
    have hfull : (w.hdr c).size = (w.hdr c).cap := by
      have e : guard_appendElement_0 (genv cfg (w.hdr c)) = decide ((w.hdr c).size < (w.hdr c).cap) := rfl
      have : ¬ (w.hdr c).size < (w.hdr c).cap := by rw [e] at hg; simpa using hg
      have := hv.size_le; omega
    exact emplaceIntoReallocationEnd_sat cfg c s w hv hl hfull hNmax ha hstrong

end SvModel
