/-
L2 operations: one definition per member function of `small_vector_base` (small_vector.hpp), same control structure,
same order of element operations.  Decision guards are NOT typed in by hand: every `if` of the C++ code is a call to
`Gen.guard_<function>_<k>` (regenerated from the header by tools/translate.py), the growth function is
`Gen.newCapacity`, the relocation policy `Gen.relocateWithMove`.  Containers are addressed by id (the `this` pointer);
their headers live in the world and survive a throw, as in C++.
-/
import SvModel.Prim
import SvModel.Gen.Guards
import SvModel.Gen.Calls

namespace SvModel
open Gen

variable {α : Type}

def getV (c : Nat) : M α Vec := fun w => .ok (w.hdr c) w
def modV (c : Nat) (f : Vec → Vec) : M α Unit := fun w => .ok () { w with hdr := upd w.hdr c (f (w.hdr c)) }
def setSize (c n : Nat) : M α Unit := modV c fun v => { v with size := n }
def setDataPtr (c b : Nat) : M α Unit := modV c fun v => { v with data := b }
def setCapacity (c n : Nat) : M α Unit := modV c fun v => { v with cap := n }
def setData (c b cap size : Nat) : M α Unit := modV c fun v => { v with data := b, cap := cap, size := size }
def setAlloc (c a : Nat) : M α Unit := modV c fun v => { v with alloc := a }

def genv (cfg : Cfg) (v : Vec) : GuardEnv :=
  { size := v.size, cap := v.cap, N := v.N, maxSize := cfg.maxSize, alloc := v.alloc }
def genv2 (cfg : Cfg) (v o : Vec) : GuardEnv :=
  { genv cfg v with oSize := o.size, oCap := o.cap, oN := o.N, oAlloc := o.alloc }

/-- wipe (hpp:2680) -/
def wipe (cfg : Cfg) (c : Nat) : M α Unit :=
  getV c >>= fun v =>
  destroyRange cfg v.data 0 v.size >>= fun _ =>
  if guard_wipe_0 (genv cfg v) then deallocate v.alloc v.data v.cap else pure ()

/-- reset_data (hpp:2745) -/
def resetData (cfg : Cfg) (c nb ncap nsize : Nat) : M α Unit :=
  wipe cfg c >>= fun _ => setData c nb ncap nsize

/-- set_to_inline_storage (hpp:3500), run-time branch -/
def setToInlineStorage (c : Nat) : M α Unit := modV c fun v => { v with cap := v.N, data := v.inl }
/-- set_default (hpp:4771) -/
def setDefault (c : Nat) : M α Unit := setToInlineStorage c >>= fun _ => setSize c 0

/-- checked_allocate (hpp:2783) -/
def checkedAllocate (cfg : Cfg) (a n : Nat) : M α Nat :=
  if guard_checkedAllocate_0 { maxSize := cfg.maxSize, request := n } then throwE .length else allocate cfg a n

/-- checked_calculate_new_capacity (hpp:2813) -/
def checkedCalcNewCapacity (cfg : Cfg) (v : Vec) (req : Nat) : M α Nat :=
  match checkedNewCapacity cfg.maxSize v.cap req with
  | none => throwE .length
  | some n => pure n

/-- the capacity computation a growing path performs: the checked one (length_error beyond max_size) or the unchecked one -/
def calcNewCapacity (cfg : Cfg) (checked : Bool) (v : Vec) (req : Nat) : M α Nat :=
  if checked then checkedCalcNewCapacity cfg v req else pure (newCapacity cfg.maxSize v.cap req)

/-- the allocation a growing path performs: checked_allocate or unchecked_allocate -/
def allocateBy (cfg : Cfg) (checked : Bool) (a n : Nat) : M α Nat :=
  if checked then checkedAllocate cfg a n else allocate cfg a n

/-- uninitialized_move<Policy> (hpp:3618-3644): copies instead when the strong policy forbids moving -/
def uninitializedMove (cfg : Cfg) (strong : Bool) (sblk sidx n dblk didx : Nat) : M α Unit :=
  uninitGen cfg dblk didx 0
    (if strong && !relocateWithMove cfg.policy then srcsCopy sblk sidx n else srcsMove sblk sidx n)

/-- move_left = std::move [first, first+n) → d_first (forward) -/
def moveLeft (cfg : Cfg) (b first n dfirst : Nat) : M α Unit :=
  assignGen cfg b dfirst (srcsMove b first n)

/-- shift_into_uninitialized (hpp:3646): returns the start of the shifted range -/
def shiftIntoUninitialized (cfg : Cfg) (c pos n : Nat) : M α Nat :=
  getV c >>= fun v =>
  uninitializedMove cfg false v.data (v.size - n) n v.data v.size >>= fun _ =>
  setSize c (v.size + n) >>= fun _ =>
  moveBackward cfg v.data pos n (v.size - n - pos) >>= fun _ =>
  pure (pos + n)

/-! ### erase family (hpp:4367-4414) -/
def eraseLast (cfg : Cfg) (c : Nat) : M α Unit :=
  getV c >>= fun v => setSize c (v.size - 1) >>= fun _ => destroyAt cfg v.data (v.size - 1)

def eraseAt (cfg : Cfg) (c pos : Nat) : M α Nat :=
  getV c >>= fun v =>
  moveLeft cfg v.data (pos + 1) (v.size - (pos + 1)) pos >>= fun _ =>
  eraseLast cfg c >>= fun _ => pure pos

def eraseToEnd (cfg : Cfg) (c pos : Nat) : M α Unit :=
  getV c >>= fun v =>
  if guard_eraseToEnd_0 { genv cfg v with pos := pos } then
    setSize c pos >>= fun _ => destroyRange cfg v.data pos (v.size - pos)
  else pure ()

def eraseRange (cfg : Cfg) (c first last : Nat) : M α Nat :=
  getV c >>= fun v =>
  if guard_eraseRange_0 { numInsert := last - first } then
    moveLeft cfg v.data last (v.size - last) first >>= fun _ =>
    eraseToEnd cfg c (first + (v.size - last)) >>= fun _ => pure first
  else pure first

def eraseAll (cfg : Cfg) (c : Nat) : M α Unit :=
  getV c >>= fun v => setSize c 0 >>= fun _ => destroyRange cfg v.data 0 v.size

/-! ### append family -/
/-- emplace_into_current_end (hpp:4111) -/
def emplaceIntoCurrentEnd (cfg : Cfg) (c : Nat) (s : Src α) : M α Nat :=
  getV c >>= fun v =>
  constructSrc cfg v.data v.size s >>= fun _ =>
  setSize c (v.size + 1) >>= fun _ => pure v.size

/-- the two nested try blocks of emplace_into_reallocation_end (hpp:4181-4198) -/
def emplaceReallocEndTry (cfg : Cfg) (v : Vec) (s : Src α) (nb ncap : Nat) : M α Unit :=
  tryCatch
    (constructSrc cfg nb v.size s >>= fun _ =>
      tryCatch (uninitializedMove cfg true v.data 0 v.size nb 0)
        (fun e => destroyAt cfg nb v.size >>= fun _ => throwE e))
    (fun e => deallocate v.alloc nb ncap >>= fun _ => throwE e)

/-- emplace_into_reallocation_end (hpp:4165) -/
def emplaceIntoReallocationEnd (cfg : Cfg) (c : Nat) (s : Src α) : M α Nat :=
  getV c >>= fun v =>
  if guard_emplaceIntoReallocationEnd_0 (genv cfg v) then throwE .length else
  allocate cfg v.alloc (newCapacity cfg.maxSize v.cap (v.size + 1)) >>= fun nb =>
  emplaceReallocEndTry cfg v s nb (newCapacity cfg.maxSize v.cap (v.size + 1)) >>= fun _ =>
  resetData cfg c nb (newCapacity cfg.maxSize v.cap (v.size + 1)) (v.size + 1) >>= fun _ =>
  pure v.size

/-- append_element (hpp:3663) -/
def appendElement (cfg : Cfg) (c : Nat) (s : Src α) : M α Nat :=
  getV c >>= fun v =>
  if guard_appendElement_0 (genv cfg v) then emplaceIntoCurrentEnd cfg c s
  else emplaceIntoReallocationEnd cfg c s

/-- the reallocating branch shared by append_copies / append_range / resize_with:
    build `srcs` at new[orig …], then relocate the old elements; roll back on a throw -/
def appendRealloc (cfg : Cfg) (c : Nat) (strong : Bool) (srcs : List (Src α)) : M α Nat :=
  getV c >>= fun v =>
  let newSize := v.size + srcs.length
  let ncap := newCapacity cfg.maxSize v.cap newSize
  allocate cfg v.alloc ncap >>= fun nb =>
  tryCatch (uninitGen cfg nb v.size 0 srcs)
    (fun e => deallocate v.alloc nb ncap >>= fun _ => throwE e) >>= fun _ =>
  tryCatch (uninitializedMove cfg strong v.data 0 v.size nb 0)
    (fun e => destroyRange cfg nb v.size srcs.length >>= fun _ =>
              deallocate v.alloc nb ncap >>= fun _ => throwE e) >>= fun _ =>
  resetData cfg c nb ncap newSize >>= fun _ => pure v.size

/-- append_copies (hpp:3673) -/
def appendCopies (cfg : Cfg) (c count : Nat) (s : Src α) : M α Nat :=
  getV c >>= fun v =>
  if guard_appendCopies_0 { genv cfg v with count := count } then
    if guard_appendCopies_1 { genv cfg v with count := count } then throwE .length
    else appendRealloc cfg c false (List.replicate count s)
  else
    uninitGen cfg v.data v.size 0 (List.replicate count s) >>= fun _ =>
    setSize c (v.size + count) >>= fun _ => pure v.size

/-- append_range, forward iterators (hpp:3752); `strong` = MovePolicy is strong_exception_policy -/
def appendRangeFwd (cfg : Cfg) (c : Nat) (strong : Bool) (srcs : List (Src α)) : M α Nat :=
  getV c >>= fun v =>
  if guard_appendRange2_0 { genv cfg v with numInsert := srcs.length } then
    if guard_appendRange2_1 { genv cfg v with numInsert := srcs.length } then throwE .length
    else appendRealloc cfg c strong srcs
  else
    uninitGen cfg v.data v.size 0 srcs >>= fun _ =>
    setSize c (v.size + srcs.length) >>= fun _ => pure v.size

/-- append (const small_vector<T, I>&) (hpp:5815): append (other.begin (), other.end ()) -/
def appendOther (cfg : Cfg) (c o : Nat) : M α Unit :=
  getV o >>= fun ov => appendRangeFwd cfg c true (srcsCopy ov.data 0 ov.size) >>= fun _ => pure ()

/-- append (small_vector<T, I>&&) (hpp:5826): move iterators only when relocation may move (so that a throw leaves the
    source intact), then other.clear () -/
def appendOtherMove (cfg : Cfg) (c o : Nat) : M α Unit :=
  getV o >>= fun ov =>
  appendRangeFwd cfg c true
    (if relocateWithMove cfg.policy then srcsMove ov.data 0 ov.size else srcsCopy ov.data 0 ov.size) >>= fun _ =>
  eraseAll cfg o

/-- append_range, input iterators (hpp:3715-3750): one append_element per position; stream `sid` logs deref / incr -/
def appendRangeInputLoop (cfg : Cfg) (c : Nat) (strong : Bool) (orig sid : Nat) : (p : Nat) → List α → M α Unit
  | _, [] => pure ()
  | p, x :: xs =>
      emit (.deref sid p) >>= fun _ =>
      (if strong then
        tryCatch (appendElement cfg c (.ext x))
          (fun e => getV c >>= fun v => eraseRange cfg c orig v.size >>= fun _ => throwE e)
       else appendElement cfg c (.ext x)) >>= fun _ =>
      emit (.incr sid p) >>= fun _ =>
      appendRangeInputLoop cfg c strong orig sid (p + 1) xs

def appendRangeInput (cfg : Cfg) (c : Nat) (strong : Bool) (sid p0 : Nat) (xs : List α) : M α Nat :=
  getV c >>= fun v => appendRangeInputLoop cfg c strong v.size sid p0 xs >>= fun _ => pure v.size

/-! ### insert family -/
/-- emplace_into_current, generic overload (hpp:4140): stack_temporary, shift, move-assign -/
def emplaceIntoCurrent (cfg : Cfg) (c pos : Nat) (s : Src α) : M α Nat :=
  getV c >>= fun v =>
  if guard_emplaceIntoCurrent1_0 { genv cfg v with pos := pos } then emplaceIntoCurrentEnd cfg c s else
  allocTemp >>= fun t =>
  constructSrc cfg t 0 s >>= fun _ =>
  finally_
    (shiftIntoUninitialized cfg c pos 1 >>= fun _ => assignSrc cfg v.data pos (.moveOf t 0))
    (destroyAt cfg t 0) >>= fun _ =>
  pure pos

/-- emplace_into_current (ptr, value_ty&&) (hpp:4121), nothrow-move types only: shift, destroy, construct -/
def emplaceIntoCurrentRv (cfg : Cfg) (c pos : Nat) (s : Src α) : M α Nat :=
  getV c >>= fun v =>
  if guard_emplaceIntoCurrent0_0 { genv cfg v with pos := pos } then emplaceIntoCurrentEnd cfg c s else
  shiftIntoUninitialized cfg c pos 1 >>= fun _ =>
  destroyAt cfg v.data pos >>= fun _ =>
  constructSrc cfg v.data pos s >>= fun _ => pure pos

/-- the reallocating branch shared by emplace_into_reallocation / insert_copies / insert_range_helper:
    build `srcs` at new[pos …], relocate the prefix, then the suffix; roll back on a throw -/
def insertRealloc (cfg : Cfg) (c pos : Nat) (srcs : List (Src α)) : M α Nat :=
  getV c >>= fun v =>
  let k := srcs.length
  let newSize := v.size + k
  let ncap := newCapacity cfg.maxSize v.cap newSize
  allocate cfg v.alloc ncap >>= fun nb =>
  tryCatch (uninitGen cfg nb pos 0 srcs)
    (fun e => deallocate v.alloc nb ncap >>= fun _ => throwE e) >>= fun _ =>
  tryCatch (uninitializedMove cfg false v.data 0 pos nb 0)
    (fun e => destroyRange cfg nb pos k >>= fun _ => deallocate v.alloc nb ncap >>= fun _ => throwE e) >>= fun _ =>
  tryCatch (uninitializedMove cfg false v.data pos (v.size - pos) nb (pos + k))
    (fun e => destroyRange cfg nb 0 (pos + k) >>= fun _ => deallocate v.alloc nb ncap >>= fun _ => throwE e) >>= fun _ =>
  resetData cfg c nb ncap newSize >>= fun _ => pure pos

/-- emplace_into_reallocation (hpp:4204) -/
def emplaceIntoReallocation (cfg : Cfg) (c pos : Nat) (s : Src α) : M α Nat :=
  getV c >>= fun v =>
  if guard_emplaceIntoReallocation_0 { genv cfg v with offset := pos } then emplaceIntoReallocationEnd cfg c s else
  if guard_emplaceIntoReallocation_1 (genv cfg v) then throwE .length else
  insertRealloc cfg c pos [s]

/-- emplace_at (hpp:3797); `rv` selects the value_ty&& overload of emplace_into_current -/
def emplaceAt (cfg : Cfg) (c pos : Nat) (s : Src α) (rv : Bool) : M α Nat :=
  getV c >>= fun v =>
  if guard_emplaceAt_0 (genv cfg v) then
    (if rv && cfg.policy.nothrowMove then emplaceIntoCurrentRv cfg c pos s else emplaceIntoCurrent cfg c pos s)
  else emplaceIntoReallocation cfg c pos s

/-- roll-back of a failed in-place fill: move the shifted tail back and destroy the leftovers -/
def rollbackShift (cfg : Cfg) (c pos insertedEnd drop : Nat) (e : Exc) : M α Unit :=
  getV c >>= fun v =>
  moveLeft cfg v.data insertedEnd (v.size - insertedEnd) pos >>= fun _ =>
  destroyRange cfg v.data (v.size - drop) drop >>= fun _ =>
  setSize c (v.size - drop) >>= fun _ => throwE e

/-- in-place insertion of `k` elements at `pos` with tail ≥ k (hpp:3931-3961, 4053-4071);
    `fill` assigns the k inserted elements -/
def insertInPlaceSmall (cfg : Cfg) (c pos k : Nat) (fill : M α Unit) : M α Unit :=
  shiftIntoUninitialized cfg c pos k >>= fun insertedEnd =>
  tryCatch fill (fun e => rollbackShift cfg c pos insertedEnd k e)

/-- in-place insertion with tail < k (hpp:3864-3930, 4014-4052): `headSrcs` (tail many) are assigned over the old
    tail positions, `tailSrcs` (k − tail) are constructed past the old end first -/
def insertInPlaceLarge (cfg : Cfg) (c pos : Nat) (tailSrcs : List (Src α)) (withTmp : Option (Src α))
    (headFill : Nat → M α Unit) : M α Unit :=
  getV c >>= fun v =>
  let tail := v.size - pos
  uninitGen cfg v.data v.size 0 tailSrcs >>= fun _ =>
  setSize c (v.size + tailSrcs.length) >>= fun _ =>
  tryCatch
    (let body : Nat → M α Unit := fun t =>
        uninitializedMove cfg false v.data pos tail v.data (v.size + tailSrcs.length) >>= fun _ =>
        setSize c (v.size + tailSrcs.length + tail) >>= fun _ =>
        tryCatch (headFill t)
          (fun e => rollbackShift cfg c pos (v.size + tailSrcs.length) tail e)
     match withTmp with
     | some s =>
        allocTemp >>= fun t => constructSrc cfg t 0 s >>= fun _ => finally_ (body t) (destroyAt cfg t 0)
     | none => body 0)
    (fun e => getV c >>= fun v' =>
      destroyRange cfg v.data v.size (v'.size - v.size) >>= fun _ =>
      setSize c v.size >>= fun _ => throwE e)

/-- insert_copies (hpp:3809) -/
def insertCopies (cfg : Cfg) (c pos count : Nat) (s : Src α) : M α Nat :=
  getV c >>= fun v =>
  let e : GuardEnv := { genv cfg v with pos := pos, count := count, tailSize := v.size - pos }
  if guard_insertCopies_0 e then pure pos else
  if guard_insertCopies_1 e then
    (if guard_insertCopies_2 e then appendElement cfg c s else appendCopies cfg c count s) else
  if guard_insertCopies_3 e then
    (if guard_insertCopies_4 e then throwE .length else insertRealloc cfg c pos (List.replicate count s)) else
  if guard_insertCopies_5 e then
    insertInPlaceLarge cfg c pos (List.replicate (count - (v.size - pos)) s) (some s)
      (fun t => assignGen cfg v.data pos (List.replicate (v.size - pos) (.copyOf t 0))) >>= fun _ => pure pos
  else
    allocTemp >>= fun t =>
    constructSrc cfg t 0 s >>= fun _ =>
    finally_
      (insertInPlaceSmall cfg c pos count (assignGen cfg v.data pos (List.replicate count (.copyOf t 0))))
      (destroyAt cfg t 0) >>= fun _ => pure pos

/-- insert_range_helper (hpp:3966): pos ≠ end, non-empty multi-pass range -/
def insertRangeHelper (cfg : Cfg) (c pos : Nat) (srcs : List (Src α)) : M α Nat :=
  getV c >>= fun v =>
  let e : GuardEnv := { genv cfg v with pos := pos, numInsert := srcs.length, tailSize := v.size - pos }
  if guard_insertRangeHelper_0 e then
    (if guard_insertRangeHelper_1 e then throwE .length else insertRealloc cfg c pos srcs) else
  if guard_insertRangeHelper_2 e then
    insertInPlaceLarge cfg c pos (srcs.drop (v.size - pos)) none
      (fun _ => assignGen cfg v.data pos (srcs.take (v.size - pos))) >>= fun _ => pure pos
  else
    insertInPlaceSmall cfg c pos srcs.length (assignGen cfg v.data pos srcs) >>= fun _ => pure pos

/-- insert_range, forward iterators (hpp:4096); the public insert returns early for an empty range -/
def insertRangeFwd (cfg : Cfg) (c pos : Nat) (srcs : List (Src α)) : M α Nat :=
  getV c >>= fun v =>
  let e : GuardEnv := { genv cfg v with pos := pos, numInsert := srcs.length }
  if guard_insertRange1_0 e then insertRangeHelper cfg c pos srcs else
  if guard_insertRange1_1 e then
    (match srcs with | s :: _ => appendElement cfg c s | [] => pure pos)
  else appendRangeFwd cfg c false srcs

/-- the in-object buffer of a temporary container living on the stack: a temporary block of `n` raw slots -/
def allocTempN (n : Nat) : M α Nat := fun w =>
  .ok w.ntmp { w with mem := upd w.mem w.ntmp (List.replicate n .raw), ntmp := w.ntmp + 2 }

/-- header slot used for the function-local temporary container `small_vector_base tmp (…)` -/
def scratch : Nat := 4

/-- insert_range, input iterators, pos ≠ end (hpp:4084-4094): the single-pass range is first consumed into a temporary
    container `tmp (first, last, alloc)` (default construction + append_range element by element; its storage is
    released again if that throws), then its elements are MOVED in with insert_range_helper; `tmp` is destroyed on
    every exit -/
def insertRangeInputMid (cfg : Cfg) (c pos sid : Nat) (xs : List α) : M α Nat :=
  getV c >>= fun v =>
  (if v.N = 0 then pure nullBlk else allocTempN v.N) >>= fun tb =>
  modV scratch (fun _ => { N := v.N, inl := tb, cap := v.N, size := 0, data := tb, alloc := v.alloc }) >>= fun _ =>
  tryCatch (appendRangeInput cfg scratch false sid 0 xs >>= fun _ => pure ())
    (fun e => wipe cfg scratch >>= fun _ => throwE e) >>= fun _ =>
  getV scratch >>= fun tv =>
  finally_ (insertRangeHelper cfg c pos (srcsMove tv.data 0 tv.size)) (wipe cfg scratch)

/-! ### capacity -/
/-- request_capacity (hpp:4341) -/
def requestCapacity (cfg : Cfg) (c request : Nat) : M α Unit :=
  getV c >>= fun v =>
  if guard_requestCapacity_0 { genv cfg v with request := request } then pure () else
  calcNewCapacity cfg requestCapacityCalcChecked v request >>= fun ncap =>
  allocateBy cfg requestCapacityAllocChecked v.alloc ncap >>= fun nb =>
  tryCatch (uninitializedMove cfg true v.data 0 v.size nb 0)
    (fun e => deallocate v.alloc nb ncap >>= fun _ => throwE e) >>= fun _ =>
  wipe cfg c >>= fun _ =>
  setDataPtr c nb >>= fun _ => setCapacity c ncap

/-- shrink_to_size (hpp:4244) -/
def shrinkToSize (cfg : Cfg) (c : Nat) : M α Unit :=
  getV c >>= fun v =>
  if guard_shrinkToSize_0 (genv cfg v) then pure () else
  (if guard_shrinkToSize_1 (genv cfg v) then
      allocate cfg v.alloc v.size >>= fun nb => pure (nb, v.size)
   else pure (v.inl, v.N)) >>= fun (nb, ncap) =>
  tryCatch (uninitializedMove cfg true v.data 0 v.size nb 0)
    (fun e => (if guard_shrinkToSize_2 { genv cfg v with newCap := ncap } then deallocate v.alloc nb ncap else pure ()) >>= fun _ =>
              throwE e) >>= fun _ =>
  destroyRange cfg v.data 0 v.size >>= fun _ =>
  deallocate v.alloc v.data v.cap >>= fun _ =>
  setDataPtr c nb >>= fun _ => setCapacity c ncap

/-- resize_with (hpp:4286); `s` = the fill value (a reference) or value-initialisation -/
def resizeWith (cfg : Cfg) (c newSize : Nat) (s : Src α) : M α Unit :=
  (if guard_resizeWith_0 { newSize := newSize } then eraseAll cfg c else pure ()) >>= fun _ =>
  getV c >>= fun v =>
  let e : GuardEnv := { genv cfg v with newSize := newSize }
  if guard_resizeWith_1 e then
    (if guard_resizeWith_2 e then throwE .length
     else appendRealloc cfg c true (List.replicate (newSize - v.size) s) >>= fun _ => pure ())
  else if guard_resizeWith_3 e then
    uninitGen cfg v.data v.size 0 (List.replicate (newSize - v.size) s) >>= fun _ => setSize c newSize
  else eraseToEnd cfg c newSize

/-! ### assign -/
/-- assign_with_copies (hpp:3512) -/
def assignWithCopies (cfg : Cfg) (c count : Nat) (s : Src α) : M α Unit :=
  getV c >>= fun v =>
  let e : GuardEnv := { genv cfg v with count := count }
  if guard_assignWithCopies_0 e then
    calcNewCapacity cfg assignWithCopiesCalcChecked v count >>= fun ncap =>
    allocateBy cfg assignWithCopiesAllocChecked v.alloc ncap >>= fun nb =>
    tryCatch (uninitGen cfg nb 0 0 (List.replicate count s))
      (fun ex => deallocate v.alloc nb ncap >>= fun _ => throwE ex) >>= fun _ =>
    resetData cfg c nb ncap count
  else if guard_assignWithCopies_1 e then
    assignGen cfg v.data 0 (List.replicate v.size s) >>= fun _ =>
    uninitGen cfg v.data v.size 0 (List.replicate (count - v.size) s) >>= fun _ =>
    setSize c count
  else
    assignGen cfg v.data 0 (List.replicate count s) >>= fun _ =>
    eraseRange cfg c count v.size >>= fun _ => pure ()

/-- assign_with_range, forward iterators (hpp:3563) -/
def assignWithRangeFwd (cfg : Cfg) (c : Nat) (srcs : List (Src α)) : M α Unit :=
  getV c >>= fun v =>
  let e : GuardEnv := { genv cfg v with count := srcs.length }
  if guard_assignWithRange1_0 e then
    calcNewCapacity cfg assignWithRangeCalcChecked v srcs.length >>= fun ncap =>
    allocateBy cfg assignWithRangeAllocChecked v.alloc ncap >>= fun nb =>
    tryCatch (uninitGen cfg nb 0 0 srcs)
      (fun ex => deallocate v.alloc nb ncap >>= fun _ => throwE ex) >>= fun _ =>
    resetData cfg c nb ncap srcs.length
  else if guard_assignWithRange1_1 e then
    assignGen cfg v.data 0 (srcs.take v.size) >>= fun _ =>
    uninitGen cfg v.data v.size 0 (srcs.drop v.size) >>= fun _ =>
    setSize c srcs.length
  else
    assignGen cfg v.data 0 srcs >>= fun _ =>
    eraseRange cfg c srcs.length v.size >>= fun _ => pure ()

/-- assign_with_range, input iterators (hpp:3543): overwrite, then erase the tail or append the rest -/
def assignInputLoop (cfg : Cfg) (c sid : Nat) : (p : Nat) → List α → M α (Nat × List α)
  | p, [] => pure (p, [])
  | p, x :: xs =>
      getV c >>= fun v =>
      if p = v.size then pure (p, x :: xs) else
      emit (.deref sid p) >>= fun _ =>
      assignSrc cfg v.data p (.ext x) >>= fun _ =>
      emit (.incr sid p) >>= fun _ =>
      assignInputLoop cfg c sid (p + 1) xs

def assignWithRangeInput (cfg : Cfg) (c sid : Nat) (xs : List α) : M α Unit :=
  assignInputLoop cfg c sid 0 xs >>= fun (p, rest) =>
  if guard_assignWithRange0_0 { numInsert := rest.length } then eraseToEnd cfg c p
  else appendRangeInput cfg c false sid p rest >>= fun _ => pure ()

/-! ### construction / destruction (hpp:3250-3496) -/
def ctorDefault (c a : Nat) : M α Unit := setAlloc c a >>= fun _ => setDefault c

/-- count / count+value / forward-range constructors: `checked` = uses checked_allocate -/
def ctorFill (cfg : Cfg) (c a : Nat) (checked : Bool) (srcs : List (Src α)) : M α Unit :=
  setAlloc c a >>= fun _ =>
  getV c >>= fun v =>
  if v.N < srcs.length then      -- `InlineCapacity < count` (guard_ctor*, see Gen/Guards)
    (if checked then checkedAllocate cfg a srcs.length else allocate cfg a srcs.length) >>= fun nb =>
    setDataPtr c nb >>= fun _ => setCapacity c srcs.length >>= fun _ =>
    tryCatch (uninitGen cfg nb 0 0 srcs)
      (fun e => deallocate a nb srcs.length >>= fun _ => throwE e) >>= fun _ =>
    setSize c srcs.length
  else
    setToInlineStorage c >>= fun _ =>
    uninitGen cfg v.inl 0 0 srcs >>= fun _ =>
    setSize c srcs.length

/-- range constructor for single-pass iterators: delegates to the default constructor, then appends element by element;
    an exception leaves through the destructor of the (fully constructed) base sub-object -/
def ctorInput (cfg : Cfg) (c a sid : Nat) (vs : List α) : M α Unit :=
  ctorDefault c a >>= fun _ =>
  tryCatch (appendRangeInput cfg c false sid 0 vs >>= fun _ => pure ())
    (fun e => wipe cfg c >>= fun _ => throwE e)

/-- copy construction from container `o` with allocator `a` (hpp:3258) -/
def ctorCopy (cfg : Cfg) (c o a : Nat) : M α Unit :=
  getV o >>= fun ov => ctorFill cfg c a ctorCopyChecked (srcsCopy ov.data 0 ov.size)

/-- move_initialize (hpp:3173-3240); the overload is selected statically by (N, o.N) -/
def moveInitialize (cfg : Cfg) (c o : Nat) : M α Unit :=
  getV c >>= fun v => getV o >>= fun ov =>
  let e := genv2 cfg v ov
  let steal : M α Unit := setData c ov.data ov.cap ov.size >>= fun _ => setDefault o
  let inlineMove : M α Unit :=
    setToInlineStorage c >>= fun _ =>
    uninitializedMove cfg false ov.data 0 ov.size v.inl 0 >>= fun _ => setSize c ov.size
  if v.N = 0 ∧ ov.N = 0 then steal
  else if ov.N ≤ v.N then
    (if guard_moveInitialize1_0 e then steal else inlineMove)
  else
    if guard_moveInitialize2_0 e then steal
    else if guard_moveInitialize2_1 e then
      allocate cfg v.alloc ov.size >>= fun nb =>
      setDataPtr c nb >>= fun _ => setCapacity c ov.size >>= fun _ =>
      tryCatch (uninitializedMove cfg false ov.data 0 ov.size nb 0)
        (fun ex => deallocate v.alloc nb ov.size >>= fun _ => throwE ex) >>= fun _ =>
      setSize c ov.size
    else inlineMove

def ctorMove (cfg : Cfg) (c o : Nat) : M α Unit :=
  getV o >>= fun ov => setAlloc c ov.alloc >>= fun _ => moveInitialize cfg c o

/-- allocator-extended move construction (hpp:3303-3354) -/
def ctorMoveAlloc (cfg : Cfg) (c o a : Nat) : M α Unit :=
  if ctorMoveAllocDelegates cfg.policy then ctorMove cfg c o else
  getV o >>= fun ov =>
  setAlloc c a >>= fun _ =>
  if ov.alloc = a then moveInitialize cfg c o else
  getV c >>= fun v =>
  if v.N < ov.size then
    allocate cfg a ov.size >>= fun nb =>
    setDataPtr c nb >>= fun _ => setCapacity c ov.size >>= fun _ =>
    tryCatch (uninitializedMove cfg false ov.data 0 ov.size nb 0)
      (fun ex => deallocate a nb ov.size >>= fun _ => throwE ex) >>= fun _ =>
    setSize c ov.size
  else
    setToInlineStorage c >>= fun _ =>
    uninitializedMove cfg false ov.data 0 ov.size v.inl 0 >>= fun _ => setSize c ov.size

def dtor (cfg : Cfg) (c : Nat) : M α Unit := wipe cfg c

/-! ### copy assignment (hpp:2822-2960) -/
def copyAssignInPlace (cfg : Cfg) (c : Nat) (v ov : Vec) (sizeLess : Bool) : M α Unit :=
  if sizeLess then
    assignGen cfg v.data 0 (srcsCopy ov.data 0 v.size) >>= fun _ =>
    uninitGen cfg v.data v.size 0 (srcsCopy ov.data v.size (ov.size - v.size))
  else
    assignGen cfg v.data 0 (srcsCopy ov.data 0 ov.size) >>= fun _ =>
    destroyRange cfg v.data ov.size (v.size - ov.size)

def copyAssignDefault (cfg : Cfg) (c o : Nat) : M α Unit :=
  getV c >>= fun v => getV o >>= fun ov =>
  let e := genv2 cfg v ov
  (if guard_copyAssignDefault_0 e then
    let ncap := newCapacity cfg.maxSize v.cap ov.size
    allocate cfg v.alloc ncap >>= fun nb =>
    tryCatch (uninitGen cfg nb 0 0 (srcsCopy ov.data 0 ov.size))
      (fun ex => deallocate v.alloc nb ncap >>= fun _ => throwE ex) >>= fun _ =>
    resetData cfg c nb ncap ov.size
  else
    copyAssignInPlace cfg c v ov (guard_copyAssignDefault_1 e) >>= fun _ => setSize c ov.size) >>= fun _ =>
  setAlloc c (maybeCopy cfg.policy v.alloc ov.alloc)

def copyAssign (cfg : Cfg) (c o : Nat) : M α Unit :=
  if !copyAssignPropagating cfg.policy then copyAssignDefault cfg c o else
  getV c >>= fun v => getV o >>= fun ov =>
  let e := genv2 cfg v ov
  if guard_copyAssign0_0 e then copyAssignDefault cfg c o else
  if guard_copyAssign0_1 e then
    allocate cfg ov.alloc ov.size >>= fun nb =>
    tryCatch (uninitGen cfg nb 0 0 (srcsCopy ov.data 0 ov.size))
      (fun ex => deallocate ov.alloc nb ov.size >>= fun _ => throwE ex) >>= fun _ =>
    resetData cfg c nb ov.size ov.size >>= fun _ =>
    setAlloc c (maybeCopy cfg.policy v.alloc ov.alloc)
  else
    (if guard_copyAssign0_2 e then
      uninitGen cfg v.inl 0 0 (srcsCopy ov.data 0 ov.size) >>= fun _ =>
      destroyRange cfg v.data 0 v.size >>= fun _ =>
      deallocate v.alloc v.data v.cap >>= fun _ =>
      setDataPtr c v.inl >>= fun _ => setCapacity c v.N
    else copyAssignInPlace cfg c v ov (guard_copyAssign0_3 e)) >>= fun _ =>
    setSize c ov.size >>= fun _ =>
    setAlloc c (maybeCopy cfg.policy v.alloc ov.alloc)

/-! ### move assignment (hpp:2962-3171) -/
def moveAllocationPointer (cfg : Cfg) (c o : Nat) : M α Unit :=
  getV o >>= fun ov => resetData cfg c ov.data ov.cap ov.size >>= fun _ => setDefault o

def moveAssignInPlace (cfg : Cfg) (c : Nat) (v ov : Vec) (sizeLess : Bool) : M α Unit :=
  if sizeLess then
    assignGen cfg v.data 0 (srcsMove ov.data 0 v.size) >>= fun _ =>
    uninitializedMove cfg false ov.data v.size (ov.size - v.size) v.data v.size
  else
    assignGen cfg v.data 0 (srcsMove ov.data 0 ov.size) >>= fun _ =>
    destroyRange cfg v.data ov.size (v.size - ov.size)

def moveAssignDefault (cfg : Cfg) (c o : Nat) : M α Unit :=
  getV c >>= fun v => getV o >>= fun ov =>
  let e := genv2 cfg v ov
  (if v.N = 0 ∧ ov.N = 0 then moveAllocationPointer cfg c o
  else if ov.N ≤ v.N then
    if guard_moveAssignDefault1_0 e then moveAllocationPointer cfg c o
    else
      (if guard_moveAssignDefault1_1 e then
        uninitializedMove cfg false ov.data 0 ov.size v.inl 0 >>= fun _ =>
        destroyRange cfg v.data 0 v.size >>= fun _ =>
        deallocate v.alloc v.data v.cap >>= fun _ =>
        setDataPtr c v.inl >>= fun _ => setCapacity c v.N
      else moveAssignInPlace cfg c v ov (guard_moveAssignDefault1_2 e)) >>= fun _ =>
      setSize c ov.size
  else
    if guard_moveAssignDefault2_0 e then moveAllocationPointer cfg c o
    else if guard_moveAssignDefault2_1 e then
      let ncap := if v.cap < ov.size then newCapacity cfg.maxSize v.cap ov.size else v.cap
      allocate cfg ov.alloc ncap >>= fun nb =>
      tryCatch (uninitializedMove cfg false ov.data 0 ov.size nb 0)
        (fun ex => deallocate ov.alloc nb ncap >>= fun _ => throwE ex) >>= fun _ =>
      resetData cfg c nb ncap ov.size
    else
      moveAssignInPlace cfg c v ov (guard_moveAssignDefault2_2 e) >>= fun _ => setSize c ov.size) >>= fun _ =>
  setAlloc c (maybeMove cfg.policy v.alloc ov.alloc)

def moveAssignUnequalNoPropagate (cfg : Cfg) (c o : Nat) : M α Unit :=
  getV c >>= fun v => getV o >>= fun ov =>
  let e := genv2 cfg v ov
  (if guard_moveAssignUnequalNoPropagate_0 e then
    let ncap := newCapacity cfg.maxSize v.cap ov.size
    allocate cfg v.alloc ncap >>= fun nb =>
    tryCatch (uninitializedMove cfg false ov.data 0 ov.size nb 0)
      (fun ex => deallocate v.alloc nb ncap >>= fun _ => throwE ex) >>= fun _ =>
    resetData cfg c nb ncap ov.size
  else
    moveAssignInPlace cfg c v ov (guard_moveAssignUnequalNoPropagate_1 e) >>= fun _ => setSize c ov.size) >>= fun _ =>
  setAlloc c (maybeMove cfg.policy v.alloc ov.alloc)

def moveAssign (cfg : Cfg) (c o : Nat) : M α Unit :=
  if allocationsAreMovable cfg.policy then moveAssignDefault cfg c o else
  getV c >>= fun v => getV o >>= fun ov =>
  if guard_moveAssign1_0 (genv2 cfg v ov) then moveAssignDefault cfg c o
  else moveAssignUnequalNoPropagate cfg c o

/-! ### swap (hpp:4416-4585) -/
def swapAllocation (c o : Nat) : M α Unit :=
  getV c >>= fun v => getV o >>= fun ov =>
  setData c ov.data ov.cap ov.size >>= fun _ => setData o v.data v.cap v.size

def swapSize (c o : Nat) : M α Unit :=
  getV c >>= fun v => getV o >>= fun ov => setSize c ov.size >>= fun _ => setSize o v.size

def maybeSwapAlloc (cfg : Cfg) (c o : Nat) : M α Unit :=
  getV c >>= fun v => getV o >>= fun ov =>
  setAlloc c (maybeSwap cfg.policy v.alloc ov.alloc).1 >>= fun _ =>
  setAlloc o (maybeSwap cfg.policy v.alloc ov.alloc).2

/-- swap_elements: precondition size c ≤ size o -/
def swapElements (cfg : Cfg) (c o : Nat) : M α Unit :=
  getV c >>= fun v => getV o >>= fun ov =>
  swapRanges cfg v.data 0 ov.data 0 v.size >>= fun _ =>
  uninitializedMove cfg false ov.data v.size (ov.size - v.size) v.data v.size >>= fun _ =>
  destroyRange cfg ov.data v.size (ov.size - v.size) >>= fun _ =>
  swapSize c o

/-- swap_default: precondition cap c ≤ cap o -/
def swapDefault (cfg : Cfg) (c o : Nat) : M α Unit :=
  getV c >>= fun v => getV o >>= fun ov =>
  let e := genv2 cfg v ov
  (if guard_swapDefault_0 e then swapAllocation c o
  else if guard_swapDefault_1 e then
    uninitializedMove cfg false v.data 0 v.size ov.inl 0 >>= fun _ =>
    destroyRange cfg v.data 0 v.size >>= fun _ =>
    setDataPtr c ov.data >>= fun _ => setCapacity c ov.cap >>= fun _ =>
    setDataPtr o ov.inl >>= fun _ => setCapacity o ov.N >>= fun _ =>
    swapSize c o
  else if guard_swapDefault_2 e then swapElements cfg c o
  else swapElements cfg o c) >>= fun _ =>
  maybeSwapAlloc cfg c o

/-- swap_unequal_no_propagate: precondition cap c ≤ cap o -/
def swapUnequalNoPropagate (cfg : Cfg) (c o : Nat) : M α Unit :=
  getV c >>= fun v => getV o >>= fun ov =>
  let e := genv2 cfg v ov
  (if guard_swapUnequalNoPropagate_0 e then
    let ncap := newCapacity cfg.maxSize v.cap ov.size
    allocate cfg v.alloc ncap >>= fun nb =>
    tryCatch
      (uninitializedMove cfg false ov.data 0 ov.size nb 0 >>= fun _ =>
        tryCatch
          (assignGen cfg ov.data 0 (srcsMove v.data 0 v.size) >>= fun _ =>
            destroyRange cfg ov.data v.size (ov.size - v.size))
          (fun ex => destroyRange cfg nb 0 ov.size >>= fun _ => throwE ex))
      (fun ex => deallocate v.alloc nb ncap >>= fun _ => throwE ex) >>= fun _ =>
    destroyRange cfg v.data 0 v.size >>= fun _ =>
    (if guard_swapUnequalNoPropagate_1 e then deallocate v.alloc v.data v.cap else pure ()) >>= fun _ =>
    setDataPtr c nb >>= fun _ => setCapacity c ncap >>= fun _ => swapSize c o
  else if guard_swapUnequalNoPropagate_2 e then swapElements cfg c o
  else swapElements cfg o c) >>= fun _ =>
  maybeSwapAlloc cfg c o

def swap (cfg : Cfg) (c o : Nat) : M α Unit :=
  getV c >>= fun v => getV o >>= fun ov =>
  let e := genv2 cfg v ov
  if allocationsAreSwappable cfg.policy then
    if v.N = 0 then swapAllocation c o >>= fun _ => maybeSwapAlloc cfg c o
    else if guard_swap1_0 e then swapDefault cfg c o else swapDefault cfg o c
  else
    if guard_swap2_0 e then
      (if guard_swap2_1 e then swapDefault cfg c o else swapUnequalNoPropagate cfg c o)
    else
      (if guard_swap2_2 e then swapDefault cfg o c else swapUnequalNoPropagate cfg o c)

end SvModel
