/-
Public API as data (`Op`), the system step function, the line protocol and the canonical observation line shared with
the C++ harness (harness/harness.cpp).  Containers 0,1 ("a","b") have inline capacity N, containers 2,3 ("c","d") M.
-/
import SvModel.Ops
import SvModel.Gen.Compare

namespace SvModel

inductive Arg where
  | ext (v : Int)      -- a value outside the container
  | self (i : Nat)     -- the container's own element i (aliasing)
  deriving Repr, DecidableEq

inductive ItKind where
  | fw | inp
  deriving Repr, DecidableEq

inductive Op where
  | new (x a : Nat) | newn (x n a : Nat) | newv (x n : Nat) (v : Int) (a : Nat)
  | newr (x : Nat) (k : ItKind) (a : Nat) (vs : List Int)
  | newg (x a : Nat) (vs : List Int)          -- small_vector (count, generator, alloc): the generator yields `vs`
  | newc (x y : Nat) (a : Option Nat) | newm (x y : Nat) (a : Option Nat) | del (x : Nat)
  | pb (x : Nat) (arg : Arg) | pbm (x : Nat) (v : Int)
  | ins (x p : Nat) (arg : Arg) | insm (x p : Nat) (v : Int) | insn (x p n : Nat) (arg : Arg)
  | insr (x p : Nat) (k : ItKind) (vs : List Int)
  | era (x p : Nat) | erar (x p q : Nat) | pop (x : Nat) | clr (x : Nat)
  | rsz (x n : Nat) | rszv (x n : Nat) (arg : Arg) | rsv (x n : Nat) | stf (x : Nat)
  | asn (x n : Nat) (v : Int) | asr (x : Nat) (k : ItKind) (vs : List Int)
  | asc (x y : Nat) | asm (x y : Nat) | swp (x y : Nat)
  | appc (x y : Nat) | appm (x y : Nat)      -- x.append (y) / x.append (std::move (y)), any pair of inline capacities
  | app (x : Nat) (k : ItKind) (vs : List Int)
  | at (x i : Nat) | get (x i : Nat)
  deriving Repr

/-- what an operation returns -/
inductive Out where
  | none | idx (i : Nat) | val (v : Val Int)
  deriving Repr, DecidableEq

structure Sys where
  w : World Int
  alive : List Bool      -- which of the four containers are constructed
  nextStream : Nat := 0

def Sys.isAlive (s : Sys) (x : Nat) : Bool := s.alive.getD x false

def initWorld (N M : Nat) : World Int :=
  { mem := fun b => if b < 2 then List.replicate N .raw else if b < 4 then List.replicate M .raw else [],
    hdr := fun c =>
      let n := if c < 2 then N else M
      -- a container with inline capacity 0 has no in-object buffer: its "inline" data pointer is null (one shared empty block)
      { N := n, inl := if n = 0 then nullBlk else c, cap := 0, size := 0, data := if n = 0 then nullBlk else c, alloc := 0 },
    owner := fun _ => 0, live := [], next := heapBase, ntmp := tmpBase, faults := [], trace := [], ub := [] }

def initSys (N M : Nat) : Sys := { w := initWorld N M, alive := [false, false, false, false] }

def argSrc (w : World Int) (x : Nat) : Arg → Src Int
  | .ext v => .ext v
  | .self i => .copyOf (w.hdr x).data i

def extSrcs (vs : List Int) : List (Src Int) := vs.map Src.ext

/-- API preconditions (what the real code rejects or leaves undefined is excluded here and nowhere else) -/
def Op.valid (s : Sys) : Op → Bool
  | .new x _ | .newn x _ _ | .newv x _ _ _ | .newr x _ _ _ | .newg x _ _ => x < 4 && !s.isAlive x
  | .newc x y _ | .newm x y _ => x < 4 && y < 4 && x ≠ y && !s.isAlive x && s.isAlive y
  | .del x => s.isAlive x
  | .pb x arg | .rszv x _ arg => s.isAlive x && (match arg with | .ext _ => true | .self i => i < (s.w.hdr x).size)
  | .pbm x _ => s.isAlive x
  | .ins x p arg | .insn x p _ arg =>
      s.isAlive x && p ≤ (s.w.hdr x).size && (match arg with | .ext _ => true | .self i => i < (s.w.hdr x).size)
  | .insm x p _ => s.isAlive x && p ≤ (s.w.hdr x).size
  | .insr x p _ _ => s.isAlive x && p ≤ (s.w.hdr x).size
  | .era x p => s.isAlive x && p < (s.w.hdr x).size
  | .erar x p q => s.isAlive x && p ≤ q && q ≤ (s.w.hdr x).size
  | .pop x => s.isAlive x && 0 < (s.w.hdr x).size
  | .clr x | .rsz x _ | .rsv x _ | .stf x | .asn x _ _ | .asr x _ _ | .app x _ _ | .at x _ => s.isAlive x
  | .get x i => s.isAlive x && i < (s.w.hdr x).size
  | .asc x y | .asm x y | .appc x y | .appm x y => s.isAlive x && s.isAlive y && x ≠ y && true
  | .swp x y => s.isAlive x && s.isAlive y && x ≠ y && (x < 2) = (y < 2)

def setAlive (s : Sys) (x : Nat) (b : Bool) : Sys := { s with alive := s.alive.set x b }

/-- soccc: the harness allocators return themselves from select_on_container_copy_construction unless the
    allocator kind says otherwise (`soccc` flag: id + 100) -/
structure ApiCfg where
  cfg : Cfg
  socccShift : Nat := 0

def opM (ac : ApiCfg) (s : Sys) : Op → M Int Out
  | .new x a => ctorDefault x a >>= fun _ => pure .none
  | .newn x n a => ctorFill ac.cfg x a Gen.ctorCountChecked (List.replicate n (.value 0)) >>= fun _ => pure .none
  | .newv x n v a => ctorFill ac.cfg x a Gen.ctorCountValueChecked (List.replicate n (.ext v)) >>= fun _ => pure .none
  | .newr x .fw a vs => ctorFill ac.cfg x a Gen.ctorForwardRangeChecked (extSrcs vs) >>= fun _ => pure .none
  | .newg x a vs => ctorFill ac.cfg x a Gen.ctorGeneratorChecked (extSrcs vs) >>= fun _ => pure .none
  | .newr x .inp a vs => ctorInput ac.cfg x a s.nextStream vs >>= fun _ => pure .none   -- (Ops.lean: default ctor, append loop, base-class destructor on a throw)
  | .newc x y a => ctorCopy ac.cfg x y (match a with | some a => a | none => (s.w.hdr y).alloc + ac.socccShift) >>= fun _ => pure .none
  | .newm x y none => ctorMove ac.cfg x y >>= fun _ => pure .none
  | .newm x y (some a) => ctorMoveAlloc ac.cfg x y a >>= fun _ => pure .none
  | .del x => dtor ac.cfg x >>= fun _ => pure .none
  | .pb x arg => appendElement ac.cfg x (argSrc s.w x arg) >>= fun _ => pure .none
  | .pbm x v => appendElement ac.cfg x (.extMove v) >>= fun _ => pure .none
  | .ins x p arg => emplaceAt ac.cfg x p (argSrc s.w x arg) false >>= fun i => pure (.idx i)
  | .insm x p v => emplaceAt ac.cfg x p (.extMove v) true >>= fun i => pure (.idx i)
  | .insn x p n arg => insertCopies ac.cfg x p n (argSrc s.w x arg) >>= fun i => pure (.idx i)
  | .insr x p .fw vs => (if vs.isEmpty then pure p else insertRangeFwd ac.cfg x p (extSrcs vs)) >>= fun i => pure (.idx i)
  | .insr x p .inp vs =>
      (if vs.isEmpty then pure p
       else if p = (s.w.hdr x).size then appendRangeInput ac.cfg x false s.nextStream 0 vs   -- hpp:4084: the non-strong overload
       else insertRangeInputMid ac.cfg x p s.nextStream vs) >>= fun i => pure (.idx i)   -- via a temporary container
  | .era x p => eraseAt ac.cfg x p >>= fun i => pure (.idx i)
  | .erar x p q => eraseRange ac.cfg x p q >>= fun i => pure (.idx i)
  | .pop x => eraseLast ac.cfg x >>= fun _ => pure .none
  | .clr x => eraseAll ac.cfg x >>= fun _ => pure .none
  | .rsz x n => resizeWith ac.cfg x n (.value 0) >>= fun _ => pure .none
  | .rszv x n arg => resizeWith ac.cfg x n (argSrc s.w x arg) >>= fun _ => pure .none
  | .rsv x n => requestCapacity ac.cfg x n >>= fun _ => pure .none
  | .stf x => shrinkToSize ac.cfg x >>= fun _ => pure .none
  | .asn x n v => assignWithCopies ac.cfg x n (.ext v) >>= fun _ => pure .none
  | .asr x .fw vs => assignWithRangeFwd ac.cfg x (extSrcs vs) >>= fun _ => pure .none
  | .asr x .inp vs => assignWithRangeInput ac.cfg x s.nextStream vs >>= fun _ => pure .none
  | .asc x y => copyAssign ac.cfg x y >>= fun _ => pure .none
  | .asm x y => moveAssign ac.cfg x y >>= fun _ => pure .none
  | .swp x y => swap ac.cfg x y >>= fun _ => pure .none
  | .appc x y => appendOther ac.cfg x y >>= fun _ => pure .none
  | .appm x y => appendOtherMove ac.cfg x y >>= fun _ => pure .none
  | .app x .fw vs => appendRangeFwd ac.cfg x true (extSrcs vs) >>= fun _ => pure .none
  | .app x .inp vs => appendRangeInput ac.cfg x true s.nextStream 0 vs >>= fun _ => pure .none
  | .at x i => getV x >>= fun v => if Gen.guard_at0_0 { size := v.size, pos := i } then throwE .range else readSlot v.data i >>= fun r => pure (.val r)   -- the GENERATED test of `at ()`
  | .get x i => getV x >>= fun v => readSlot v.data i >>= fun r => pure (.val r)

def usesStream : Op → Bool
  | .newr _ .inp _ _ | .insr _ _ .inp _ | .asr _ .inp _ | .app _ .inp _ => true
  | _ => false

/-- one API call: result, and the system afterwards (also after a throw) -/
def Sys.step (ac : ApiCfg) (s : Sys) (op : Op) (faults : List Nat) : Res Sys Out :=
  let w0 := { s.w with faults := faults }
  let s1 : Sys := if usesStream op then { s with nextStream := s.nextStream + 1 } else s
  match opM ac s op w0 with
  | .ok out w =>
      let s' : Sys := { s1 with w := w }
      .ok out (match op with
        | .new x _ | .newn x _ _ | .newv x _ _ _ | .newr x _ _ _ | .newg x _ _ | .newc x _ _ | .newm x _ _ => setAlive s' x true
        | .del x => setAlive s' x false
        | _ => s')
  | .thrown e w => .thrown e { s1 with w := w }

/-! ### printing (must match harness/harness.cpp byte for byte) -/
/-- display: heap blocks are numbered 4, 5, 6, … in allocation order (as the harness numbers them) -/
def blkStr (b : Nat) : String := if isTmp b then "T" else if isHeap b then toString ((b - heapBase) / 2 + 4) else toString b

/-- a slot: `block.index`; objects on the stack (temporaries, the in-object buffer of a temporary container) are all `T.0`,
    as the harness cannot tell them apart either -/
def slotStr (b i : Nat) : String := if isTmp b then "T.0" else s!"{blkStr b}.{i}"

def evStr : Ev → String
  | .cctor b i => s!"cc{slotStr b i}" | .mctor b i => s!"mc{slotStr b i}" | .vctor b i => s!"vc{slotStr b i}"
  | .casg b i => s!"ca{slotStr b i}" | .masg b i => s!"ma{slotStr b i}" | .dtor b i => s!"d{slotStr b i}"
  | .alloc b n a => s!"A{blkStr b}:{n}@{a}" | .dealloc b n a => s!"F{blkStr b}:{n}@{a}"
  | .deref s p => s!"*{s}.{p}" | .incr s p => s!"+{s}.{p}"

def valStr : Slot Int → String
  | .raw => "_"
  | .obj (.val a) => toString a
  | .obj .husk => "~"

def outStr : Out → String
  | .none => "-"
  | .idx i => s!"i{i}"
  | .val (.val a) => s!"v{a}"
  | .val .husk => "v~"

def excStr : Exc → String
  | .elem => "elem" | .alloc => "alloc" | .length => "length" | .range => "range" | .iter => "iter"

def names : List String := ["a", "b", "c", "d"]

def vecStr (s : Sys) (x : Nat) : String :=
  let n := names.getD x "?"
  if s.isAlive x then
    let v := s.w.hdr x
    let buf := if v.data = v.inl then "I" else s!"H{blkStr v.data}"
    s!"{n}={v.size}/{v.cap}/{buf}/{v.alloc}"
  else s!"{n}=-"

def valsStr (s : Sys) (x : Nat) : String :=
  let n := names.getD x "?"
  if s.isAlive x then
    let v := s.w.hdr x
    n ++ "=[" ++ ",".intercalate (((s.w.mem v.data).take v.size).map valStr) ++ "]"
  else n ++ "=-"

def countObjs (l : List (Slot Int)) : Nat := (l.filter fun s => !s.isRaw).length

def liveObjs (w : World Int) : Nat :=
  ((List.range (max w.next w.ntmp)).map fun b => countObjs (w.mem b)).sum

def obsLine (s : Sys) (t0 : Nat) (out : String) (exc : String) : String :=
  let st := " ".intercalate ((List.range 4).map (vecStr s))
  let vals := " ".intercalate ((List.range 4).map (valsStr s))
  let evs := " ".intercalate ((s.w.trace.drop t0).map evStr)
  let ub := if s.w.ub.isEmpty then "" else " | UB " ++ "; ".intercalate s.w.ub
  s!"{out} | {st} | {vals} | objs={liveObjs s.w} blocks={s.w.live.length} | {evs} | {exc}{ub}"

/-! ### parsing -/
def cidx : String → Option Nat
  | "a" => some 0 | "b" => some 1 | "c" => some 2 | "d" => some 3 | _ => none

def parseArg (t : String) : Option Arg :=
  if t.startsWith "v" then (t.drop 1).toInt?.map Arg.ext
  else if t.startsWith "s" then (t.drop 1).toNat?.map Arg.self
  else none

def parseVals (t : String) : Option (List Int) :=
  if t = "-" then some [] else (t.splitOn ",").mapM fun x => x.toInt?

def parseIt : String → Option ItKind
  | "fw" => some .fw | "in" => some .inp | "ra" => some .fw | _ => none     -- "ra": pointers (random access / contiguous): the header treats them as a forward range whose length is a subtraction

def parseAllocOpt (t : String) : Option (Option Nat) :=
  if t = "-" then some none else t.toNat?.map some

def parseOp (toks : List String) : Option Op :=
  match toks with
  | ["new", x, a] => do pure (.new (← cidx x) (← a.toNat?))
  | ["newn", x, n, a] => do pure (.newn (← cidx x) (← n.toNat?) (← a.toNat?))
  | ["newv", x, n, v, a] => do pure (.newv (← cidx x) (← n.toNat?) (← v.toInt?) (← a.toNat?))
  | ["newr", x, k, a, vs] => do pure (.newr (← cidx x) (← parseIt k) (← a.toNat?) (← parseVals vs))
  | ["newg", x, a, vs] => do pure (.newg (← cidx x) (← a.toNat?) (← parseVals vs))
  | ["newc", x, y, a] => do pure (.newc (← cidx x) (← cidx y) (← parseAllocOpt a))
  | ["newm", x, y, a] => do pure (.newm (← cidx x) (← cidx y) (← parseAllocOpt a))
  | ["del", x] => do pure (.del (← cidx x))
  | ["pb", x, a] => do pure (.pb (← cidx x) (← parseArg a))
  | ["pbm", x, v] => do pure (.pbm (← cidx x) (← v.toInt?))
  | ["ins", x, p, a] => do pure (.ins (← cidx x) (← p.toNat?) (← parseArg a))
  | ["insm", x, p, v] => do pure (.insm (← cidx x) (← p.toNat?) (← v.toInt?))
  | ["insn", x, p, n, a] => do pure (.insn (← cidx x) (← p.toNat?) (← n.toNat?) (← parseArg a))
  | ["insr", x, p, k, vs] => do pure (.insr (← cidx x) (← p.toNat?) (← parseIt k) (← parseVals vs))
  | ["era", x, p] => do pure (.era (← cidx x) (← p.toNat?))
  | ["erar", x, p, q] => do pure (.erar (← cidx x) (← p.toNat?) (← q.toNat?))
  | ["pop", x] => do pure (.pop (← cidx x))
  | ["clr", x] => do pure (.clr (← cidx x))
  | ["rsz", x, n] => do pure (.rsz (← cidx x) (← n.toNat?))
  | ["rszv", x, n, a] => do pure (.rszv (← cidx x) (← n.toNat?) (← parseArg a))
  | ["rsv", x, n] => do pure (.rsv (← cidx x) (← n.toNat?))
  | ["stf", x] => do pure (.stf (← cidx x))
  | ["asn", x, n, v] => do pure (.asn (← cidx x) (← n.toNat?) (← v.toInt?))
  | ["asr", x, k, vs] => do pure (.asr (← cidx x) (← parseIt k) (← parseVals vs))
  | ["asc", x, y] => do pure (.asc (← cidx x) (← cidx y))
  | ["asm", x, y] => do pure (.asm (← cidx x) (← cidx y))
  | ["swp", x, y] => do pure (.swp (← cidx x) (← cidx y))
  | ["appc", x, y] => do pure (.appc (← cidx x) (← cidx y))
  | ["appm", x, y] => do pure (.appm (← cidx x) (← cidx y))
  | ["app", x, k, vs] => do pure (.app (← cidx x) (← parseIt k) (← parseVals vs))
  | ["at", x, i] => do pure (.at (← cidx x) (← i.toNat?))
  | ["get", x, i] => do pure (.get (← cidx x) (← i.toNat?))
  | _ => none

def parseFaults (t : String) : Option (List Nat) := (t.splitOn ",").mapM fun x => x.toNat?

/-! ### C16 lines: comparisons and non-member erase through the generated definitions -/
def b01 (b : Bool) : String := if b then "1" else "0"
def ord3Str : Gen.Ord3 → String | .less => "L" | .equiv => "E" | .greater => "G"
def int3 (a b : Int) : Gen.Ord3 := if a < b then .less else if b < a then .greater else .equiv
/-- `same`: the operands have the same inline capacity (N = M), so overload resolution picks the same-capacity operators -/
def cmpLine (tag : String) (fallback same : Bool) (l r : List Int) : String :=
  let lt : Int → Int → Bool := fun a b => decide (a < b)
  let c3 := if fallback then Gen.opCmp3Fallback lt l r else Gen.opCmp3 int3 l r
  if same then
    s!"{tag} eq={b01 (Gen.opEqSame l r)} ne={b01 (Gen.opNeSame l r)} lt={b01 (Gen.opLtSame lt l r)} le={b01 (Gen.opLeSame lt l r)} gt={b01 (Gen.opGtSame lt l r)} ge={b01 (Gen.opGeSame lt l r)} c3={ord3Str c3}"
  else
    s!"{tag} eq={b01 (Gen.opEq l r)} ne={b01 (Gen.opNe l r)} lt={b01 (Gen.opLt lt l r)} le={b01 (Gen.opLe lt l r)} gt={b01 (Gen.opGt lt l r)} ge={b01 (Gen.opGe lt l r)} c3={ord3Str c3}"
def nerLine (isIf : Bool) (l : List Int) (k : Int) : String :=
  let (l', n) := if isIf then Gen.nmEraseIf l (fun x => x % k == 0) else Gen.nmErase l k
  (if isIf then "nerif [" else "ner [") ++ ",".intercalate (l'.map toString) ++ s!"] {n}"

def pureLine (same : Bool) (toks : List String) : Option String :=
  match toks with
  | ["cmp", l, r] => do pure (cmpLine "cmp" false same (← parseVals l) (← parseVals r))
  | ["cmpw", l, r] => do pure (cmpLine "cmpw" true same (← parseVals l) (← parseVals r))
  | ["ner", l, k] => do pure (nerLine false (← parseVals l) (← k.toInt?))
  | ["nerif", l, k] => do let k ← k.toInt?; if k ≤ 0 then none else pure (nerLine true (← parseVals l) k)
  | _ => none

/-- one protocol line → (new system, observation line); `reset` starts a fresh system -/
def stepLine (ac : ApiCfg) (N M : Nat) (s : Sys) (line : String) : Sys × String :=
  let line := line.trimAscii.toString
  if line = "reset" then (initSys N M, "reset") else
  match pureLine (decide (N = M)) (line.splitOn " " |>.filter (· ≠ "")) with
  | some o => (s, o)
  | none =>
  let parts := line.splitOn " @"
  let faults? : Option (List Nat) := match parts with
    | [_] => some []
    | [_, f] => parseFaults f
    | _ => none
  match faults?, parseOp ((parts.headD "").splitOn " " |>.filter (· ≠ "")) with
  | some faults, some op =>
    if !op.valid s then (s, "invalid") else
    let t0 := s.w.trace.length
    match s.step ac op faults with
    | .ok out s' => (s', obsLine s' t0 (outStr out) "-")
    | .thrown e s' => (s', obsLine s' t0 "-" (excStr e))
  | _, _ => (s, "bad-op")

end SvModel
