/-
L2 primitives: mirrors `allocator_interface` (small_vector.hpp: allocate … uninitialized_fill) and the std algorithms the
container calls (`std::copy/move/move_backward/fill/swap_ranges`, as ordered element-wise loops).
Every primitive is total; misuse (constructing over a live slot, touching a dead one, a bad deallocate) is appended to
`World.ub`, never silently absorbed.
-/
import SvModel.Basic
import SvModel.Gen.Policy
import SvModel.Gen.Growth

namespace SvModel

/-- everything a template instantiation / build mode fixes -/
structure Cfg where
  copyThrows  : Bool := true
  moveThrows  : Bool := false      -- the move constructor may throw
  casgThrows  : Bool := true
  masgThrows  : Bool := false
  vctorThrows : Bool := true       -- value-initialisation may throw
  allocThrows : Bool := true
  hasMoveCtor : Bool := true       -- false: copy-only type, "moves" are copies
  hasCopy     : Bool := true       -- copy-insertable
  trivial     : Bool := false      -- trivially copyable: memcpy paths, no element events, nothing but allocate throws
  strongOptOut : Bool := false     -- GCH_NO_STRONG_EXCEPTION_GUARANTEES
  isStdAlloc  : Bool := false
  pocca : Bool := false
  pocma : Bool := false
  pocs  : Bool := false
  alwaysEq : Bool := false
  libAlwaysEq : Bool := true
  maxSize : Nat := 2 ^ 62
  deriving Repr

namespace Cfg
def tCopy (c : Cfg) : Bool := !c.trivial && c.copyThrows
def tMove (c : Cfg) : Bool := !c.trivial && (if c.hasMoveCtor then c.moveThrows else c.copyThrows)
def tCasg (c : Cfg) : Bool := !c.trivial && c.casgThrows
def tMasg (c : Cfg) : Bool := !c.trivial && (if c.hasMoveCtor then c.masgThrows else c.casgThrows)
def tVctor (c : Cfg) : Bool := !c.trivial && c.vctorThrows
/-- moves really move (leave a husk) -/
def realMove (c : Cfg) : Bool := !c.trivial && c.hasMoveCtor
def policy (c : Cfg) : Gen.PolicyEnv :=
  { nothrowMove := c.trivial || !(if c.hasMoveCtor then c.moveThrows else c.copyThrows),
    copyInsertable := c.hasCopy, strongOptOut := c.strongOptOut,
    isStdAlloc := c.isStdAlloc, pocca := c.pocca, pocma := c.pocma, pocs := c.pocs,
    alwaysEq := c.alwaysEq, libAlwaysEq := c.libAlwaysEq }
end Cfg

variable {α : Type}

/-- where a newly constructed / assigned element takes its value from -/
inductive Src (α : Type) where
  | ext (a : α)            -- an lvalue outside every container
  | extMove (a : α)        -- an rvalue outside every container
  | copyOf (b i : Nat)     -- copy of slot (b, i), read at the moment of the operation
  | moveOf (b i : Nat)     -- move from slot (b, i): the source becomes a husk
  | value (a : α)          -- value-initialisation (a = T ())
  deriving Repr

def evOn (c : Cfg) (e : Ev) : M α Unit := fun w =>
  .ok () (if c.trivial then w else { w with trace := w.trace ++ [e] })

def allocate (c : Cfg) (a n : Nat) : M α Nat :=
  tick c.allocThrows .alloc >>= fun _ => fun w =>
    .ok w.next { w with mem := upd w.mem w.next (List.replicate n .raw), owner := upd w.owner w.next a,
                        live := w.next :: w.live, next := w.next + 2,
                        trace := w.trace ++ [.alloc w.next n a] }

def deallocate (a blk n : Nat) : M α Unit := fun w =>
  if blk ∈ w.live ∧ (w.mem blk).length = n ∧ (w.mem blk).all Slot.isRaw = true ∧ w.owner blk = a then
    .ok () { w with mem := upd w.mem blk [], live := w.live.erase blk, trace := w.trace ++ [.dealloc blk n a] }
  else .ok () { w with ub := w.ub ++ ["bad deallocate"] }

/-- a temporary element-sized object on the stack (stack_temporary, std::swap's tmp) -/
def allocTemp : M α Nat := fun w =>
  .ok w.ntmp { w with mem := upd w.mem w.ntmp [.raw], ntmp := w.ntmp + 2 }

def readSlot (blk idx : Nat) : M α (Val α) := fun w =>
  match (w.mem blk)[idx]? with
  | some (.obj v) => .ok v w
  | _ => .ok .husk { w with ub := w.ub ++ ["read of dead slot"] }

def putObj (c : Cfg) (blk idx : Nat) (v : Val α) (e : Ev) : M α Unit := fun w =>
  match (w.mem blk)[idx]? with
  | some .raw => .ok () { w with mem := upd w.mem blk ((w.mem blk).set idx (.obj v)),
                                 trace := if c.trivial then w.trace else w.trace ++ [e] }
  | _ => .ok () { w with ub := w.ub ++ ["construct over non-raw"] }

def setObj (c : Cfg) (blk idx : Nat) (v : Val α) (e : Ev) : M α Unit := fun w =>
  match (w.mem blk)[idx]? with
  | some (.obj _) => .ok () { w with mem := upd w.mem blk ((w.mem blk).set idx (.obj v)),
                                     trace := if c.trivial then w.trace else w.trace ++ [e] }
  | _ => .ok () { w with ub := w.ub ++ ["assign to dead slot"] }

def huskSlot (c : Cfg) (blk idx : Nat) : M α Unit := fun w =>
  if c.realMove then
    match (w.mem blk)[idx]? with
    | some (.obj _) => .ok () { w with mem := upd w.mem blk ((w.mem blk).set idx (.obj .husk)) }
    | _ => .ok () { w with ub := w.ub ++ ["move from dead slot"] }
  else .ok () w

/-- construct a new element in raw slot (blk, idx) -/
def constructSrc (c : Cfg) (blk idx : Nat) : Src α → M α Unit
  | .ext a => tick c.tCopy .elem >>= fun _ => putObj c blk idx (.val a) (.cctor blk idx)
  | .extMove a =>
      tick c.tMove .elem >>= fun _ =>
      putObj c blk idx (.val a) (if c.hasMoveCtor then .mctor blk idx else .cctor blk idx)
  | .copyOf b i =>
      tick c.tCopy .elem >>= fun _ => readSlot b i >>= fun v => putObj c blk idx v (.cctor blk idx)
  | .moveOf b i =>
      tick c.tMove .elem >>= fun _ => readSlot b i >>= fun v =>
      putObj c blk idx v (if c.hasMoveCtor then .mctor blk idx else .cctor blk idx) >>= fun _ =>
      huskSlot c b i
  | .value a => tick c.tVctor .elem >>= fun _ => putObj c blk idx (.val a) (.vctor blk idx)

/-- assign to the live element in slot (blk, idx) -/
def assignSrc (c : Cfg) (blk idx : Nat) : Src α → M α Unit
  | .ext a => tick c.tCasg .elem >>= fun _ => setObj c blk idx (.val a) (.casg blk idx)
  | .extMove a =>
      tick c.tMasg .elem >>= fun _ =>
      setObj c blk idx (.val a) (if c.hasMoveCtor then .masg blk idx else .casg blk idx)
  | .copyOf b i =>
      tick c.tCasg .elem >>= fun _ => readSlot b i >>= fun v => setObj c blk idx v (.casg blk idx)
  | .moveOf b i =>
      tick c.tMasg .elem >>= fun _ => readSlot b i >>= fun v =>
      setObj c blk idx v (if c.hasMoveCtor then .masg blk idx else .casg blk idx) >>= fun _ =>
      huskSlot c b i
  | .value a => tick c.tCasg .elem >>= fun _ => setObj c blk idx (.val a) (.casg blk idx)

def destroyAt (c : Cfg) (blk idx : Nat) : M α Unit := fun w =>
  match (w.mem blk)[idx]? with
  | some (.obj _) => .ok () { w with mem := upd w.mem blk ((w.mem blk).set idx .raw),
                                     trace := if c.trivial then w.trace else w.trace ++ [.dtor blk idx] }
  | _ => .ok () { w with ub := w.ub ++ ["destroy of dead slot"] }

/-- destroy_range [first, first+n) -/
def destroyRange (c : Cfg) (blk : Nat) : (first n : Nat) → M α Unit
  | _, 0 => pure ()
  | first, n+1 => destroyAt c blk first >>= fun _ => destroyRange c blk (first+1) n

/-- default_uninitialized_copy / uninitialized_fill / uninitialized_value_construct: construct `srcs` into
    raw slots (dblk, dfirst+done …); on a throw destroy what was built and rethrow -/
def uninitGen (c : Cfg) (dblk dfirst : Nat) : (done : Nat) → List (Src α) → M α Unit
  | _, [] => pure ()
  | done, s :: rest =>
      tryCatch (constructSrc c dblk (dfirst + done) s)
        (fun e => destroyRange c dblk dfirst done >>= fun _ => throwE e) >>= fun _ =>
      uninitGen c dblk dfirst (done + 1) rest

/-- std::copy / std::move / std::fill / std::copy_n: forward element-wise assignment over live slots -/
def assignGen (c : Cfg) (dblk : Nat) : (dfirst : Nat) → List (Src α) → M α Unit
  | _, [] => pure ()
  | dfirst, s :: rest => assignSrc c dblk dfirst s >>= fun _ => assignGen c dblk (dfirst + 1) rest

/-- std::move_backward [a, a+n) → [a+k, a+n+k) within one block, last element first -/
def moveBackward (c : Cfg) (b a k : Nat) : (n : Nat) → M α Unit
  | 0 => pure ()
  | n+1 => assignSrc c b (a + n + k) (.moveOf b (a + n)) >>= fun _ => moveBackward c b a k n

def srcsCopy (b i n : Nat) : List (Src α) := (List.range n).map fun k => Src.copyOf b (i + k)
def srcsMove (b i n : Nat) : List (Src α) := (List.range n).map fun k => Src.moveOf b (i + k)

/-- std::swap (x, y) for elements: tmp (move x); x = move y; y = move tmp; ~tmp -/
def swapAt (c : Cfg) (b1 i1 b2 i2 : Nat) : M α Unit :=
  allocTemp >>= fun t =>
  constructSrc c t 0 (.moveOf b1 i1) >>= fun _ =>
  finally_
    (assignSrc c b1 i1 (.moveOf b2 i2) >>= fun _ => assignSrc c b2 i2 (.moveOf t 0))
    (destroyAt c t 0)

/-- std::swap_ranges -/
def swapRanges (c : Cfg) (b1 a1 b2 a2 : Nat) : (n : Nat) → M α Unit
  | 0 => pure ()
  | n+1 => swapAt c b1 a1 b2 a2 >>= fun _ => swapRanges c b1 (a1 + 1) b2 (a2 + 1) n

end SvModel
