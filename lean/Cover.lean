/-
svcover: reads protocol lines (as the driver does) and counts, among the lines the driver accepts as valid calls,
  bridged — the call has a counterpart in the history language of Properties/System.lean (Bridge.toMOp), and
  covered — that counterpart satisfies the history language's precondition (MOp.valid) in the state reached,
i.e. the line is an instance of what `api_step_sys` / `api_reachable_sys` / `api_refines_rel` are about.
Statistics for the evidence only; it decides nothing.
-/
import SvModel.Properties.Bridge
open SvModel SvModel.System SvModel.History SvModel.Bridge

instance (sz : Nat) (op : SOp Int) : Decidable (op.valid sz) := by
  cases op <;> simp only [SOp.valid] <;> infer_instance
instance (cfg : Cfg) (w : World Int) (c o : Nat) : Decidable (SwapAllocOK cfg w c o) := by
  unfold SwapAllocOK; infer_instance
instance (cfg : Cfg) (U : List Nat) (s : St Int) (m : MOp Int) : Decidable (m.valid cfg U s) := by
  cases m <;> simp only [MOp.valid] <;> infer_instance

def aliveList (s : Sys) : List Nat := [0, 1, 2, 3].filter (fun x => s.isAlive x)

def flavourCfg : String → Option Cfg
  | "En"  => some { copyThrows := true, moveThrows := false, casgThrows := true, masgThrows := false, vctorThrows := true }
  | "Et"  => some { copyThrows := true, moveThrows := true, casgThrows := true, masgThrows := true, vctorThrows := true }
  | "Enn" => some { copyThrows := false, moveThrows := false, casgThrows := false, masgThrows := false, vctorThrows := false }
  | "Ec"  => some { copyThrows := true, moveThrows := false, casgThrows := true, masgThrows := false, vctorThrows := true, hasMoveCtor := false }
  | "Tr"  => some { trivial := true }
  | _ => none

def allocCfg (c : Cfg) (k : String) : Option (Cfg × Nat) :=
  if k = "std" then some ({ c with isStdAlloc := true, alwaysEq := true, pocma := true }, 0)
  else if k.startsWith "ta" && k.length = 7 then
    let bits := (k.drop 2).toString.toList.map (· == '1')
    match bits with
    | [a, b, s, e, so] => some ({ c with pocca := a, pocma := b, pocs := s, alwaysEq := e }, if so then 100 else 0)
    | _ => none
  else none

structure Counts where
  valid : Nat := 0
  bridged : Nat := 0
  covered : Nat := 0

def classify (ac : ApiCfg) (s : Sys) (line : String) : Option (Bool × Bool) :=
  let line := line.trimAscii.toString
  let parts := line.splitOn " @"
  match parseOp ((parts.headD "").splitOn " " |>.filter (· ≠ "")) with
  | some op =>
    if !op.valid s then none else
    match toMOp ac s op with
    | none => some (false, false)
    | some m => some (true, decide (m.valid ac.cfg [0, 1, 2, 3] ⟨s.w, aliveList s⟩))
  | none => none

partial def loop (h : IO.FS.Stream) (ac : ApiCfg) (N M : Nat) (s : Sys) (c : Counts) : IO Counts := do
  let line ← h.getLine
  if line.isEmpty then return c
  let c' := match classify ac s line with
    | none => c
    | some (b, v) => { valid := c.valid + 1, bridged := c.bridged + (if b then 1 else 0), covered := c.covered + (if v then 1 else 0) }
  let (s', _) := stepLine ac N M s line
  loop h ac N M s' c'

def main (args : List String) : IO UInt32 := do
  match args with
  | [fl, n, m, ak, mx] =>
    match flavourCfg fl, n.toNat?, m.toNat?, mx.toNat? with
    | some c, some N, some M, some maxSize =>
      match allocCfg { c with maxSize := maxSize } ak with
      | some (c', shift) =>
        let r ← loop (← IO.getStdin) { cfg := c', socccShift := shift } N M (initSys N M) {}
        IO.println s!"valid={r.valid} bridged={r.bridged} covered={r.covered}"
        return 0
      | none => return 2
    | _, _, _, _ => return 2
  | _ => return 2
