import SvModel.Api
open SvModel

def flavourCfg : String → Option Cfg
  | "En"  => some { copyThrows := true, moveThrows := false, casgThrows := true, masgThrows := false, vctorThrows := true }
  | "Et"  => some { copyThrows := true, moveThrows := true, casgThrows := true, masgThrows := true, vctorThrows := true }
  | "Enn" => some { copyThrows := false, moveThrows := false, casgThrows := false, masgThrows := false, vctorThrows := false }
  | "Ec"  => some { copyThrows := true, moveThrows := false, casgThrows := true, masgThrows := false, vctorThrows := true, hasMoveCtor := false }
  | "Tr"  => some { trivial := true }
  | _ => none

/-- allocator kind: "std" or "ta<pocca><pocma><pocs><alwaysEq><soccc>" e.g. ta01000 -/
def allocCfg (c : Cfg) (k : String) : Option (Cfg × Nat) :=
  if k = "std" then some ({ c with isStdAlloc := true, alwaysEq := true, pocma := true }, 0)
  else if k.startsWith "ta" && k.length = 7 then
    let bits := (k.drop 2).toString.toList.map (· == '1')
    match bits with
    | [a, b, s, e, so] => some ({ c with pocca := a, pocma := b, pocs := s, alwaysEq := e }, if so then 100 else 0)
    | _ => none
  else none

partial def loop (h : IO.FS.Stream) (out : IO.FS.Stream) (ac : ApiCfg) (N M : Nat) (s : Sys) : IO Unit := do
  let line ← h.getLine
  if line.isEmpty then return ()
  let (s', o) := stepLine ac N M s line
  out.putStrLn o
  loop h out ac N M s'

partial def main (args : List String) : IO UInt32 := do
  match args with
  | [fl, n, m, ak, mx, "optout"] => main [fl ++ "!", n, m, ak, mx]     -- built with GCH_NO_STRONG_EXCEPTION_GUARANTEES
  | [fl, n, m, ak, mx] =>
    match (if fl.endsWith "!" then (flavourCfg (fl.dropRight 1)).map (fun c => { c with strongOptOut := true }) else flavourCfg fl),
          n.toNat?, m.toNat?, mx.toNat? with
    | some c, some N, some M, some maxSize =>
      match allocCfg { c with maxSize := maxSize } ak with
      | some (c', shift) =>
        let out ← IO.getStdout
        loop (← IO.getStdin) out { cfg := c', socccShift := shift } N M (initSys N M)
        out.flush
        return 0
      | none => IO.eprintln "bad allocator kind"; return 2
    | _, _, _, _ => IO.eprintln "bad arguments"; return 2
  | _ => IO.eprintln "usage: svdriver <flavour> <N> <M> <allockind> <maxSize>"; return 2
