-- Root of the `SvModel` library.
import SvModel.Gen.Growth
import SvModel.Gen.Guards
import SvModel.Gen.Policy
import SvModel.Gen.Compare
import SvModel.Gen.Layout
import SvModel.Gen.NoexceptFlags
import SvModel.Spec.L0Compare
import SvModel.Properties.C14
import SvModel.Properties.C16
import SvModel.Spec.L0
import SvModel.Api
import SvModel.Proofs.Examples
import SvModel.Properties.Core
import SvModel.Properties.C19
import SvModel.Properties.C19
